"""C19, bitmap / VARR / DLIST part: correspondence of the Lean models (lean/MirVerif/Model/{Bitmap,Varr,Dlist}.lean,
driver mirdrv_c19b) with the real headers mir-bitmap.h / mir-varr.h / mir-dlist.h (harness/c19_sets.c).

Called by checks/c19.py:  SUPPORT (modules for the forbidden-word grep) and run(ck).

Three parties per operation:
  * the real header, run in-process by the harness (ASan+UBSan; asserts on, and a -DNDEBUG flavour);
  * the harness' built-in *reference* = the specification (plain word arrays / array / id list);
    its verdicts are the annotations REFBAD (contents or value differ from the specification) and
    FLAGBAD (op2/op3 change flag != "set changed");
  * the Lean model (proved equal to the specification in Props/C19/{Bitmap,Seq}.lean).
REFBAD / FLAGBAD on a (shrunk) input  => the *property* fails on the real code  => ck.violation.
model != code without REFBAD/FLAGBAD  => only the tie is broken              => ck.broken_ties.
"""
import json, os, re, subprocess, time
from concurrent.futures import ThreadPoolExecutor
from vf import VERIF, REPO, LEAN, CACHE, SplitMix

SUPPORT = ["MirVerif.Model.Bitmap", "MirVerif.Model.Varr", "MirVerif.Model.Dlist",
           "MirVerif.Lemmas.Bitmap", "MirVerif.Lemmas.BitmapRange", "MirVerif.Lemmas.BitmapRel",
           "MirVerif.Lemmas.BitmapCount", "MirVerif.Lemmas.BitmapIter", "MirVerif.Lemmas.BitmapOp",
           "MirVerif.Lemmas.Varr", "MirVerif.Lemmas.Dlist", "MirVerif.Lemmas.DlistOps"]

KNOWN_SIG = "C19:bitmap-op-flag-dropped-high-words"
WORK = os.path.join(CACHE, "c19_sets")
DRV = os.environ.get("VERIF_C19B_DRV") or os.path.join(LEAN, ".lake", "build", "bin", "mirdrv_c19b")
SAN = ["-fsanitize=address,undefined", "-fno-sanitize-recover=all"]
POL = re.compile(r" ?pol:\S+")
ANN = re.compile(r" \|.*$", re.M)


# ----------------------------------------------------------------------------- running
class Runner:
    def __init__(self, ck, exes):
        self.ck, self.exes, self.n = ck, exes, 0
        os.makedirs(WORK, exist_ok=True)

    def run(self, lines, flavour, timeout=900):
        """-> (impl_lines, model_lines, impl_rc, impl_stderr_tail)"""
        self.n += 1
        inp = "\n".join(lines) + "\n"
        env = dict(os.environ, ASAN_OPTIONS="detect_leaks=1:abort_on_error=0:handle_abort=0",
                   UBSAN_OPTIONS="print_stacktrace=1")
        def impl(extra):
            try:
                pc = subprocess.run([self.exes[flavour]], input=inp, stdout=subprocess.PIPE, stderr=subprocess.PIPE,
                                    text=True, timeout=timeout, env=dict(env, **extra))
                return pc.stdout, pc.returncode, pc.stderr
            except subprocess.TimeoutExpired as e:
                o = (e.stdout or b"").decode() if isinstance(e.stdout, bytes) else (e.stdout or "")
                return o, -999, "TIMEOUT (non-termination of the real code?)"
        c_out, c_rc, c_err = impl({})
        if c_rc != 0:
            # died: stdio buffer lost; run again line-buffered so the output ends at the fatal call
            c_out, c_rc, c_err = impl({"C19_LINEBUF": "1"})
        pl = subprocess.run([DRV], input=inp, stdout=subprocess.PIPE, stderr=subprocess.PIPE, text=True,
                            timeout=timeout)
        # asserts caught by the harness write to stderr; keep only the sanitizer part
        err = "\n".join(l for l in c_err.split("\n") if "Assertion `0' failed" not in l and not l.startswith("wrong "))
        cl = c_out.split("\n")
        if cl and cl[-1] == "":
            cl.pop()
        return cl, pl.stdout.split("\n")[:-1], c_rc, err[-1500:]


def left(line):
    return POL.sub("", line.split(" |")[0])


def pol(line):
    return POL.findall(line.split(" |")[0])


def first_problem(lines, c, l, rc):
    """index and kind of the first line where something is wrong, or None.
    kinds: ALLOCBAD (ledger allocator got a wrong old_size), REFBAD, FLAGBAD, CRASH (sanitizer / abort /
    short output), DIFF (model != code), EVDIFF (allocator-call arguments differ from the C17 VarrAlloc model
    although the capacity agrees, i.e. not a mere growth-policy drift)"""
    n = len(lines)
    drift = False
    for i in range(n):
        if i >= len(c):
            return i, "CRASH"
        ci = c[i]
        if lines[i].startswith("R "):
            drift = False
        if " |" in ci:
            a = ci.split(" |", 1)[1]
            if "ALLOCBAD" in a:
                return i, "ALLOCBAD"
            if "REFBAD" in a:
                return i, "REFBAD"
            if "FLAGBAD" in a:
                return i, "FLAGBAD"
        if i >= len(l) or left(ci) != POL.sub("", l[i]):
            return i, "DIFF"
        if "pol:ev" in ci or "pol:ev" in l[i]:
            pc, pl = pol(ci), pol(l[i])
            if [t for t in pc if "pol:ev" not in t] != [t for t in pl if "pol:ev" not in t]:
                drift = True
            elif pc != pl and not drift:
                return i, "EVDIFF"
        elif "pol:c" in ci and pol(ci) != pol(l[i]):
            drift = True
    if rc != 0:
        return n - 1, "CRASH"
    return None


def flag_signature(cline):
    m = re.search(r"^(\d) .*chg=(\d) dl=(\d+) sl=(\d+) FLAGBAD lowsame=(\d)", cline)
    if m and m.group(1) == "0" and m.group(2) == "1" and int(m.group(3)) > int(m.group(4)) and m.group(5) == "1":
        return KNOWN_SIG
    return "C19:bitmap-op-flag-wrong"


def isolate(lines, idx):
    """the single sequence (from its R line) that contains line idx"""
    s = idx
    while s > 0 and not lines[s].startswith("R "):
        s -= 1
    if s > 0 and lines[s - 1].startswith("E "):
        s -= 1
    return lines[s:idx + 1]


def shrink(rn, seq, flavour, kind, sig, budget=160):
    """ddmin on the lines after the leading R line; keeps `kind` (and flag signature) reproducible"""
    def bad(cand):
        c, l, rc, _ = rn.run(cand, flavour, timeout=60)
        p = first_problem(cand, c, l, rc)
        if p is None or p[1] != kind:
            return False
        if kind == "FLAGBAD" and flag_signature(c[p[0]]) != sig:
            return False
        return True
    nh = 0
    while nh < len(seq) and nh < 2 and seq[nh][:2] in ("R ", "E "):
        nh += 1
    head, body = seq[:nh], seq[nh:]
    n, used = 2, 0
    while len(body) >= 2 and used < budget:
        chunk = max(1, len(body) // n)
        reduced = False
        for s in range(0, len(body), chunk):
            cand = body[:s] + body[s + chunk:]
            used += 1
            if cand and bad(head + cand):
                body, n, reduced = cand, max(n - 1, 2), True
                break
            if used >= budget:
                break
        if not reduced:
            if chunk == 1:
                break
            n = min(len(body), n * 2)
    return head + body


# ----------------------------------------------------------------------------- generators
BITS = [0, 1, 63, 64, 65, 127, 128, 130]
UNIVERSE = 80 * 64      # = UNIV of harness/c19_sets.c and of Drv/C19b.lean
# representative contents (as set-up commands on bitmap %d), incl. all-zero and zero-tailed long ones
TEMPLATES = [
    [],
    ["bs %d 0"],
    ["bs %d 64", "bs %d 0"],
    ["bs %d 130"],
    ["bs %d 130", "bc %d 130"],                 # three zero words
    ["bs %d 4100", "bs %d 64"],                 # 65 words: grown past the initial 64-word allocation
    # (quick tier stops here)
    ["bs %d 63"],
    ["bs %d 130", "bs %d 5", "bc %d 130"],      # {5} with two zero tail words
    ["brs %d 62 4"],
    ["bs %d 1", "bs %d 65", "bs %d 127"],
    ["brs %d 0 131"],
    ["bs %d 128"],
    ["brs %d 63 66", "bc %d 64"],
]
QTAIL = ["bdump", "bit 0", "bit 1", "bcn 0", "bmn 1", "bmx 1", "beq 0 1", "bis 0 1", "bem 0"]


def gen_bitmap_state_ops(ntpl):
    """every op2/op3 with every id combination (all aliasings) on every triple of template states;
    bitmaps 3..5 hold back-ups, restored by bitmap_copy after each op"""
    T = TEMPLATES[:ntpl]
    out = []
    for i, ta in enumerate(T):
        for j, tb in enumerate(T):
            for k, tc in enumerate(T):
                seq = ["R 6 0 1"]
                for b, t in ((0, ta), (1, tb), (2, tc)):
                    seq += [x % b for x in t] + [x % (b + 3) for x in t]
                for d in range(3):
                    for a in range(3):
                        for b in range(3):
                            for op in ("band", "bandc", "bior"):
                                seq += [f"{op} {d} {a} {b}", f"bcp {d} {d + 3}"]
                            for c in range(3):
                                for op in ("bia", "biac"):
                                    seq += [f"{op} {d} {a} {b} {c}", f"bcp {d} {d + 3}"]
                seq.append("bdump")
                out.append(seq)
    return out


def gen_bitmap_growth():
    """every op2/op3 x every id combination on FRESH bitmaps (initial 64-word allocation) where one
    operand has 65 words, so that the destination is reallocated inside the call (stale-pointer bugs with
    aliased operands); also copy / set / range growing a fresh bitmap"""
    out = []
    for pre in ([], ["bs 0 7"], ["bs 0 7", "bs 2 4099"]):
        for big in (1, 0):
            setup = ["R 3 0 1", f"bs {big} 4100"] + pre
            for d in range(3):
                for a in range(3):
                    for b in range(3):
                        for op in ("band", "bandc", "bior"):
                            out.append(setup + [f"{op} {d} {a} {b}", "bdump"])
                        for c in range(3):
                            for op in ("bia", "biac"):
                                out.append(setup + [f"{op} {d} {a} {b} {c}", "bdump"])
    for cmd in ("bcp 1 0", "bs 1 4096", "brs 1 4000 200", "brc 1 4000 200", "bs 1 4095", "brs 1 0 4097"):
        out.append(["R 2 0 1", "bs 0 4100", "bs 0 1", cmd, "bdump", "bit 1", "bcn 1", "bmx 1"])
    return out


def gen_bitmap_unary():
    out = []
    lens = [0, 1, 2, 63, 64, 65, 128, 130]
    for t in TEMPLATES:
        seq = ["R 2 0 1"] + [x % 0 for x in t] + [x % 1 for x in t]
        for q in ("bem 0", "bcn 0", "bmn 0", "bmx 0", "bit 0"):
            seq.append(q)
        for n in BITS + [191, 192]:
            seq += [f"bt 0 {n}", f"bs 0 {n}", "bit 0", "bcn 0", "bmx 0", "bmn 0", "beq 0 1", "bcp 0 1",
                    f"bc 0 {n}", "bit 0", "bmx 0", "beq 0 1", "bcp 0 1"]
            for ln in lens:
                seq += [f"brs 0 {n} {ln}", "bit 0", "bcn 0", "beq 0 1", "bis 0 1", "bcp 0 1",
                        f"brc 0 {n} {ln}", "bit 0", "bmx 0", "beq 1 0", "bcp 0 1"]
        for u in TEMPLATES:
            seq += ["bcl 1"] + [x % 1 for x in u] + ["beq 0 1", "beq 1 0", "bis 0 1", "bis 1 0", "bcp 1 0", "beq 0 1"]
        out.append(seq)
    return out


def bitmap_alphabet():
    A = []
    for d in (0, 1):
        for n in (0, 63, 64, 130):
            A += [f"bs {d} {n}", f"bc {d} {n}"]
        for n, ln in ((62, 4), (0, 64), (63, 66)):
            A += [f"brs {d} {n} {ln}", f"brc {d} {n} {ln}"]
        A.append(f"bcl {d}")
        for a in (0, 1):
            for b in (0, 1):
                A += [f"band {d} {a} {b}", f"bandc {d} {a} {b}", f"bior {d} {a} {b}"]
                for c in (0, 1):
                    A += [f"bia {d} {a} {b} {c}", f"biac {d} {a} {b} {c}"]
    A += ["bcp 0 1", "bcp 1 0"]
    return A


def gen_all_sequences(alpha, k, reset, tail):
    """all sequences of length exactly k"""
    idx = [0] * k
    n = len(alpha)
    while True:
        yield [reset] + [alpha[i] for i in idx] + tail
        p = k - 1
        while p >= 0:
            idx[p] += 1
            if idx[p] < n:
                break
            idx[p] = 0
            p -= 1
        if p < 0:
            return


def gen_bitmap_random(rng, nops, nbm=5):
    seq = [f"R {nbm} 0 1"]
    def bit():
        r = rng.below(10)
        if r < 4:
            return rng.choice(BITS) + rng.below(3)
        if r < 8:
            return rng.below(200)
        if r < 9:
            return rng.below(1500)
        return 3900 + rng.below(1100)          # beyond the initial 64-word allocation: realloc path
    def bid():
        return rng.below(nbm)
    for _ in range(nops):
        r = rng.below(100)
        if r < 14:
            seq.append(f"bs {bid()} {bit()}")
        elif r < 22:
            seq.append(f"bc {bid()} {bit()}")
        elif r < 26:
            seq.append(f"bt {bid()} {bit()}")
        elif r < 33:
            n, ln = bit(), rng.choice([0, 1, 2, 5, 63, 64, 65, 100, 129, 300])
            n = min(n, UNIVERSE - ln)              # the harness' reference universe
            seq.append(f"{'brs' if rng.chance(1, 2) else 'brc'} {bid()} {n} {ln}")
        elif r < 63:
            d, a, b = bid(), bid(), bid()
            if rng.chance(1, 3):
                a = d
            if rng.chance(1, 6):
                b = d
            seq.append(f"{rng.choice(['band', 'bandc', 'bior'])} {d} {a} {b}")
        elif r < 83:
            d, a, b, c = bid(), bid(), bid(), bid()
            if rng.chance(1, 3):
                a = d
            if rng.chance(1, 5):
                c = d
            seq.append(f"{rng.choice(['bia', 'biac'])} {d} {a} {b} {c}")
        elif r < 86:
            d, s = bid(), bid()
            if d != s:
                seq.append(f"bcp {d} {s}")
        elif r < 87:
            seq.append(f"bcl {bid()}")
        elif r < 91:
            seq.append(f"{rng.choice(['beq', 'bis'])} {bid()} {bid()}")
        elif r < 97:
            seq.append(f"{rng.choice(['bem', 'bcn', 'bmn', 'bmx', 'bit'])} {bid()}")
        else:
            seq.append("bdump")
    seq.append("bdump")
    return seq


def varr_alphabet():
    A = ["vpush 7", "vpush -3", "vpop", "vlast", "vlen", "vpusharr 4 5", "vpusharr"]
    A += [f"vget {i}" for i in (0, 1, 2)] + [f"vset {i} 9" for i in (0, 1)]
    A += [f"vtrunc {n}" for n in (0, 1, 3)] + [f"vexpand {n}" for n in (1, 2, 5)] + [f"vtailor {n}" for n in (1, 2, 3)]
    return A


def gen_varr_random(rng, nops, checked, small=False):
    """small: element values 0..199 only (fit every element size of the allocator harness)"""
    seq = [f"R 1 {rng.choice([0, 1, 2, 3, 64])} 1"]
    n = 0
    for _ in range(nops):
        r = rng.below(100)
        bad = checked and rng.chance(1, 40)
        if r < 38 and n < 20000:
            seq.append(f"vpush {rng.below(200) if small else rng.below(2000) - 1000}"); n += 1
        elif r < 44 and n < 20000:
            k = rng.below(9)
            seq.append("vpusharr " + " ".join(str(rng.below(100)) for _ in range(k))); n += k
        elif r < 64:
            if n > 0 or bad:
                seq.append("vpop"); n = max(0, n - 1)
        elif r < 68:
            if n > 0 or bad:
                seq.append("vlast")
        elif r < 78:
            if bad:
                seq.append(f"vget {n + rng.below(3)}")
            elif n > 0:
                seq.append(f"vget {rng.below(n)}")
        elif r < 86:
            if bad:
                seq.append(f"vset {n + rng.below(3)} 1")
            elif n > 0:
                seq.append(f"vset {rng.below(n)} {rng.below(200 if small else 1000)}")
        elif r < 90:
            if bad:
                seq.append(f"vtrunc {n + 1 + rng.below(3)}")
            else:
                m = rng.below(n + 1) if rng.chance(1, 4) else max(0, n - rng.below(4))
                seq.append(f"vtrunc {m}"); n = m
        elif r < 93:
            seq.append(f"vexpand {rng.below(2 * n + 10)}")
        elif r < 95:
            m = max(1, rng.below(n + 10) if n < 3000 else rng.below(n + 1))
            seq.append(f"vtailor {m}"); n = m
        elif r < 98:
            seq.append("vlen")
        else:
            if n < 400:
                seq.append("vdump")
    seq.append("vlen")
    if n < 3000:
        seq.append("vdump")
    return seq


def dlist_inverse(lst, op):
    """apply op on python list `lst` (a copy is returned) together with the command undoing it"""
    t = op.split()
    l = list(lst)
    if t[0] == "lpre":
        l.insert(0, int(t[1])); return l, f"lrm {t[1]}"
    if t[0] == "lapp":
        l.append(int(t[1])); return l, f"lrm {t[1]}"
    if t[0] == "lib":
        l.insert(l.index(int(t[1])), int(t[2])); return l, f"lrm {t[2]}"
    if t[0] == "lia":
        l.insert(l.index(int(t[1])) + 1, int(t[2])); return l, f"lrm {t[2]}"
    e = int(t[1]); p = l.index(e); l.pop(p)
    undo = f"lib {l[p]} {e}" if p < len(l) else f"lapp {e}"
    return l, undo


def dlist_valid_ops(l, n):
    free = [e for e in range(n) if e not in l]
    ops = []
    for e in free:
        ops += [f"lpre {e}", f"lapp {e}"]
        for a in l:
            ops += [f"lib {a} {e}", f"lia {a} {e}"]
    ops += [f"lrm {e}" for e in l]
    return ops


def gen_dlist_dfs(n, depth, checked):
    """Euler tour over all valid histories of length <= depth on n nodes (each edge: op, then its undo);
    at every node of depth < 3 also the queries and (checked flavour) every call the header rejects"""
    seq = [f"R 1 0 {n}"]
    count = [0]
    def queries(l):
        q = ["llen"] + [f"lel {i}" for i in range(-n - 1, n + 1)] + [f"lpn {e}" for e in range(n)]
        if checked:
            free = [e for e in range(n) if e not in l]
            q += [f"lrm {e}" for e in free]
            q += [f"{c} {a} {e}" for c in ("lib", "lia") for a in free for e in free if a != e]
        return q
    def rec(l, d):
        if d <= 2:
            seq.extend(queries(l))
        if d == depth:
            return
        for op in dlist_valid_ops(l, n):
            l2, undo = dlist_inverse(l, op)
            seq.append(op); count[0] += 1
            rec(l2, d + 1)
            seq.append(undo)
    rec([], 0)
    seq.append("ldump")
    return seq, count[0]


def gen_dlist_random(rng, nops, n, checked):
    seq = [f"R 1 0 {n}"]
    l = []
    for _ in range(nops):
        free = [e for e in range(n) if e not in l]
        r = rng.below(100)
        if checked and rng.chance(1, 50) and len(free) >= 2:
            a, e = free[0], free[1]
            seq.append(rng.choice([f"lrm {a}", f"lib {a} {e}", f"lia {a} {e}"]))
            continue
        grow = len(l) < n // 2 or (len(l) < n and rng.chance(1, 2))
        if r < 12:
            seq.append(f"lel {rng.below(2 * n + 3) - n - 1}")
        elif r < 15:
            seq.append("llen")
        elif r < 18 and l:
            seq.append(f"lpn {rng.choice(l)}")
        elif grow and free:
            e = rng.choice(free)
            k = rng.below(4)
            if k == 0 or not l:
                op = f"lpre {e}" if rng.chance(1, 2) else f"lapp {e}"
            elif k == 1:
                op = f"lib {rng.choice(l)} {e}"
            elif k == 2:
                op = f"lia {rng.choice(l)} {e}"
            else:
                op = f"lapp {e}"
            l, _ = dlist_inverse(l, op)
            seq.append(op)
        elif l:
            e = rng.choice([l[0], l[-1], rng.choice(l)])
            seq.append(f"lrm {e}")
            l.remove(e)
    seq.append("ldump")
    return seq


# ----------------------------------------------------------------------------- statistics
class Stats:
    def __init__(self):
        self.kinds = {"bitmap": {}, "varr": {}, "dlist": {}}
        self.extra = {"bitmap": {"op_aliased_dst": 0, "op_result_shorter_than_dst": 0, "op_flag_1": 0, "op_flag_0": 0,
                                 "flagbad_known_shape": 0, "flagbad_other": 0, "range_crossing_word": 0,
                                 "max_words": 0},
                      "varr": {"realloc": 0, "rejected": 0, "max_len": 0, "indeterminate_read": 0},
                      "dlist": {"rejected": 0, "len_hist": {}}}
        self.nontrivial = set()
        self.evals = 0

    def feed(self, lines, c):
        K = self.kinds
        xb, xv, xl = self.extra["bitmap"], self.extra["varr"], self.extra["dlist"]
        nt = self.nontrivial
        for ln, out in zip(lines, c):
            ch = ln[0]
            if ch == "R" or ch == "E":
                continue
            self.evals += 1
            sp = ln.find(" ")
            cmd = ln if sp < 0 else ln[:sp]
            if ch == "b":
                d = K["bitmap"]; d[cmd] = d.get(cmd, 0) + 1
                if cmd in ("band", "bandc", "bior", "bia", "biac"):
                    t = ln.split()
                    if t[1] in t[2:]:
                        xb["op_aliased_dst"] += 1
                    if out[0] == "1":
                        xb["op_flag_1"] += 1
                    else:
                        xb["op_flag_0"] += 1
                    m = re.search(r"^\d (\d+):.* dl=(\d+)", out)
                    if "FLAGBAD" in out:
                        if flag_signature(out) == KNOWN_SIG:
                            xb["flagbad_known_shape"] += 1
                        else:
                            xb["flagbad_other"] += 1
                    if m:
                        if int(m.group(1)) < int(m.group(2)):
                            xb["op_result_shorter_than_dst"] += 1
                    nt.add(hash((ln, out)))
                elif cmd in ("brs", "brc"):
                    t = ln.split()
                    if int(t[2]) // 64 != (int(t[2]) + max(int(t[3]), 1) - 1) // 64:
                        xb["range_crossing_word"] += 1
                    nt.add(hash((ln, out)))
                elif cmd in ("bit", "bmn", "bmx", "bcn", "beq", "bis"):
                    nt.add(hash((ln, out)))
                if cmd in ("bs", "brs"):
                    w = out.split(" ")[1].split(":")[0] if " " in out else "0"
                    if w.isdigit() and int(w) > xb["max_words"]:
                        xb["max_words"] = int(w)
            elif ch == "v":
                d = K["varr"]; d[cmd] = d.get(cmd, 0) + 1
                if out.startswith("rej"):
                    xv["rejected"] += 1; nt.add(hash((ln, out)))
                elif "pol:1" in out:
                    xv["realloc"] += 1; nt.add(hash((ln, out)))
                elif cmd in ("vtailor", "vtrunc", "vpusharr", "vdump"):
                    nt.add(hash((ln, out)))
                if out.startswith("?"):
                    xv["indeterminate_read"] += 1
                m = re.search(r"n=(\d+)", out)
                if m and int(m.group(1)) > xv["max_len"]:
                    xv["max_len"] = int(m.group(1))
            elif ch == "l":
                d = K["dlist"]; d[cmd] = d.get(cmd, 0) + 1
                if out.startswith("rej"):
                    xl["rejected"] += 1; nt.add(hash((ln, out)))
                elif out.startswith("ok"):
                    f = out.split(" ")[1][2:]
                    n = 0 if f == "" else f.count(",") + 1
                    xl["len_hist"][n] = xl["len_hist"].get(n, 0) + 1
                    if n >= 2:
                        nt.add(hash((ln, out)))


# ----------------------------------------------------------------------------- the stage
def run(ck):
    t0 = time.time()
    rn_exes = {}
    jobs = [("c19_sets_chk", ["harness/c19_sets.c"], ["-O1", "-g"] + SAN),
            ("c19_sets_ndebug", ["harness/c19_sets.c"], ["-O2", "-g", "-DNDEBUG"] + SAN),
            ("c19_seq_alloc_chk", ["harness/c19_seq_alloc.c"], ["-O1", "-g"] + SAN),
            ("c19_seq_alloc_ndebug", ["harness/c19_seq_alloc.c"], ["-O2", "-g", "-DNDEBUG"] + SAN)]
    built = ck.cc_par(jobs)
    for name, flav in (("c19_sets_chk", "chk"), ("c19_sets_ndebug", "ndebug"),
                       ("c19_seq_alloc_chk", "alloc_chk"), ("c19_seq_alloc_ndebug", "alloc_ndebug")):
        if built.get(name) is None:
            ck.broken_ties.append({"kind": "harness-compile", "name": name, "log": getattr(ck, "last_cc_log", "")[-1500:]})
        else:
            rn_exes[flav] = built[name]
    if not os.path.exists(DRV):
        ck.broken_ties.append({"kind": "driver-missing", "name": "mirdrv_c19b"})
    if len(rn_exes) < 4 or not os.path.exists(DRV):
        ck.stage("c19_sets", ok=False)
        return
    # private copies: vf.cc drops same-name binaries built from another tree (concurrent VERIF_REPO runs)
    import shutil
    priv = os.path.join(WORK, str(os.getpid()))
    os.makedirs(priv, exist_ok=True)
    try:
        for k in list(rn_exes):
            dst = os.path.join(priv, os.path.basename(rn_exes[k]))
            shutil.copy2(rn_exes[k], dst)
            rn_exes[k] = dst
    except OSError as e:
        ck.broken_ties.append({"kind": "harness-copy", "name": "c19_sets", "log": str(e)})
        ck.stage("c19_sets", ok=False)
        return
    try:
        _run(ck, rn_exes, t0)
    finally:
        shutil.rmtree(priv, ignore_errors=True)


def _run(ck, rn_exes, t0):
    rn = Runner(ck, rn_exes)
    st = Stats()
    state = {"reported": set(), "viol": 0, "ties": 0}

    def report(lines, c, l, rc, err, flavour, origin):
        """classify the first problem of a finished run; returns True if something was wrong"""
        p = first_problem(lines, c, l, rc)
        if p is None:
            return False
        idx, kind = p
        sig = flag_signature(c[idx]) if kind == "FLAGBAD" else None
        key = (kind, sig, origin if kind != "FLAGBAD" else "")
        if key in state["reported"] or len(state["reported"]) > 12:
            return True
        state["reported"].add(key)
        seq = isolate(lines, idx)
        seq = shrink(rn, seq, flavour, kind, sig)
        c2, l2, rc2, err2 = rn.run(seq, flavour, timeout=60)
        p2 = first_problem(seq, c2, l2, rc2) or (len(seq) - 1, kind)
        i2 = p2[0]
        rep = {"part": "sets", "flavour": flavour, "origin": origin, "kind": kind, "input": seq,
               "failing_command": seq[i2] if i2 < len(seq) else None,
               "impl": c2[max(0, i2 - 3):i2 + 1], "model": l2[max(0, i2 - 3):i2 + 1],
               "impl_rc": rc2, "impl_stderr": err2,
               "how_to_rerun": "save this file, then: cd /verif && ./check C19 --replay <file>   "
                               "(or pipe `input` into .cache/bin/c19_sets_chk-* and lean/.lake/build/bin/mirdrv_c19b)"}
        if kind == "FLAGBAD":
            rep["spec_verdict"] = "op2/op3 returned a change flag different from 'the destination set changed'"
            if ck.violation(rep, what="bitmap op2/op3 change flag wrong: " + (c2[i2] if i2 < len(c2) else ""), signature=sig):
                state["viol"] += 1
            else:
                state["known"] = state.get("known", 0) + 1
        elif kind == "ALLOCBAD":
            rep["spec_verdict"] = ("mir-varr.h handed MIR_realloc an old_size that is not the size of the block "
                                   "(premise of C17.varr_realloc_old_size); an allocator that trusts old_size, as "
                                   "CUSTOM-ALLOCATORS.md allows, then loses or over-reads elements")
            ck.violation(rep, what=f"{seq[i2].split()[0]} (element size {seq[0].split()[-1] if seq[0].startswith('E ') else '?'}): "
                                   f"wrong old_size passed to MIR_realloc: {c2[i2] if i2 < len(c2) else ''}",
                         signature=None)
            state["viol"] += 1
        elif kind == "REFBAD":
            rep["spec_verdict"] = "real header disagrees with the abstract set / sequence / list specification"
            ck.violation(rep, what=f"{seq[i2].split()[0]}: real header differs from the specification: "
                                   f"{c2[i2] if i2 < len(c2) else ''}", signature=None)
            state["viol"] += 1
        elif kind == "CRASH":
            rep["spec_verdict"] = "real header crashed / sanitizer report / did not terminate on a valid history"
            ck.violation(rep, what=f"harness died (rc={rc2}) at `{seq[i2] if i2 < len(seq) else '?'}`: {err2[-300:]}",
                         signature=None)
            state["viol"] += 1
        else:
            ck.broken_ties.append({"kind": "correspondence", "name": f"c19_sets/{origin}/{flavour}",
                                   "first_diff": {"input": seq, "impl": c2[i2] if i2 < len(c2) else None,
                                                  "model": l2[i2] if i2 < len(l2) else None}})
            state["ties"] += 1
        return True

    def run_batch(seqs, flavour, origin, feed=True):
        """concatenate sequences, run, classify"""
        lines = [x for s in seqs for x in s]
        c, l, rc, err = rn.run(lines, flavour)
        pols = 0
        for a, b in zip(c, l):
            if "pol:" in a and pol(a) != pol(b):
                pols += 1
        return lines, c, l, rc, err, pols

    def process(batches, origin):
        """batches: iterable of (flavour, [sequences]); run them 14 at a time in parallel, classify sequentially"""
        pol_mismatch = 0
        it = iter(batches)
        with ThreadPoolExecutor(max_workers=14) as ex:
            while True:
                group = []
                for b in it:
                    group.append(b)
                    if len(group) >= 14:
                        break
                if not group:
                    break
                futs = [(fl, ex.submit(run_batch, seqs, fl, origin)) for fl, seqs in group]
                for fl, f in futs:
                    lines, c, l, rc, err, pols = f.result()
                    st.feed(lines, c)
                    pol_mismatch += pols
                    report(lines, c, l, rc, err, fl, origin)
        return pol_mismatch

    def chunks(seq_iter, per):
        cur = []
        for s in seq_iter:
            cur.append(s)
            if len(cur) >= per:
                yield cur
                cur = []
        if cur:
            yield cur

    # ---- a replay of one saved case
    if ck.replay:
        try:
            rp = json.load(open(ck.replay))
        except Exception:
            rp = {}
        if rp.get("part") != "sets":
            return
        fl = rp.get("flavour", "chk")
        lines = rp["input"]
        c, l, rc, err = rn.run(lines, fl)
        ck.log("replay", ck.replay, "impl:", c[-3:], "model:", l[-3:])
        if not report(lines, c, l, rc, err, fl, "replay"):
            ck.log("replay: no problem on the current tree")
        ck.cov["evaluations"] += len(lines)
        return

    quick = ck.tier == "quick"
    thorough = not quick
    pol_mismatch = 0

    # ---- 0. which flag variant has the header, which one the model
    c, l, rc, err = rn.run(["variant"], "chk")
    hv, mv = (c + ["?"])[0], (l + ["?"])[0]
    ck.log(f"c19_sets: header flag variant = {hv}, model (Bitmap.flagFix) = {mv}")
    if hv != mv:
        ck.broken_ties.append({"kind": "correspondence", "name": "c19_sets/flag-variant",
                               "first_diff": {"impl": hv, "model": mv,
                                              "hint": "the header's op2/op3 change-flag semantics and Model/Bitmap.lean `flagFix` "
                                                      "disagree: set `flagFix := " + ("true" if hv == "fixed" else "false") +
                                                      "` and switch the theorem as described in Props/C19/Bitmap.lean"}})

    # ---- 1. corpus (pinned witnesses and minimised past failures) first
    cdir = os.path.join(VERIF, "corpus", "C19")
    ncorp = 0
    if os.path.isdir(cdir):
        for f in sorted(os.listdir(cdir)):
            if not (f.startswith("sets") and f.endswith(".txt")):
                continue
            lines = [x.strip() for x in open(os.path.join(cdir, f)) if x.strip() and not x.startswith("#")]
            for fl in ("chk", "ndebug"):
                c, l, rc, err = rn.run(lines, fl)
                st.feed(lines, c)
                report(lines, c, l, rc, err, fl, "corpus:" + f)
            ncorp += 1
    prev = ck.cov.get("corpus_replayed", 0)
    ck.cov["corpus_replayed"] = (prev if isinstance(prev, int) else 0) + ncorp

    # ---- 2. exhaustive small scopes
    exh = {}
    #   2a. every op2/op3, every aliasing pattern, every triple of representative states
    ntpl = 6 if quick else len(TEMPLATES)
    seqs = gen_bitmap_state_ops(ntpl)
    exh["bitmap_op_state_triples"] = {"templates": ntpl, "states": len(seqs), "ops_per_state": 243}
    batches = [(fl, ch) for fl in ("chk", "ndebug") for ch in chunks(iter(seqs), max(1, len(seqs) // 14 + 1))]
    pol_mismatch += process(batches, "bitmap-op-states")
    seqs = gen_bitmap_growth()
    exh["bitmap_growth_inside_call"] = len(seqs)
    batches = [(fl, ch) for fl in ("chk", "ndebug") for ch in chunks(iter(seqs), max(1, len(seqs) // 7 + 1))]
    pol_mismatch += process(batches, "bitmap-growth")
    #   2b. single-bitmap operations and predicates on every template, all boundary bits / lengths
    seqs = gen_bitmap_unary()
    exh["bitmap_unary_templates"] = len(seqs)
    pol_mismatch += process([(fl, seqs) for fl in ("chk", "ndebug")], "bitmap-unary")
    #   2c. all command sequences of length <= k over the small alphabet
    alpha = bitmap_alphabet()
    kmax = 2 if quick else 3
    tail = QTAIL if quick else ["bdump", "bit 0", "bcn 1", "bmx 0", "bmn 1", "beq 0 1"]
    nseq = 0
    for k in range(1, kmax + 1):
        total = len(alpha) ** k
        per = max(1, total // 28 + 1)
        def bgen(k=k, per=per):
            for i, ch in enumerate(chunks(gen_all_sequences(alpha, k, "R 2 0 1", tail), per)):
                yield ("chk" if i % 2 == 0 or k < kmax else "ndebug", ch)
                if k < kmax:
                    yield ("ndebug", ch)
        nseq += total
        pol_mismatch += process(bgen(), f"bitmap-all-seq-{k}")
    exh["bitmap_all_sequences"] = {"alphabet": len(alpha), "max_len": kmax, "sequences": nseq}
    #   2d. VARR: all sequences of length <= k
    va = varr_alphabet()
    kv = 3 if quick else 4
    nv = 0
    for k in range(1, kv + 1):
        for init in (1, 2):
            total = len(va) ** k
            per = max(1, total // 14 + 1)
            def vgen(k=k, per=per, init=init):
                for i, ch in enumerate(chunks(gen_all_sequences(va, k, f"R 1 {init} 1", ["vlen", "vdump"]), per)):
                    yield ("chk", ch)
                    if k < kv or i % 2 == 0:
                        yield ("ndebug", ch)
            nv += total
            pol_mismatch += process(vgen(), f"varr-all-seq-{k}")
    exh["varr_all_sequences"] = {"alphabet": len(va), "max_len": kv, "initial_sizes": [1, 2], "sequences": nv}
    #   2e. DLIST: every valid history of length <= depth on 4 nodes (+ rejected calls, queries)
    depth = 4 if quick else 6
    batches = []
    for fl in ("chk", "ndebug"):
        seq, nedges = gen_dlist_dfs(4, depth, fl == "chk")
        batches.append((fl, [seq]))
    seq5, n5 = gen_dlist_dfs(5, 3 if quick else 4, True)
    batches.append(("chk", [seq5]))
    exh["dlist_histories"] = {"nodes": 4, "max_len": depth, "edges": nedges, "nodes5_edges": n5}
    pol_mismatch += process(batches, "dlist-dfs")

    #   2f. VARR on the ledger allocator, element sizes 1/2/8/16/24: growth by push / push_arr / expand / tailor
    aa = ["vpush 7", "vpusharr 4 5 6", "vpusharr 1", "vexpand 5", "vexpand 9", "vtailor 2", "vtailor 7", "vpop",
          "vtrunc 1", "vget 0", "vset 0 9"]
    ka = 3 if quick else 4
    na = 0
    def agen():
        nonlocal na
        i = 0
        for esz in (1, 2, 8, 16, 24):
            for init in (1, 2, 3, 0):
                for k in range(1, ka + 1):
                    if init == 0 and k > 2:
                        continue
                    seqs = [[f"E {esz}"] + sq for sq in gen_all_sequences(aa, k, f"R 1 {init} 1", ["vdump"])]
                    na += len(seqs)
                    for ch in chunks(iter(seqs), 4000):
                        i += 1
                        yield ("alloc_chk" if i % 3 else "alloc_ndebug", ch)
    pol_mismatch += process(agen(), "varr-alloc-all-seq")
    exh["varr_alloc_all_sequences"] = {"alphabet": len(aa), "max_len": ka, "element_sizes": [1, 2, 8, 16, 24],
                                       "initial_sizes": [1, 2, 3, 0], "sequences": na}
    batches = []
    nar = (10, 3000) if quick else (30, 40000)
    for i in range(nar[0]):
        r = SplitMix(ck.rng.next())
        esz = (1, 2, 8, 16, 24)[i % 5]
        batches.append(("alloc_chk" if i % 2 == 0 else "alloc_ndebug",
                        [[f"E {esz}"] + gen_varr_random(r, nar[1], False, small=True)]))
    pol_mismatch += process(batches, "varr-alloc-random")

    # ---- 3. long random histories
    rng = ck.rng
    nb = (6, 6000) if quick else (28, 60000)
    batches = []
    for i in range(nb[0]):
        r = SplitMix(rng.next())
        batches.append(("chk" if i % 2 == 0 else "ndebug", [gen_bitmap_random(r, nb[1], 3 + i % 4)]))
    samples = [b[1][0][:12] for b in batches[:2]]
    pol_mismatch += process(batches, "bitmap-random")
    batches = []
    nvr = (6, 8000) if quick else (28, 80000)
    for i in range(nvr[0]):
        r = SplitMix(rng.next())
        fl = "chk" if i % 2 == 0 else "ndebug"
        batches.append((fl, [gen_varr_random(r, nvr[1], fl == "chk")]))
    samples.append(batches[0][1][0][:12])
    pol_mismatch += process(batches, "varr-random")
    batches = []
    nlr = (6, 8000) if quick else (28, 80000)
    for i in range(nlr[0]):
        r = SplitMix(rng.next())
        fl = "chk" if i % 2 == 0 else "ndebug"
        batches.append((fl, [gen_dlist_random(r, nlr[1], [4, 8, 16, 48][i % 4], fl == "chk")]))
    samples.append(batches[0][1][0][:12])
    pol_mismatch += process(batches, "dlist-random")

    # ---- evidence
    ck.cov["evaluations"] += st.evals
    ck.cov["distinct_nontrivial"] += len(st.nontrivial)
    rule = ("[sets] each evaluation = one header call executed on the real mir-bitmap.h/mir-varr.h/mir-dlist.h "
            "(ASan+UBSan, asserts-on and -DNDEBUG flavours) and on the Lean model, outputs (returned value + "
            "destination words / length / forward+backward traversal) compared line by line and against the "
            "harness' reference specification.  Generated: (a) every op2/op3 x every id combination (all aliasings) "
            "x every triple of representative states incl. zero-tailed long bitmaps; (b) unary ops/predicates on "
            "every template at bits/lengths around word boundaries; (c) ALL command sequences up to length "
            f"{kmax} over a {len(alpha)}-command bitmap alphabet, up to {kv} over a {len(va)}-command VARR alphabet, "
            f"all valid DLIST histories up to length {depth} on 4 nodes (Euler tour, plus every rejected call); "
            "(d) long random histories seeded by VERIF_SEED.  distinct_nontrivial = distinct (command, observed "
            "result) pairs among op2/op3/range/iterator/min/max/count/equal/intersect calls, VARR calls that "
            "reallocate / are rejected / truncate / tailor, DLIST insert/remove on lists of >= 2 nodes.")
    if isinstance(ck.cov.get("rule"), list):
        ck.cov["rule"].append(rule)
    else:
        ck.cov["rule"] = (ck.cov.get("rule") + " || " if ck.cov.get("rule") else "") + rule
    dist = ck.cov.setdefault("distribution", {})
    for part in ("bitmap", "varr", "dlist"):
        dist[part] = {"ops": st.kinds[part], **st.extra[part]}
    dist["varr"]["capacity_policy_lines_differing_from_model"] = pol_mismatch
    dist["sets_exhaustive_scopes"] = exh
    dist["sets_header_flag_variant"] = hv
    dist["sets_model_flag_variant"] = mv
    dist["sets_processes_run"] = rn.n
    ck.cov["exhaustive"] = bool(ck.cov.get("exhaustive", True))
    for s in samples:
        ck.sample({"part": "sets", "first_commands": s})
    ck.assumptions += [
        "[sets] size_t arithmetic does not wrap (bit numbers < 2^64-64; generators use bits < 2560)",
        "[sets] malloc/realloc do not fail (mir_varr_error path not modelled)",
        "[sets] bitmap_copy (x, x) (memcpy with identical pointers) is not exercised",
        "[sets] DLIST calls that break the usage rules without tripping an assert (inserting an already linked "
        "element) are outside the specification and never generated",
        "[sets] VARR_TAILOR (v, 0) is outside the domain (realloc (p, 0) yields NULL on glibc, after which every "
        "assert-enabled VARR call fails its `varr->varr` assertion); never generated",
        "[sets] VARR slots exposed by a growing VARR_TAILOR are indeterminate: the model leaves them unspecified "
        "and the tie does not compare them",
        "[sets] allocator tie: the custom allocator of harness/c19_seq_alloc.c stands for every allocator of the "
        "documented shape (realloc trusts old_size); element types are 1/2/8-byte integers and 16/24-byte structs",
        "[sets] VARR capacity growth policy is compared separately (reported, not a failure) because it is not "
        "part of the sequence semantics",
    ]
    ck.stage("c19_sets", ok=(state["viol"] == 0 and state["ties"] == 0), evaluations=st.evals,
             wall=round(time.time() - t0, 1), header_variant=hv, model_variant=mv)
    ck.log(f"c19_sets: {st.evals} calls compared, {len(st.nontrivial)} distinct non-trivial, "
           f"{rn.n} process pairs, {time.time() - t0:.1f}s, violations={state['viol']} "
           f"known_findings={state.get('known', 0)} broken_ties={state['ties']}")
