"""C14 — loaded data items form contiguous, correctly initialised sections.

proof gate : MirVerif.Props.C14 (+ .Load, .Link): placements, bounds, pass agreement, image, ref/expr
             slots after link; bridge `_MIR_type_size` table (extracted every run) = model table.
tie (T2)   : harness/c14_harness.c builds item sequences through the public API, loads + links them under
             interp / gen / lazy-gen, prints section, offset and bytes of every item; the same lines go to
             the Lean driver mirdrv_c14 (model) and outputs are diffed.  ASan+UBSan build (asserts on) and
             a plain -DNDEBUG build.  An independent python statement of the property (`spec_expected`) decides
             whether a difference is a violation of C14 or only a broken tie.
"""
import json, os, subprocess, sys, time
from concurrent.futures import ThreadPoolExecutor
from vf import Check, VERIF, REPO

ck = Check("C14")
PROPS = ["MirVerif.Props.C14", "MirVerif.Props.C14.Load", "MirVerif.Props.C14.Link", "MirVerif.Props.C14.Reload"]
SUPPORT = ["MirVerif.Model.Section", "MirVerif.Lemmas.Section", "MirVerif.Lemmas.SectionModule",
           "MirVerif.Lemmas.SectionLink", "MirVerif.Lemmas.SectionReload"]
TYPES = ["i8", "u8", "i16", "u16", "i32", "u32", "i64", "u64", "f", "d", "ld", "p"]
TSIZE = {"i8": 1, "u8": 1, "i16": 2, "u16": 2, "i32": 4, "u32": 4, "i64": 8, "u64": 8, "f": 4, "d": 8,
         "ld": 16, "p": 8}                 # the documented x86-64 sizes (python statement of the property)
DATAK = ("data", "bss", "ref", "expr", "lref")
ENGINES = ["interp", "gen", "lazy", "regen", "bb"]   # regen: generated and run, then prepared and run by the interpreter
rng = ck.rng

# ------------------------------------------------------------------------------------------ cases
# a case = {"id": str, "engine": str, "lines": [[tok, ...], ...]}; references (ref/expr/lref tok[2]) are
# indexes into "lines".


def case_text(c):
    fl = ",".join(c.get("flags", []))
    return "".join([f"case {c['id']} {c['engine']}{' ' + fl if fl else ''}\n"] + [" ".join(map(str, l)) + "\n" for l in c["lines"]]
                   + ["end\n"])


def rand_bytes(n):
    return "".join("%02x" % rng.below(256) for _ in range(n)) if n else "-"


def rand_value(ty):
    """bit pattern of an expression-function result that survives the engines unchanged"""
    if ty == "f":
        return (rng.below(2) << 31) | ((1 + rng.below(254)) << 23) | rng.below(1 << 23)
    if ty == "d":
        return (rng.below(2) << 63) | ((1 + rng.below(2046)) << 52) | rng.below(1 << 52)
    if ty == "ld":
        return (rng.below(2) << 79) | ((1 + rng.below(32766)) << 64) | (1 << 63) | rng.below(1 << 63)
    return rng.below(1 << 64) if rng.chance(1, 2) else rng.below(70000)


def rand_disp():
    r = rng.below(6)
    if r == 0:
        return 0
    if r == 1:
        return rng.below(64)
    if r == 2:
        return -rng.below(64)
    if r == 3:
        return rng.below(1 << 62)
    if r == 4:
        return -rng.below(1 << 62)
    return rng.choice([-(1 << 63), (1 << 63) - 1, 1, -1, 8])


class Builder:
    """keeps a case valid: unique names, references only to existing lines"""

    def __init__(self, cid, engine):
        self.c = {"id": cid, "engine": engine, "lines": []}
        self.n = 0
        self.pending_fwd = []      # forward names not yet defined
        self.lfuncs = []           # (line index, nlab)
        self.lfunc_planned = None

    def name(self, p="n"):
        self.n += 1
        return f"{p}{self.n}"

    def add(self, *toks):
        self.c["lines"].append(list(toks))
        return len(self.c["lines"]) - 1

    def lines_of(self, kinds):
        return [i for i, l in enumerate(self.c["lines"]) if l[0] in kinds]

    def item_name(self, named):
        """name for a new data item: anonymous, fresh, or one that was forward-declared"""
        if not named:
            return "-"
        if self.pending_fwd and rng.chance(1, 2):
            return self.pending_fwd.pop(0)
        return self.name()


def gen_random(cid, engine, length, want_lref):
    b = Builder(cid, engine)
    two_label = False
    if want_lref:
        # the label function may come before or after the lrefs that use it
        b.lfunc_planned = rng.below(length + 1)
    n_lab = 2 + rng.below(2)
    n_base = rng.below(n_lab + 1)      # labels only a difference-form lref mentions, in unreachable code
    lf_line = None
    lref_todo = []
    for step in range(length + 1):
        if want_lref and step == b.lfunc_planned:
            lf_line = b.add("lfunc", b.name("lf"), n_lab, n_base)
        if step == length:
            break
        r = rng.below(100)
        named = rng.chance(1, 4)
        if r < 30:
            ty = rng.choice(TYPES)
            nel = rng.choice([0, 1, 1, 1, 2, 3, 5])
            b.add("data", b.item_name(named), ty, nel, rand_bytes(nel * TSIZE[ty]))
        elif r < 42:
            b.add("bss", b.item_name(named), rng.choice([0, 1, 2, 3, 7, 8, 9, 16, 33]))
        elif r < 57:
            tg = b.lines_of(DATAK + ("func", "efunc", "lfunc", "import", "forward", "export"))
            decl = b.lines_of(("forward", "export", "import"))
            if decl and rng.chance(1, 3):
                tg = decl          # prefer a declaration (before or after its definition) as the base
            if not tg:
                tg = [b.add("import", b.name("ext"))]
            b.add("ref", b.item_name(named), rng.choice(tg), rand_disp())
        elif r < 67:
            ef = b.lines_of(("efunc",))
            if not ef or rng.chance(1, 3):
                ty = rng.choice(TYPES)
                ef = [b.add("efunc", b.name("ef"), ty, rand_value(ty))]
            b.add("expr", b.item_name(named), rng.choice(ef))
        elif r < 77 and want_lref:
            lab = rng.below(n_lab)
            lab2 = "-"
            disp = rand_disp() % (1 << 20)
            if rng.chance(2, 5):
                lab2 = f"b{rng.below(n_base)}" if n_base and rng.chance(1, 2) else rng.below(n_lab)
                two_label = True
                disp = rng.choice([1, 3, 8, -5, 1000, disp or 7, -(disp or 9)])     # never 0
            lref_todo.append(b.add("lref", b.item_name(named), "LF", lab, lab2, disp))
        elif r < 82:
            b.add("func", b.name("fn"))
        elif r < 85:
            b.add("proto", b.name("pr"))
        elif r < 89:
            b.add("import", b.name("ext"))
        elif r < 94:
            if rng.chance(1, 2):
                nm = b.name("fw")
                b.add("forward", nm)
            else:
                nm = b.name("xp")      # exported before it is defined
                b.add("export", nm)
            b.pending_fwd.append(nm)
            if rng.chance(1, 2):       # a ref through the declaration while the name is still undefined
                b.add("ref", "-" if rng.chance(2, 3) else b.name(), len(b.c["lines"]) - 1, rand_disp())
        elif r < 97:
            # export of an already defined data item or function
            cand = [l[1] for l in b.c["lines"] if l[0] in DATAK + ("func",) and l[1] != "-"]
            declared = {(l[0], l[1]) for l in b.c["lines"] if l[0] in ("export", "forward")}
            kind = rng.choice(["export", "forward"])      # a declaration *after* the definition
            cand = [x for x in cand if (kind, x) not in declared]
            if cand:
                b.add(kind, rng.choice(cand))
            else:
                b.add("bss", "-", 4)
        else:
            ty = rng.choice(TYPES)
            b.add("efunc", b.name("ef"), ty, rand_value(ty))
    # every forward-declared name must be defined
    for nm in b.pending_fwd:
        b.add("bss", nm, rng.below(5))
    b.pending_fwd = []
    for i in lref_todo:
        b.c["lines"][i][2] = lf_line
    if want_lref and (two_label or rng.chance(1, 2)):
        # single-label probes for every label: lets the harness validate label differences (and, being
        # section heads, makes MIR_load_module register the lrefs of the module)
        for j in range(n_lab):
            b.add("lref", b.name("pb"), lf_line, j, "-", 0)
    return b.c


# small alphabet for exhaustive enumeration: symbol -> function adding one line to a Builder
def _sym_ref(b, named):
    tg = b.lines_of(DATAK)
    if not tg:
        tg = b.lines_of(("import",))
    b.add("ref", b.name() if named else "-", tg[0] if rng.chance(1, 2) else tg[-1], 3)


ALPHABET = {
    "A": lambda b: b.add("data", b.name(), "i8", 1, "a1"),
    "a": lambda b: b.add("data", "-", "i8", 1, "b2"),
    "w": lambda b: b.add("data", "-", "i16", 1, "c3d4"),
    "W": lambda b: b.add("data", b.name(), "i16", 2, "e5f60718"),
    "q": lambda b: b.add("data", "-", "i64", 1, "0102030405060708"),
    "z": lambda b: b.add("bss", "-", 0),
    "b": lambda b: b.add("bss", "-", 3),
    "B": lambda b: b.add("bss", b.name(), 5),
    "r": lambda b: _sym_ref(b, False),
    "R": lambda b: _sym_ref(b, True),
    "e": lambda b: b.add("expr", "-", b.lines_of(("efunc",))[0]),
    "E": lambda b: b.add("expr", b.name(), b.lines_of(("efunc",))[1]),
    "l": lambda b: b.add("lref", "-", b.lines_of(("lfunc",))[0], 1, "-", 2),
    "L": lambda b: b.add("lref", b.name(), b.lines_of(("lfunc",))[0], 0, "-", 0),
    "d": lambda b: b.add("lref", "-", b.lines_of(("lfunc",))[0], 1, 0, 5),
    "D": lambda b: b.add("lref", "-", b.lines_of(("lfunc",))[0], 1, "b0", -7),
    "x": lambda b: b.add("ref", "-", b.lines_of(("export",))[0], 5),
    "y": lambda b: b.add("ref", "-", b.lines_of(("forward",))[0], -3),
    "F": lambda b: b.add("func", b.name("fn")),
    "P": lambda b: b.add("proto", b.name("pr")),
}


def gen_word(cid, engine, word):
    b = Builder(cid, engine)
    if any(s in word for s in "rR"):
        b.add("import", "ext0")
    if any(s in word for s in "eE"):
        b.add("efunc", "ef16", "i16", 0x1234)
        b.add("efunc", "ef32", "u32", 0xdeadbeef)
    if any(s in word for s in "lLdD"):
        b.add("lfunc", "lf", 2, 1 if "D" in word else 0)
    if "x" in word:
        b.add("export", "xd")
    if "y" in word:
        b.add("forward", "yd")
    # when helper items were needed the word starts after a non-data item; half of those cases get a
    # leading named data item so that the word continues an open section instead
    if b.c["lines"] and rng.chance(1, 2):
        b.add("data", "lead", "u8", 3, "112233")
    # the declared names are defined after the word, or (other half) in the middle of it
    mid = rng.below(len(word) + 1) if rng.chance(1, 2) else len(word)
    defs = ([["bss", "xd", 4]] if "x" in word else []) + ([["data", "yd", "u16", 1, "beef"]] if "y" in word else [])
    for k, s in enumerate(word):
        if k == mid:
            for d in defs:
                b.add(*d)
        ALPHABET[s](b)
    if mid >= len(word):
        for d in defs:
            b.add(*d)
    if any(s in word for s in "dD"):       # probes: the harness needs the addresses of the ordinary labels
        for j in range(2):
            b.add("lref", f"pb{j}", b.lines_of(("lfunc",))[0], j, "-", 0)
    return b.c


def add_module_b(b, order):
    """second module: imports of every exported section head of the first module (and of an external),
    refs and address expressions to them with displacements, in sections of their own"""
    ls = b.c["lines"]
    exported = [l[1] for l in ls if l[0] == "export" and find_def(ls, l[1]) is not None
                and ls[find_def(ls, l[1])][0] in DATAK]
    if not exported:
        return False
    b.add("module", order)
    imps = [b.add("import", nm) for nm in exported]
    if rng.chance(1, 3):
        imps.append(b.add("import", b.name("ext")))
    n = 1 + rng.below(6)
    for _ in range(n):
        r = rng.below(10)
        t = rng.choice(imps)
        if r < 6:
            b.add("ref", b.name() if rng.chance(1, 3) else "-", t, rand_disp())
        elif r < 8:
            af = b.add("afunc", b.name("af"), t, rand_disp() % (1 << 31))
            b.add("expr", b.name() if rng.chance(1, 2) else "-", af)
        elif r < 9:
            b.add("data", "-", "u8", 1 + rng.below(3), rand_bytes(3)[:2 * 3])
        else:
            b.add("func", b.name("fn"))
    return True


def gen_cross(cid, engine, head_kind, nfollow, order, export_first):
    """module A: a named section head of the given kind with `nfollow` anonymous followers, exported;
    module B: refs / address exprs to the import"""
    b = Builder(cid, engine)
    b.add("data", "lead", "u8", 3, "112233")
    if head_kind == "ref":
        b.add("import", "ext0")
    if head_kind == "expr":
        b.add("efunc", "ef0", "u32", 0xcafef00d)
    if export_first:
        b.add("export", "hd")
    if head_kind == "data":
        b.add("data", "hd", "i16", 3, "010203040506")
    elif head_kind == "bss":
        b.add("bss", "hd", 5)
    elif head_kind == "ref":
        b.add("ref", "hd", b.lines_of(("import",))[0], 4)
    else:
        b.add("expr", "hd", b.lines_of(("efunc",))[0])
    for j in range(nfollow):
        if j % 3 == 0:
            b.add("data", "-", "i32", 1, "a0b0c0d0")
        elif j % 3 == 1:
            b.add("bss", "-", 3)
        else:
            b.add("ref", "-", 0, 1)
    if not export_first:
        b.add("export", "hd")
    b.add("module", order)
    imp = b.add("import", "hd")
    b.add("ref", "r0", imp, 0)
    b.add("ref", "-", imp, 6)
    af = b.add("afunc", "af0", imp, 2)
    b.add("expr", "-", af)
    b.add("ref", "-", imp, -1)
    return b.c


def words(alphabet, maxlen):
    out = [""]
    res = []
    for _ in range(maxlen):
        out = [w + s for w in out for s in alphabet]
        res += out
    return res


def directed_cases():
    cs = []
    for k, ty in enumerate(TYPES):
        b = Builder(f"ty-{ty}", ENGINES[k % len(ENGINES)])
        ef = b.add("efunc", "ef", ty, rand_value(ty))
        b.add("data", "a", ty, 2, rand_bytes(2 * TSIZE[ty]))
        b.add("data", "-", "i8", 1, "5a")
        b.add("expr", "-", ef)
        b.add("data", "-", ty, 1, rand_bytes(TSIZE[ty]))
        b.add("bss", "-", 1)
        cs.append(b.c)
    for k, lines in enumerate([
            [["bss", "a", 0]],
            [["bss", "-", 0]],
            [["data", "-", "i64", 0, "-"], ["bss", "-", 0], ["data", "-", "u8", 0, "-"]],
            [["data", "a", "i64", 1, "1122334455667788"], ["bss", "-", 0]],
            [["data", "a", "i8", 1, "07"], ["data", "-", "i64", 2, "0102030405060708090a0b0c0d0e0f10"]],
            [["data", "-", "i16", 2, "01000200"], ["data", "-", "i8", 1, "03"]],
            [["bss", "-", 8]],
            [["bss", "b", 33], ["bss", "-", 7]],
            [["data", "a", "i8", 7, "01020304050607"], ["func", "f"], ["data", "-", "i8", 1, "08"]],
            [["data", "a", "i8", 7, "01020304050607"], ["data", "b", "i8", 1, "08"]],
            [["import", "x"], ["ref", "-", 0, -8], ["ref", "r", 1, 4], ["ref", "-", 2, 0]],
            [["forward", "later"], ["data", "a", "u8", 1, "ff"], ["ref", "-", 0, 2], ["bss", "later", 9],
             ["export", "later"]],
    ]):
        cs.append({"id": f"dir-{k}", "engine": ENGINES[k % len(ENGINES)], "lines": lines})
    # every relative order of {declaration, ref through it, definition} for export/forward declarations
    # of data, bss and function definitions (the ref needs the declaration's item, so it follows it),
    # with and without another ref placed after the definition, plus import; under each engine
    k = 0
    for decl in ("export", "forward"):
        for dfn in (["data", "x", "i32", 1, "01020304"], ["bss", "x", 6], ["func", "x"]):
            for order in ("DRX", "DXR", "XDR", "DRXR"):
                for eng in ENGINES:
                    lines, dpos = [["data", "lead", "u8", 1, "aa"]], None
                    for ch in order:
                        if ch == "D":
                            dpos = len(lines)
                            lines.append([decl, "x"])
                        elif ch == "X":
                            lines.append(list(dfn))
                        else:
                            lines.append(["ref", "-", dpos, 8 if len(lines) % 2 else -2])
                            lines.append(["data", "-", "i8", 1, "77"])
                    cs.append({"id": f"decl-{k}", "engine": eng, "lines": lines})
                    k += 1
    k = 0
    for hk in ("data", "bss", "ref", "expr"):
        for nf in (0, 1, 2, 3):
            for order in ("a-first", "b-first"):
                for xf in (False, True):
                    for fl in ([], ["reload"], ["preext"], ["postext"], ["reload", "preext"]):
                        eng = ENGINES[k % len(ENGINES)]
                        if "reload" in fl and eng == "regen":
                            eng = "gen"
                        c = gen_cross(f"cross-{k}", eng, hk, nf, order, xf)
                        c["flags"] = fl
                        cs.append(c)
                        k += 1
    # reload of plain modules: every item kind, written over and initialised again
    for j, eng in enumerate(["interp", "gen", "lazy", "bb"]):
        cs.append({"id": f"reload-{j}", "engine": eng, "flags": ["reload"] + (["preext"] if j % 2 else []),
                   "lines": [["import", "x"], ["efunc", "ef", "u16", 0xabcd], ["bss", "b", 5], ["data", "-", "i32", 1, "01020304"],
                             ["bss", "-", 3], ["ref", "-", 0, 4], ["expr", "-", 1], ["bss", "-", 0], ["func", "f"],
                             ["bss", "-", 9], ["data", "d", "u8", 2, "aabb"], ["bss", "-", 1]]})
    # reload of a module with label references (known finding C14:lref-reload-cycle while unfixed)
    for j, eng in enumerate(["interp", "gen", "lazy"]):
        cs.append({"id": f"reload-lref-{j}", "engine": eng, "flags": ["reload"],
                   "lines": [["lfunc", "lf", 2, 0], ["bss", "b", 4], ["lref", "-", 0, 1, "-", 2],
                             ["lref", "pb0", 0, 0, "-", 0], ["lref", "-", 0, 1, 0, 6], ["lref", "pb1", 0, 1, "-", 0]]})
    for eng in ENGINES:
        cs.append({"id": f"decl-imp-{eng}", "engine": eng,
                   "lines": [["import", "e1"], ["ref", "r", 0, 0], ["ref", "-", 0, 16], ["import", "e2"],
                             ["ref", "-", 3, -16], ["ref", "-", 1, 4]]})
    return cs


# ------------------------------------------------------------------------------------------ running
def parse_out(text):
    """-> {case id: [lines]} for complete cases, plus id of an incomplete trailing case"""
    res, cur, cid = {}, None, None
    for line in text.split("\n"):
        line = line.strip()
        if line.startswith("case "):
            cid, cur = line.split()[1], []
        elif line == "end":
            if cid is not None:
                res[cid] = cur
            cid, cur = None, None
        elif cur is not None and line:
            cur.append(line)
    return res, cid


SAN_ENV = dict(os.environ, ASAN_OPTIONS="detect_leaks=0:allocator_may_return_null=1",
               UBSAN_OPTIONS="print_stacktrace=1")


def crash_summary(stderr):
    """the informative lines of a sanitizer report"""
    keep = [l.strip() for l in stderr.split("\n")
            if any(k in l for k in ("ERROR:", "SUMMARY:", "runtime error:", "Assertion", "located", "timeout"))
            or l.strip().startswith(("#0", "#1", "#2", "#3"))]
    return " | ".join(keep[:14]) if keep else stderr[-600:]


def run_harness(exe, cases):
    """run a list of cases through one harness process; a crash loses only the crashing case"""
    out, crashes = {}, {}
    todo = list(cases)
    while todo:
        inp = "".join(case_text(c) for c in todo)
        try:
            p = subprocess.run([exe], input=inp.encode(), stdout=subprocess.PIPE, stderr=subprocess.PIPE,
                               env=SAN_ENV, timeout=600)
            stdout, stderr, rc = p.stdout.decode(errors="replace"), p.stderr.decode(errors="replace"), p.returncode
        except subprocess.TimeoutExpired as e:
            stdout, stderr, rc = (e.stdout or b"").decode(errors="replace"), "timeout after 600 s", -9
        res, partial = parse_out(stdout)
        out.update(res)
        done = [i for i, c in enumerate(todo) if c["id"] in res]
        nxt = (max(done) + 1) if done else 0
        if rc == 0 and partial is None and nxt >= len(todo):
            break
        if nxt >= len(todo):
            break
        crashes[todo[nxt]["id"]] = f"rc={rc} " + crash_summary(stderr)
        todo = todo[nxt + 1:]
        if len(crashes) >= 3:
            # enough witnesses from this chunk; the rest is not evaluated (restarting after every crash is
            # quadratic when a defect crashes most cases)
            for c in todo:
                out[c["id"]] = ["skipped"]
            break
    return out, crashes


def run_parallel(exe, cases, nproc=16):
    if not cases:
        return {}, {}
    chunks = [cases[i::nproc] for i in range(nproc)]
    out, crashes = {}, {}
    with ThreadPoolExecutor(max_workers=nproc) as ex:
        for o, c in ex.map(lambda ch: run_harness(exe, ch), [ch for ch in chunks if ch]):
            out.update(o)
            crashes.update(c)
    return out, crashes


def run_model(cases):
    rc, out, err = ck.drv("mirdrv_c14", [], "".join(case_text(c) for c in cases))
    res, _ = parse_out(out)
    return res


# ------------------------------------------------------------------------------------------ the property, in python
def find_def(lines, name):
    for i, l in enumerate(lines):
        if l[0] in DATAK + ("func", "efunc", "lfunc") and l[1] == name:
            return i
    return None


def spec_expected(c):
    """What C14 (properties.jsonl) demands for this case, written directly from the statement: item
    lines as the harness prints them, and for every section head the minimum block size."""
    lines = c["lines"]
    out, need = [], {}
    head, off = None, 0
    pos, mod = -1, 0
    for l in lines:
        k = l[0]
        if k == "module":          # a second module starts: positions and sections are per module
            out.append("module")
            pos, mod, head = -1, 1, None
            continue
        pos += 1
        if k not in DATAK:
            out.append(f"other {pos}")
            head = None
            continue
        named = l[1] != "-"
        if head is None or named:
            head, off = pos, 0
        if k == "data":
            size = int(l[3]) * TSIZE[l[2]]
            payload = "bytes=" + ("" if l[4] == "-" else l[4].lower())
        elif k == "bss":
            size = int(l[2])
            payload = "bytes=" + "00" * size
        elif k == "ref":
            size = 8
            d = int(l[3])
            payload = f"delta={((d + (1 << 63)) % (1 << 64)) - (1 << 63)}"
        elif k == "lref":
            size = 8
            payload = "lref=ok"
        elif lines[int(l[2])][0] == "afunc":      # expr of an address function: target address + disp
            size = 8
            d = int(lines[int(l[2])][3])
            payload = f"delta={((d + (1 << 63)) % (1 << 64)) - (1 << 63)}"
        else:
            ef = lines[int(l[2])]
            size = TSIZE[ef[2]]
            v = int(ef[3])
            shown = 10 if ef[2] == "ld" else size
            payload = "bytes=" + "".join("%02x" % ((v >> (8 * j)) & 255) for j in range(shown)) + "??" * (size - shown)
        out.append(f"item {pos} {k} sec={head} off={off} size={size} {payload}")
        off += size
        need[(mod, head)] = off
    return out, need


def spec_check(c, impl):
    """list of discrepancies between what the real code did and the statement of C14"""
    exp, need = spec_expected(c)
    bad = []
    items = [l for l in impl if not l.startswith("sec ")]
    secs = {}
    mod = 0
    for l in impl:
        if l == "module":
            mod = 1
        if l.startswith("sec "):
            t = l.split()
            secs[(mod, int(t[1]))] = int(t[2].split("=")[1])
    if impl and impl[0].startswith("error"):
        return [f"rejected: {impl[0]}"]
    for i, e in enumerate(exp):
        got = items[i] if i < len(items) else "<missing>"
        if got != e:
            bad.append(f"expected `{e}` got `{got}`")
    for h, n in need.items():
        if h not in secs:
            bad.append(f"no section head at item {h}")
        elif secs[h] < n:
            bad.append(f"section {h}: block of {secs[h]} bytes but items extend to {n}")
    for h in secs:
        if h not in need:
            bad.append(f"unexpected section head at item {h}")
    return bad


def lref_defect_pattern(c, model):
    """the known defect: a module whose lrefs are all non-head members of sections"""
    lrefs = [l for l in model if l.startswith("item") and " lref " in l]
    if not lrefs:
        return False
    for l in lrefs:
        t = l.split()
        if t[3] == f"sec={t[1]}":
            return False
    return True


KNOWN_TEXT = {
    "C14:lref-nonhead-unregistered": (
        "lref that is not a section head is never initialised",
        "harness prints lref=unregistered: the lref is not on its function's first_lref list, so no engine ever "
        "writes the slot"),
    "C14:lref-reload-cycle": (
        "loading a module with lref items a second time makes func->first_lref cyclic (every engine then loops forever)",
        "harness stops with `error lref-list-cyclic` after the second MIR_load_module: link_module_lrefs pushes every "
        "lref onto a list that still contains it"),
}


def assign_flags(c):
    """history variations: reload after the program wrote its data, names registered more than once"""
    ls = c["lines"]
    has_lref = any(l[0] == "lref" for l in ls)
    # a second load of an exported *function* is refused unless redefinition is permitted, and the lazy-bb
    # generator cannot take a function it has already generated (called) through MIR_link again: neither is
    # about data sections, so such modules are not reloaded here
    funcs = {l[1] for l in ls if l[0] in ("func", "efunc", "lfunc", "afunc")}
    exports_func = any(l[0] == "export" and l[1] in funcs for l in ls)
    bb_called = c["engine"] == "bb" and any(l[0] == "lfunc" for l in ls)
    r = rng.below(12)
    fl = []
    if r < 3 and not has_lref and c["engine"] != "regen" and not exports_func and not bb_called:
        fl = ["reload"] + (["preext"] if r == 2 else [])
    elif r == 3 or r == 4:
        fl = ["preext"]
    elif r == 5:
        fl = ["postext"]
    c["flags"] = fl
    return c


# ------------------------------------------------------------------------------------------ shrinking
def remove_line(c, j):
    ls = c["lines"]
    if ls[j][0] == "module":
        return None
    for l in ls:
        if l[0] in ("ref", "expr", "lref", "afunc") and int(l[2]) == j:
            return None
    new = []
    for i, l in enumerate(ls):
        if i == j:
            continue
        l = list(l)
        if l[0] in ("ref", "expr", "lref", "afunc") and int(l[2]) > j:
            l[2] = int(l[2]) - 1
        new.append(l)
    # keep forwards defined and exports defined
    for l in new:
        if l[0] in ("forward", "export") and find_def(new, l[1]) is None:
            return None
        # an import of a name the case defines (cross-module) needs the export to stay
        if l[0] == "import" and find_def(new, l[1]) is not None \
                and not any(x[0] == "export" and x[1] == l[1] for x in new):
            return None
    return {"id": c["id"], "engine": c["engine"], "lines": new, "flags": list(c.get("flags", []))}


def shrink(c, fails, budget=150):
    cur = c
    changed = True
    while changed and budget > 0:
        changed = False
        for j in range(len(cur["lines"]) - 1, -1, -1):
            cand = remove_line(cur, j)
            if cand is None or not cand["lines"]:
                continue
            budget -= 1
            if fails(cand):
                cur, changed = cand, True
                break
            if budget <= 0:
                break
    return cur


# ------------------------------------------------------------------------------------------ main
def main():
    ok = ck.proof_gate(PROPS, support_modules=SUPPORT, exes=["mirdrv_c14"], translators=["c14_typesize.py"])
    if not ok:
        ck.lake(["mirdrv_c14"])      # the model driver does not depend on the generated table
    san = ["-O1", "-g", "-fsanitize=address,undefined", "-fno-sanitize=alignment,pointer-overflow", "-fno-sanitize-recover=all"]
    srcs = ["harness/c14_harness.c", os.path.join(REPO, "mir.c"), os.path.join(REPO, "mir-gen.c")]
    exes = ck.cc_par([("c14_harness_asan", srcs, san), ("c14_harness_plain", srcs, ["-O1", "-DNDEBUG"])])
    flavours = []
    for nm in ("c14_harness_asan", "c14_harness_plain"):
        if exes.get(nm) is None:
            ck.broken_ties.append({"kind": "harness-compile", "name": nm, "log": getattr(ck, "last_cc_log", "")[-1500:]})
        else:
            flavours.append((nm, exes[nm]))
    ck.stage("build", flavours=[f[0] for f in flavours])

    def evaluate(cases, flavour_exes, record=True):
        """-> list of (case, flavour, kind, detail) problems; kind in crash|violation|known|tie"""
        problems = []
        skipped = [0]
        model = run_model(cases)
        for nm, exe in flavour_exes:
            impl, crashes = run_parallel(exe, cases)
            for c in cases:
                cid = c["id"]
                m = model.get(cid)
                if cid in crashes:
                    problems.append((c, nm, "crash", crashes[cid]))
                    continue
                got = impl.get(cid)
                if got == ["skipped"]:
                    skipped[0] += 1
                    continue
                if got is None or m is None:
                    problems.append((c, nm, "tie", f"no output (model={m is not None}, impl={got is not None})"))
                    continue
                if got == m:
                    continue
                if got and got[0].startswith("error lref-list-cyclic") and "reload" in c.get("flags", []) \
                        and any(l[0] == "lref" for l in c["lines"]):
                    problems.append((c, nm, "known", "C14:lref-reload-cycle"))
                    continue
                bad = spec_check(c, got)
                known_bad, other_bad = [], []
                pattern = lref_defect_pattern(c, m)
                for b in bad:
                    (known_bad if pattern and b.endswith("lref=unregistered`") and "lref=ok` got" in b
                     else other_bad).append(b)
                if known_bad:
                    problems.append((c, nm, "known", "C14:lref-nonhead-unregistered"))
                if other_bad:
                    problems.append((c, nm, "violation", other_bad))
                else:
                    diff = [f"model `{a}` impl `{b}`" for a, b in zip(m, got)
                            if a != b and not (known_bad and b.endswith("lref=unregistered"))][:5]
                    if len(m) != len(got):
                        diff.append(f"model {len(m)} lines, impl {len(got)} lines")
                    if diff:
                        problems.append((c, nm, "tie", diff))
        if skipped[0]:
            ck.log(f"{skipped[0]} evaluations skipped after repeated harness crashes")
            ck.cov["skipped_after_crashes"] = ck.cov.get("skipped_after_crashes", 0) + skipped[0]
        return problems, model

    # ---- replay of one saved case
    if ck.replay:
        path = ck.replay
        txt = open(path).read()
        d = json.loads(txt)
        c = d["input"] if "input" in d else d        # a replays/*.json file or a corpus/C14/*.json case
        c.setdefault("id", "replay")
        probs, model = evaluate([c], flavours)
        for (cc, nm, kind, detail) in probs:
            print(f"REPLAY {kind} flavour={nm}: {detail}")
            if kind in ("violation", "crash"):
                ck.violation({"input": cc, "flavour": nm, "detail": detail, "model": model.get(cc["id"]),
                              "how_to_rerun": f"./check C14 --replay {path}"},
                             what=f"replay still fails ({kind})", signature=None)
            elif kind == "known":
                ck.violation({"input": cc}, what="known", signature=detail)
        if not probs:
            print("REPLAY passes")
        ck.cov["evaluations"] = 1
        ck.finish()

    # ---- corpus + directed + exhaustive + random
    cases = []
    cdir = os.path.join(VERIF, "corpus", "C14")
    corpus = []
    if os.path.isdir(cdir):
        for f in sorted(os.listdir(cdir)):
            if f.endswith(".json"):
                c = json.load(open(os.path.join(cdir, f)))
                c["id"] = "corpus-" + f[:-5]
                corpus.append(c)
    cases += corpus
    cases += directed_cases()
    thorough = ck.tier == "thorough"
    wl = sorted(set(words("AawWqzbBrRxyeElLdDFP", 4 if thorough else 3)))
    for k, w in enumerate(wl):
        cases.append(assign_flags(gen_word(f"w-{w}", ENGINES[(k + ck.seed) % len(ENGINES)], w)))
    n_random = 60000 if thorough else 4000
    for k in range(n_random):
        length = 1 + rng.below(12) if rng.chance(2, 3) else 10 + rng.below(40)
        c = gen_random(f"r-{k}", ENGINES[rng.below(len(ENGINES))], length, want_lref=rng.chance(1, 3))
        if rng.chance(1, 4):
            bb = Builder(c["id"], c["engine"])
            bb.c, bb.n = c, 100000
            ls = c["lines"]
            # export the named data items that are not exported yet (at the end of module A)
            done = {l[1] for l in ls if l[0] == "export"}
            for nm in [l[1] for l in ls if l[0] in DATAK and l[1] != "-" and l[1] not in done]:
                if rng.chance(2, 3):
                    bb.add("export", nm)
            add_module_b(bb, rng.choice(["a-first", "b-first"]))
        cases.append(assign_flags(c))
    ck.log(f"{len(cases)} cases ({len(corpus)} corpus, {len(wl)} exhaustive words, {n_random} random)")

    t = time.time()
    problems, model = evaluate(cases, flavours)
    ck.log(f"evaluated in {time.time() - t:.1f}s, {len(problems)} problem reports")
    ck.stage("tie", cases=len(cases), flavours=len(flavours), problems=len(problems))

    # ---- verdicts
    reported = set()
    for (c, nm, kind, detail) in problems:
        if kind == "known":
            if ("known", detail) not in {(r[0], r[1]) for r in reported}:
                reported.add(("known", detail, c["id"]))
                small = min((p[0] for p in problems if p[2] == "known" and p[3] == detail),
                            key=lambda cc: len(cc["lines"]))
                what, det = KNOWN_TEXT[detail]
                ck.violation({"stage": "tie", "input": small, "input_text": case_text(small), "flavour": nm,
                              "detail": det, "how_to_rerun": "./check C14 --replay <this file>"},
                             what=what, signature=detail)
            continue
        key = (kind, nm)
        if len([r for r in reported if r[0] == kind]) >= 3:
            continue              # a few minimised witnesses per kind are enough
        reported.add((kind, nm, c["id"]))
        exe = dict(flavours)[nm]

        def still_fails(cand, kind=kind, nm=nm, exe=exe):
            ps, _ = evaluate([cand], [(nm, exe)])
            # removing a probe lref makes a difference-form lref unverifiable: that is not the same failure
            return any(p[2] == kind and ("lref=unverified" not in str(p[3]) or "lref=unverified" in str(detail))
                       for p in ps)

        small = shrink(c, still_fails)
        ps, mm = evaluate([small], [(nm, exe)])
        det = next((p[3] for p in ps if p[2] == kind), detail)
        impl_out, _ = run_harness(exe, [small])
        rp = {"stage": "tie", "correspondence": "c14_harness vs mirdrv_c14", "flavour": nm, "input": small,
              "input_text": case_text(small), "model_output": mm.get(small["id"]),
              "impl_output": impl_out.get(small["id"]), "detail": det,
              "how_to_rerun": "./check C14 --replay <this file>"}
        if kind == "violation":
            ck.violation(rp, what="C14 fails on the real code: " + "; ".join(det[:3]),
                         signature="C14:layout-or-contents")
        elif kind == "crash":
            ck.violation(rp, what="harness crashed (sanitizer report or signal) while loading/linking: " + str(det)[:400],
                         signature="C14:crash")
        else:
            ck.broken_ties.append({"kind": "correspondence", "name": "c14_harness vs mirdrv_c14",
                                   "flavour": nm, "first_diff": det, "input": case_text(small)})

    # ---- coverage (measured)
    kinds, types, engines, sizes = {}, {}, {}, {}
    distinct = set()
    nontrivial = 0
    feat = {"zero_size_item": 0, "named_after_data": 0, "anon_after_other": 0, "ref_to_later(forward)": 0, "ref_via_forward_after_def": 0, "ref_via_export_before_def": 0,
            "ref_via_export_after_def": 0,
            "ref_to_import": 0, "ref_to_func": 0, "ref_negative_disp": 0, "expr": 0, "lref_one_label": 0,
            "lref_two_labels": 0, "lref_base_label_unreachable": 0, "lref_two_labels_nonzero_disp": 0,
            "multi_item_section": 0, "two_module_cases": 0, "module_b_loaded_first": 0,
            "ref_to_export_of_other_module": 0, "ref_to_export_of_other_module_multi_item_section": 0, "section_size_padded": 0, "lref_defect_pattern": 0}
    for c in cases:
        ls = c["lines"]
        engines[c["engine"]] = engines.get(c["engine"], 0) + 1
        for f in c.get("flags", []):
            feat["history:" + f] = feat.get("history:" + f, 0) + 1
        if "reload" in c.get("flags", []):
            feat["reload_cases_with_bss"] = feat.get("reload_cases_with_bss", 0) + any(l[0] == "bss" and int(l[2]) > 0 for l in ls)
        if c.get("flags") and any(f in c["flags"] for f in ("preext", "postext")) and any(l[0] == "import" for l in ls):
            feat["name_registered_twice_cases"] = feat.get("name_registered_twice_cases", 0) + 1
        m = model.get(c["id"]) or []
        secsz = {}
        for l in m:
            if l.startswith("item"):
                t = l.split()
                secsz[t[3]] = secsz.get(t[3], 0) + 1
        multi = any(v > 1 for v in secsz.values())
        if multi:
            feat["multi_item_section"] += 1
            nontrivial += 1
            distinct.add(json.dumps(ls))
        if lref_defect_pattern(c, m):
            feat["lref_defect_pattern"] += 1
        prev = None
        for i, l in enumerate(ls):
            kinds[l[0]] = kinds.get(l[0], 0) + 1
            if l[0] == "data":
                types[l[2]] = types.get(l[2], 0) + 1
                if int(l[3]) == 0:
                    feat["zero_size_item"] += 1
            if l[0] == "bss" and int(l[2]) == 0:
                feat["zero_size_item"] += 1
            if l[0] in DATAK:
                if prev in DATAK and l[1] != "-":
                    feat["named_after_data"] += 1
                if prev is not None and prev not in DATAK and l[1] == "-":
                    feat["anon_after_other"] += 1
            if l[0] == "ref":
                tk = ls[int(l[2])][0]
                if tk in ("forward", "export"):
                    d = find_def(ls, ls[int(l[2])][1])
                    before = d is not None and d > i
                    if tk == "forward":
                        feat["ref_to_later(forward)" if before else "ref_via_forward_after_def"] += 1
                    else:
                        feat["ref_via_export_before_def" if before else "ref_via_export_after_def"] += 1
                elif tk == "import":
                    d = find_def(ls, ls[int(l[2])][1])
                    if d is None:
                        feat["ref_to_import"] += 1
                    else:
                        feat["ref_to_export_of_other_module"] += 1
                        # does the exported section have followers (head != last item)?
                        if d + 1 < len(ls) and ls[d + 1][0] in DATAK and ls[d + 1][1] == "-":
                            feat["ref_to_export_of_other_module_multi_item_section"] += 1
                elif tk in ("func", "efunc", "lfunc"):
                    feat["ref_to_func"] += 1
                if int(l[3]) < 0:
                    feat["ref_negative_disp"] += 1
            if l[0] == "expr":
                feat["expr"] += 1
                et = "addr-of-import" if ls[int(l[2])][0] == "afunc" else ls[int(l[2])][2]
                types["expr:" + et] = types.get("expr:" + et, 0) + 1
            if l[0] == "module":
                feat["two_module_cases"] += 1
                if l[1] == "b-first":
                    feat["module_b_loaded_first"] += 1
            if l[0] == "lref":
                feat["lref_two_labels" if l[4] != "-" else "lref_one_label"] += 1
                if str(l[4]).startswith("b"):
                    feat["lref_base_label_unreachable"] += 1
                if l[4] != "-" and int(l[5]) != 0:
                    feat["lref_two_labels_nonzero_disp"] += 1
            prev = l[0]
        sizes[min(len(ls) // 5 * 5, 50)] = sizes.get(min(len(ls) // 5 * 5, 50), 0) + 1
    ck.cov["evaluations"] = len(cases) * len(flavours)
    ck.cov["distinct_nontrivial"] = len(distinct)
    ck.cov["rule"] = ("cases = corpus + directed (every element type, zero sizes) + every word of length <=3 (quick) / "
                      "<=4 (thorough) over a 20-symbol item alphabet (named/anonymous data of 3 sizes, bss incl. "
                      "length 0, ref to item/import, ref through export/forward declared before the definition, expr, "
                      "lref (address form, difference form, difference form whose base label is in unreachable code), func, proto) + directed two-module grid (exported data/bss/ref/expr section head with 0-3 "
                      "anonymous followers, export before/after the definition, importing module loaded before/after, refs "
                      "and address expr functions to the import) + random item "
                      "sequences of length 1..50 (a quarter of them with a second importing module); about a third of all cases get a "
                      "history flag: reload (all items overwritten, modules loaded+linked again), preext/postext (import names "
                      "registered before/after the exporting module, so a name is published twice); each run under asan(+asserts) and plain -DNDEBUG harness, engine "
                      "interp/gen/lazy by rotation. non-trivial = the module has a section with >= 2 items; "
                      "distinct = different line lists")
    ck.cov["distribution"] = {"line_kinds": kinds, "element_types": types, "engines": engines,
                              "lines_per_case_bucket": sizes, "features": feat,
                              "harness_flavours": [f[0] for f in flavours]}
    ck.cov["exhaustive"] = True
    ck.cov["exhaustive_scope"] = f"all {len(wl)} words (see rule); random part is sampled"
    ck.cov["corpus_replayed"] = len(corpus)
    for c in cases[len(corpus) + 12:len(corpus) + 14] + cases[-3:]:
        ck.sample(case_text(c))
    ck.cov["trusted_base"] += ["translate/c14_typesize.py (textual extraction of _MIR_type_size)",
                               "harness/c14_harness.c", "checks/c14.py spec_expected (python statement of C14)",
                               "gcc, AddressSanitizer"]
    ck.assumptions += [
        "x86-64 SysV sizes (long double = 16, pointer = 8); the table is re-extracted from mir.c on every run",
        "model covers a freshly created module loaded once (all item->addr NULL before MIR_load_module)",
        "lref slot values are not modelled; the harness checks them the same way under every engine: address form = "
        "jmpi through (cell - disp) reaches the label; difference form = cell - disp equals the byte difference of the two "
        "label addresses the engine hands out and jmpi through address(label2) + difference reaches the label",
        "UBSan alignment and pointer-overflow checks disabled: engines store lref values through possibly unaligned "
        "void** and MIR_link computes `(char *) addr + disp` for arbitrary 64-bit disp (both harmless on x86-64)",
        "long double expr results: only the 10 value bytes are compared (the other 6 copied bytes are indeterminate)",
    ]
    ck.finish()


main()
