"""C07 — C programs compiled by c2mir behave as under the reference C compiler (gcc 12, x86-64).

Proof gate : MirVerif.Props.C07 — promotions / usual arithmetic conversions / type representation /
             opcode + compare-branch selection (tables regenerated from the CURRENT c2mir.c by
             translate/c07_cfun.py, kernel-checked against C11), compile-time folding = documented
             run-time result, cast_value = C conversion (except _Bool: known finding), bit-field
             round trip, small block move.
Tie (T3)   : typed random C programs (checks/c07_gen.py, UB-free by construction) and the repository's
             own c-tests/ run as   c2m -ei | -eg -O0..-O3 | -el | -eb   and as gcc -O0 / -O2 executables;
             stdout + exit status compared.  Further opinions on expression values: the generator's own
             C evaluator and the Lean evaluator `mirdrv_c07 cexpr`; bit-field storage images are
             predicted with the Lean model of the emitted shift/mask sequence (`mirdrv_c07 bfseq`).
             gcc -O0 != gcc -O2, gcc != generator's evaluator  -> generator miss (no alarm on the code)
             Lean != generator's evaluator                      -> broken tie (model error)
             some c2m configuration != gcc                      -> shrink to one unit and a few statements,
                                                                   VIOLATION (or KNOWN-FINDING by signature)
"""
import json, os, re, resource, shutil, subprocess, sys, time, hashlib
from concurrent.futures import ThreadPoolExecutor
from vf import Check, VERIF, REPO, SplitMix
import c07_gen as G

ck = Check("C07")
QUICK = ck.tier == "quick"
T0 = time.time()
BUDGET = 150 if QUICK else 1000          # seconds for the tie stages (after builds)

SUPPORT = ["MirVerif.Model.CArith", "MirVerif.Model.CArithBf", "MirVerif.Model.CArithExpr",
           "MirVerif.Lemmas.CArith", "MirVerif.Lemmas.CArithFold", "MirVerif.Lemmas.CArithBf", "MirVerif.Lemmas.CArithSpec"]
proof_ok = ck.proof_gate(["MirVerif.Props.C07"], support_modules=SUPPORT,
                         bridge_modules=["MirVerif.Lemmas.BridgeC07"], exes=["mirdrv_c07"],
                         translators=["c07_cfun.py"])

C2M_SRCS = [os.path.join(REPO, f) for f in ("mir.c", "mir-gen.c", "c2mir/c2mir.c", "c2mir/c2mir-driver.c")]
C2M = ck.cc("c07_c2m", C2M_SRCS, ["-O1", "-DNDEBUG", "-w"])
if C2M is None:
    ck.broken_ties.append({"kind": "harness-compile", "name": "c07_c2m", "log": getattr(ck, "last_cc_log", "")[-1500:]})
    ck.finish()
ck.stage("build", c2m=os.path.basename(C2M))

WORK = "/tmp/c07-%d" % os.getpid()
shutil.rmtree(WORK, ignore_errors=True)
os.makedirs(WORK)
import atexit
atexit.register(lambda: shutil.rmtree(WORK, ignore_errors=True))

CFGS = [("ei", [], "-ei"), ("eg-O0", ["-O0"], "-eg"), ("eg-O1", ["-O1"], "-eg"), ("eg-O2", ["-O2"], "-eg"),
        ("eg-O3", ["-O3"], "-eg"), ("el", [], "-el"), ("eb", [], "-eb")]
CFGNAMES = [c[0] for c in CFGS]
OUT_CAP = 4 << 20


def _limits():
    resource.setrlimit(resource.RLIMIT_FSIZE, (OUT_CAP, OUT_CAP))
    resource.setrlimit(resource.RLIMIT_CPU, (30, 30))
    resource.setrlimit(resource.RLIMIT_CORE, (0, 0))


def run(cmd, cwd, tag, timeout=20):
    """run a child with output to files, CPU/file-size limits and a wall timeout -> (rc, stdout, stderr-tail)"""
    o, e = os.path.join(cwd, tag + ".out"), os.path.join(cwd, tag + ".err")
    with open(o, "wb") as fo, open(e, "wb") as fe:
        try:
            p = subprocess.Popen(cmd, cwd=cwd, stdin=subprocess.DEVNULL, stdout=fo, stderr=fe, preexec_fn=_limits)
            try:
                rc = p.wait(timeout=timeout)
            except subprocess.TimeoutExpired:
                p.kill(); p.wait()
                rc = "timeout"
        except OSError as ex:
            return "oserror", "", str(ex)
    with open(o, "rb") as f:
        out = f.read(OUT_CAP).decode("latin-1")
    with open(e, "rb") as f:
        err = f.read(4000).decode("latin-1")
    return rc, out, err


def evaluate(src, name, cfgs=None, extra_srcs=(), gcc_flags=("-w",), need_gcc2=True, timeout=20):
    """compile + run one program everywhere -> {"gcc0":(rc,out,err), "gcc2":..., cfg:...}"""
    d = os.path.join(WORK, name)
    os.makedirs(d, exist_ok=True)
    cf = os.path.join(d, "p.c")
    with open(cf, "w") as f:
        f.write(src)
    res = {}
    srcs = [cf] + list(extra_srcs)
    for lvl in (("0", "2") if need_gcc2 else ("0",)):
        rc, out, err = run(["gcc", *gcc_flags, "-O" + lvl, *srcs, "-o", "g" + lvl, "-lm"], d, "cc" + lvl, timeout=60)
        if rc != 0:
            res["gcc" + lvl] = ("compile-error", "", err)
        else:
            res["gcc" + lvl] = run([os.path.join(d, "g" + lvl)], d, "g" + lvl + "run", timeout=timeout)
    for nm, opts, eng in CFGS:
        if cfgs is not None and nm not in cfgs:
            continue
        res[nm] = run([C2M, *opts, *srcs, eng], d, nm, timeout=timeout)
    shutil.rmtree(d, ignore_errors=True)
    return res


def differing(res):
    ref = res["gcc0"][:2]
    return [c for c in CFGNAMES if c in res and res[c][:2] != ref]


def cfg_class(diff, have):
    s = set(diff)
    if s == set(have): return "all"
    if "ei" not in s and s >= {c for c in have if c != "ei"}: return "gen"
    if s and s <= {"eg-O2", "eg-O3", "el", "eb"}: return "gen-opt"
    if s == {"ei"}: return "interp"
    return "some"


def first_diff(a, b):
    la, lb = a.split("\n"), b.split("\n")
    for i in range(max(len(la), len(lb))):
        x = la[i] if i < len(la) else "<eof>"
        y = lb[i] if i < len(lb) else "<eof>"
        if x != y:
            return {"line": i + 1, "gcc": x[:200], "c2m": y[:200]}
    return None


# ---------------------------------------------------------------------------------------------- shrinking
def still_fails(src, name, cfg):
    r = evaluate(src, name, cfgs=[cfg])
    if r["gcc0"][0] in ("compile-error", "timeout") or r["gcc0"][:2] != r["gcc2"][:2]:
        return False
    return r[cfg][:2] != r["gcc0"][:2]


def removable(l):
    t = l.strip()
    if not l.startswith("  ") or t.startswith(("}", "{")) or t.endswith("{") or "memset" in t:
        return (l.startswith("static ") and t.endswith(";")) or l.startswith("enum {")
    if re.match(r"(struct|union|int|long|short|char|unsigned|signed|_Bool|volatile) ", t) and "=" not in t.split(";")[0]:
        return False        # plain declarations stay
    return True


SHRINK_POOL = ThreadPoolExecutor(max_workers=12)


def shrink(units, cfg, tagname, wall=40):
    """units -> (minimal unit list, reduced source text): first to one unit, then ddmin over the removable
    statement lines of that unit (candidates of one granularity are evaluated concurrently)"""
    t_end = time.time() + wall
    n_eval = [0]

    def fails_src(src):
        n_eval[0] += 1
        return still_fails(src, "%s-s%d" % (tagname, n_eval[0]), cfg)

    best = units
    if len(units) > 1:
        res = list(SHRINK_POOL.map(lambda u: fails_src(G.assemble([u])), units))
        for u, f in zip(units, res):
            if f:
                best = [u]
                break
    if len(best) == 1:
        u = dict(best[0])
        lines = u["text"].split("\n")
        chunk = max(1, len([l for l in lines if removable(l)]) // 2)
        while time.time() < t_end:
            idx = [i for i, l in enumerate(lines) if removable(l)]
            if not idx:
                break
            groups = [idx[i:i + chunk] for i in range(0, len(idx), chunk)]

            def attempt(g):
                gs = set(g)
                cand = [l for i, l in enumerate(lines) if i not in gs]
                u2 = dict(u); u2["text"] = "\n".join(cand)
                return cand if fails_src(G.assemble([u2])) else None

            progressed = False
            for k in range(0, len(groups), 12):
                if time.time() >= t_end:
                    break
                rs = list(SHRINK_POOL.map(attempt, groups[k:k + 12]))
                ok = [(g, c) for g, c in zip(groups[k:k + 12], rs) if c is not None]
                if ok:
                    lines = ok[0][1]          # take one success, recompute groups
                    progressed = True
                    break
            if not progressed:
                if chunk == 1:
                    break
                chunk = max(1, chunk // 2)
        u["text"] = "\n".join(lines)
        best = [u]
    return best, G.assemble(best)


# ---------------------------------------------------------------------------------------------- classification by candidate repair
FIXDIR = os.path.join(VERIF, "fixes")
VARDIR = os.path.join(VERIF, ".cache", "c07var")
_variants = {}


def variant(slug):
    """c2m built from the current tree + fixes/C07-<slug>.patch (cached by content); None if the patch does not apply"""
    if slug in _variants:
        return _variants[slug]
    from vf import file_hash, repo_sources
    pf = os.path.join(FIXDIR, "C07-%s.patch" % slug)
    key = file_hash(repo_sources() + [pf], "c07var")
    d = os.path.join(VARDIR, "%s-%s" % (slug, key))
    exe = os.path.join(d, "c2m")
    if not os.path.exists(exe):
        for old in (os.listdir(VARDIR) if os.path.isdir(VARDIR) else []):
            if old.startswith(slug + "-"):
                shutil.rmtree(os.path.join(VARDIR, old), ignore_errors=True)
        os.makedirs(os.path.join(d, "c2mir"), exist_ok=True)
        for f in os.listdir(REPO):
            if f.endswith((".c", ".h")):
                shutil.copy(os.path.join(REPO, f), d)
        shutil.copytree(os.path.join(REPO, "c2mir"), os.path.join(d, "c2mir"), dirs_exist_ok=True)
        rc = subprocess.run(["patch", "-p1", "-s", "-f", "-i", pf], cwd=d, stdout=subprocess.PIPE, stderr=subprocess.STDOUT)
        if rc.returncode != 0:
            _variants[slug] = None
            return None
        rc = subprocess.run(["gcc", "-O1", "-DNDEBUG", "-w", "-I" + d, "mir.c", "mir-gen.c", "c2mir/c2mir.c",
                             "c2mir/c2mir-driver.c", "-lm", "-ldl", "-lpthread", "-o", "c2m"], cwd=d,
                            stdout=subprocess.PIPE, stderr=subprocess.STDOUT)
        if rc.returncode != 0:
            _variants[slug] = None
            return None
    _variants[slug] = exe
    return exe


def patch_slugs():
    return sorted(f[4:-6] for f in os.listdir(FIXDIR) if f.startswith("C07-") and f.endswith(".patch"))


def classify_by_patch(src, name, cfgs, ref):
    """the candidate repair that makes the program agree with gcc on the configurations that differed"""
    slugs = patch_slugs()
    list(SHRINK_POOL.map(variant, slugs))          # build concurrently
    for slug in slugs:
        exe = variant(slug)
        if exe is None:
            continue
        d = os.path.join(WORK, name + "-v-" + slug)
        os.makedirs(d, exist_ok=True)
        cf = os.path.join(d, "p.c")
        open(cf, "w").write(src)
        good = True
        for nm, opts, eng in CFGS:
            if nm in cfgs:
                r = run([exe, *opts, cf, eng], d, nm)
                if r[:2] != ref:
                    good = False
                    break
        shutil.rmtree(d, ignore_errors=True)
        if good:
            return slug
    return None


# ---------------------------------------------------------------------------------------------- reporting
stats = {"programs": 0, "configs_run": 0, "units": {}, "generator_miss": [], "timeouts": 0, "c2m_compile_errors": 0,
         "tags_checked_vs_python": 0, "lean_queries": 0, "bf_images": 0, "pairs_covered": set(), "scopy_sizes": set(),
         "bitf_widths": set(), "saddr_sizes": set(), "diff_programs": 0}
reported = set()
corpus_diffs = [0]


def symptom(res, diff):
    r = res[diff[0]]
    if r[0] == "timeout": return "timeout"
    if isinstance(r[0], int) and r[0] < 0: return "crash"
    if r[0] == 1 and not r[1] and re.search(r":\d+:\d+:", r[2]): return "reject"
    return "output"


MAX_MINIMISED = 4 if QUICK else 10      # shrink + classify at most this many generated programs per run
unminimised = []


def report(units, res, name, origin, src=None, fallback_sig=None, rerun=None):
    diff = differing(res)
    if units is not None and stats["diff_programs"] - corpus_diffs[0] >= MAX_MINIMISED and reported:
        unminimised.append({"origin": origin, "configs_differing": diff, "kinds": [u["kind"] for u in units],
                            "first_diff": first_diff(res["gcc0"][1], res[diff[0]][1])})
        stats["diff_programs"] += 1
        return None
    if rerun is not None and any(res[c][0] == "timeout" for c in diff):
        res = rerun(120)          # a loaded machine must not turn a slow run into an alarm
        diff = differing(res)
        if not diff or res["gcc0"][:2] != res["gcc2"][:2]:
            return None
    have = [c for c in CFGNAMES if c in res]
    stats["diff_programs"] += 1
    kind = origin.split("/")[0] if units is None else "+".join(sorted({u["kind"] for u in units}))
    msrc = src
    if units is not None:
        minu, msrc = shrink(units, diff[0], name, wall=35 if QUICK else 90)
        kind = "+".join(sorted({u["kind"] for u in minu}))
        r2 = evaluate(msrc, name + "-min")
        if r2["gcc0"][:2] == r2["gcc2"][:2] and differing(r2):
            res, diff, have = r2, differing(r2), [c for c in CFGNAMES if c in r2]
        else:
            msrc = G.assemble(units)
    cls = cfg_class(diff, have)
    slug = classify_by_patch(msrc, name, diff, res["gcc0"][:2]) if msrc is not None else None
    if slug:
        sig = "C07:" + slug
    elif fallback_sig:
        sig = fallback_sig        # a corpus replay that names its own finding and that no candidate repair fixes
    elif cls == "all":
        sig = "C07:%s:all:%s" % (kind, symptom(res, diff))
    else:
        sig = "C07:engines-disagree:%s:%s" % (cls, symptom(res, diff))
    if sig in reported:
        return sig
    reported.add(sig)
    fd = first_diff(res["gcc0"][1], res[diff[0]][1])
    ck.violation({"stage": "tie", "theorem_or_correspondence": "c2m vs gcc on a UB-free program",
                  "origin": origin, "input": msrc if msrc is not None else name, "configs_differing": diff,
                  "gcc": {"rc": res["gcc0"][0], "first_diff": fd},
                  "impl": {c: {"rc": res[c][0], "stderr": res[c][2][-300:]} for c in diff},
                  "repaired_by": ("fixes/C07-%s.patch" % slug) if slug else None,
                  "spec_verdict": "gcc -O0 and -O2 agree; output/exit status of the listed c2m configurations differ",
                  "how_to_rerun": "./check C07 --replay <this file>   (or: save `input` as p.c; gcc -w p.c && ./a.out; c2m [-On] p.c -e?)"},
                 what="%s: c2m (%s) differs from gcc [%s]: %s" % (origin, ",".join(diff), sig, json.dumps(fd)),
                 signature=sig)
    return sig


# ---------------------------------------------------------------------------------------------- --replay
if ck.replay:
    rp = json.load(open(ck.replay))
    src = rp.get("input", "")
    res = evaluate(src, "replay")
    diff = differing(res)
    ck.log("replay: gcc rc=%s, differing configs: %s" % (res["gcc0"][0], diff))
    if diff:
        ck.violation({"stage": "replay", "input": src, "configs_differing": diff,
                      "first_diff": first_diff(res["gcc0"][1], res[diff[0]][1])},
                     what="replayed program still differs (%s)" % ",".join(diff), signature=rp.get("signature"))
    ck.cov["evaluations"] = 1
    shutil.rmtree(WORK, ignore_errors=True)
    ck.finish()

# ---------------------------------------------------------------------------------------------- corpus
CORPUS = os.path.join(VERIF, "corpus", "C07")
corpus_n = 0
if os.path.isdir(CORPUS):
    files = sorted(f for f in os.listdir(CORPUS) if f.endswith(".c"))

    def do_corpus(f):
        src = open(os.path.join(CORPUS, f)).read()
        m = re.search(r"C07-corpus:\s*(pass|known)\s*(\S*)", src)
        return f, (m.group(1), m.group(2)) if m else ("pass", ""), evaluate(src, "corpus-" + f[:-2])

    with ThreadPoolExecutor(max_workers=8) as ex:
        for f, (mode, declared), res in ex.map(do_corpus, files):
            corpus_n += 1
            stats["configs_run"] += len(res)
            if res["gcc0"][0] == "compile-error" or res["gcc0"][:2] != res["gcc2"][:2]:
                ck.broken_ties.append({"kind": "corpus", "name": f, "first_diff": "gcc rejects the file or gcc -O0 != -O2"})
                continue
            diff = differing(res)
            if not diff:
                continue
            if mode == "known":
                G.AVOID.add(declared)      # still present: the generator keeps clear of it (see c07_gen.AVOID)
            csrc = open(os.path.join(CORPUS, f)).read()
            sig = report(None, res, "corpus-" + f[:-2], "corpus/C07/" + f, src=csrc,
                         fallback_sig=declared if mode == "known" else None,
                         rerun=lambda tmo, csrc=csrc, f=f: evaluate(csrc, "corpus-r-" + f[:-2], timeout=tmo))
            if mode == "known" and sig != declared:
                ck.log("note: corpus/C07/%s is filed under %s but now classifies as %s" % (f, declared, sig))
corpus_diffs[0] = stats["diff_programs"]
ck.stage("corpus", replayed=corpus_n, generator_avoids=sorted(G.AVOID))
ck.cov["corpus_replayed"] = corpus_n

# ---------------------------------------------------------------------------------------------- generated programs
rng = ck.rng
pair_cursor = [rng.below(144)]
BASELINE_MODE = bool(os.environ.get("VERIF_C07_BASELINE"))   # maintenance: rewrite corpus/C07/ctests-baseline.json
N_TARGET = 0 if BASELINE_MODE else 160 if QUICK else 4000
GEN_BUDGET = BUDGET * (0.75 if QUICK else 0.65)
tg = time.time()
progs_meta = []          # (name, units) of programs that ran clean, for the oracle stages
parse_line = re.compile(r"^(\S+) (-?\d+|-?0x[0-9a-f.]+p[-+]\d+)$")


def parse_val(x):
    return float.fromhex(x) if "x" in x else int(x)


def do_prog(job):
    idx, units = job
    return idx, units, evaluate(G.assemble(units), "g%d" % idx)


def batches():
    idx = 0
    while idx < N_TARGET and time.time() - tg < GEN_BUDGET:
        jobs = []
        for _ in range(32):
            if idx >= N_TARGET:
                break
            jobs.append((idx, G.gen_program(rng, idx, pair_cursor)))
            idx += 1
        yield jobs


lean_queries, py_mismatch, bf_jobs = [], [], []
with ThreadPoolExecutor(max_workers=16) as ex:
    for jobs in batches():
        for idx, units, res in ex.map(do_prog, jobs):
            stats["programs"] += 1
            stats["configs_run"] += len(res)
            for u in units:
                stats["units"][u["kind"]] = stats["units"].get(u["kind"], 0) + 1
                if u["kind"] == "conv": stats["pairs_covered"].add(u["info"])
                if u["kind"] == "scopy": stats["scopy_sizes"].update(int(x) for x in u["info"].split(","))
                if u["kind"] == "saddr": stats["saddr_sizes"].add(int(u["info"]))
                if u["kind"] == "bitf": stats["bitf_widths"].update(w for (_, _, _, _, w) in u["bf"]["stores"])
            g0, g2 = res["gcc0"], res["gcc2"]
            if g0[0] in ("compile-error", "timeout") or g0[:2] != g2[:2]:
                stats["generator_miss"].append({"program": idx, "why": "gcc rejects" if g0[0] == "compile-error" else
                                                "gcc timeout" if g0[0] == "timeout" else "gcc -O0 != gcc -O2",
                                                "detail": (g0[2] or g2[2])[-300:], "kinds": [u["kind"] for u in units]})
                continue
            stats["timeouts"] += sum(1 for c in CFGNAMES if res[c][0] == "timeout")
            # the generator's own evaluation vs gcc
            vals = {}
            for l in g0[1].split("\n"):
                m = parse_line.match(l)
                if m:
                    vals[m.group(1)] = parse_val(m.group(2))
            for u in units:
                for tag, v in u["expect"].items():
                    stats["tags_checked_vs_python"] += 1
                    gv = vals.get(tag)
                    if gv != v:
                        py_mismatch.append({"program": idx, "tag": tag, "python": str(v), "gcc": gv})
                for q in u["lean"]:
                    lean_queries.append(q)
                if u["kind"] == "bitf":
                    bf_jobs.append((u["bf"], [l for l in g0[1].split("\n") if l.startswith(u["bf"]["tag"] + " ")]))
            if differing(res):
                report(units, res, "g%d" % idx, "generated program %d (seed %d)" % (idx, ck.seed),
                       rerun=lambda tmo, units=units, idx=idx: evaluate(G.assemble(units), "g%d-r" % idx, timeout=tmo))
            elif len(ck.cov["samples"]) < 3:
                ck.sample({"program": idx, "units": [(u["kind"], u["info"]) for u in units],
                           "first_lines": g0[1].split("\n")[:3], "rc": g0[0]})
ck.stage("generated", programs=stats["programs"], seconds=round(time.time() - tg, 1))

# ---------------------------------------------------------------------------------------------- Lean / python oracles
if py_mismatch:
    ck.broken_ties.append({"kind": "correspondence", "name": "generator's C evaluator vs gcc", "first_diff": py_mismatch[:3]})
if lean_queries:
    inp = "".join("cexpr %s\n" % q[1] for q in lean_queries)
    rc, out, err = ck.drv("mirdrv_c07", [], inp)
    lines = out.split("\n")
    bad = []
    for (tag, q, t, v), l in zip(lean_queries, lines):
        stats["lean_queries"] += 1
        if l != "%s %d" % (t, v):
            bad.append({"tag": tag, "cexpr": q, "lean": l, "python": "%s %d" % (t, v)})
    if bad or rc != 0 or len(lines) < len(lean_queries):
        ck.broken_ties.append({"kind": "correspondence", "name": "Lean cEval vs generator's C evaluator (= gcc)",
                               "first_diff": bad[:3], "rc": rc})
if bf_jobs:
    inp = ""
    for bf, _ in bf_jobs:
        n = bf["size"] * 8 // bf["S"]
        sg = bf["stores"][0][1] if bf["stores"] else 0
        inp += "bfseq %d %d %d %s\n" % (bf["S"], n, sg, " ".join("%d %d %d %d" % (u, v, o, w) for (u, _, v, o, w) in bf["stores"]))
    rc, out, err = ck.drv("mirdrv_c07", [], inp)
    bad = []
    for (bf, glines), l in zip(bf_jobs, out.split("\n")):
        stats["bf_images"] += 1
        try:
            words = [int(x) for x in l.split()]
        except ValueError:
            words = None
        img = []
        if words is not None:
            for w in words:
                img += ["%02x" % ((w >> (8 * i)) & 255) for i in range(bf["S"] // 8)]
        want = bf["tag"] + " " + " ".join(img)
        if not glines or glines[0].strip() != want.strip():
            bad.append({"tag": bf["tag"], "lean": want, "gcc": glines[:1]})
    if bad:
        ck.broken_ties.append({"kind": "correspondence", "name": "Lean bit-field store model vs gcc's storage image",
                               "first_diff": bad[:3]})
ck.stage("oracles", lean=stats["lean_queries"], python=stats["tags_checked_vs_python"], bf=stats["bf_images"])

# ---------------------------------------------------------------------------------------------- c-tests seed corpus
CT = os.path.join(REPO, "c-tests")
BASE = {}
bp = os.path.join(CORPUS, "ctests-baseline.json")
if os.path.exists(bp):
    BASE = json.load(open(bp))
ct_stats = {"considered": 0, "compared": 0, "gcc_unstable_or_failing": 0, "c2m_rejects": 0, "agree": 0, "baseline_hits": {},
            "skipped_for_time": 0}
CT_CFGS = ["ei", "eg-O0", "eg-O2", "eg-O3", "eb"] if QUICK else CFGNAMES


def ct_list():
    out = []
    for d in ("new", "lacc", "andrewchambers_c", "gcc", "havoc"):
        dd = os.path.join(CT, d)
        if not os.path.isdir(dd):
            continue
        if os.path.exists(os.path.join(dd, "main.c")):
            continue          # multi-file suites are driven by their own main.c: not a single-program seed
        for f in sorted(os.listdir(dd)):
            if f.endswith(".c") and not re.match(r"add-[A-Za-z0-9]+\.c$", f):
                out.append(d + "/" + f)
    return out


def do_ct(rel, timeout=10):
    p = os.path.join(CT, rel)
    d, b = os.path.dirname(p), os.path.basename(p)
    extra = []
    if os.path.exists(os.path.join(d, "add-" + b)):
        extra.append(os.path.join(d, "add-" + b))
    elif os.path.exists(os.path.join(d, "add-" + b[:-2] + ".mir")):
        return rel, None
    src = open(p, errors="replace").read()
    name = "ct-" + hashlib.md5(rel.encode()).hexdigest()[:10]
    return rel, evaluate(src, name, cfgs=CT_CFGS, extra_srcs=extra, gcc_flags=("-w", "--trigraphs"), timeout=timeout)


tests = ct_list()
ct_stats["total"] = len(tests)
if QUICK:
    r2 = SplitMix(ck.seed * 7919 + 11)
    fast = [t for t in tests if BASE.get("slow", {}).get(t) is None]
    pick = sorted(set(fast[r2.below(len(fast))] for _ in range(260))) if fast else []
else:
    pick = tests
tc = time.time()
CT_BUDGET = BUDGET - (time.time() - T0) + (60 if QUICK else 0)
known_ct = BASE.get("differs", {})
new_base = {"differs": {}, "slow": {}}
with ThreadPoolExecutor(max_workers=16) as ex:
    futs = []
    for t in pick:
        futs.append(ex.submit(do_ct, t))
    for fu in futs:
        if time.time() - tc > max(20, CT_BUDGET):
            if not fu.done():
                fu.cancel()
                ct_stats["skipped_for_time"] += 1
                continue
        rel, res = fu.result()
        ct_stats["considered"] += 1
        if res is None:
            continue
        stats["configs_run"] += len(res)
        g0, g2 = res["gcc0"], res["gcc2"]
        if g0[0] in ("compile-error", "timeout") or g0[:2] != g2[:2] or not isinstance(g0[0], int) or g0[0] < 0:
            ct_stats["gcc_unstable_or_failing"] += 1
            continue
        if res["ei"][0] == 1 and re.search(r"\.c:\d+:\d+:|error", res["ei"][2]) and not res["ei"][1]:
            ct_stats["c2m_rejects"] += 1          # outside c2mir's supported subset (or a diagnostic): not comparable
            continue
        ct_stats["compared"] += 1
        diff = differing(res)
        if not diff:
            ct_stats["agree"] += 1
            continue
        if BASELINE_MODE:
            new_base.setdefault("differs", {})[rel] = {"configs": diff, "class": cfg_class(diff, [c for c in CFGNAMES if c in res]),
                                                        "symptom": symptom(res, diff), "first_diff": first_diff(res["gcc0"][1], res[diff[0]][1]),
                                                        "stderr": res[diff[0]][2][-200:]}
            continue
        if rel in known_ct:
            why = known_ct[rel] if isinstance(known_ct[rel], str) else known_ct[rel].get("why", "unclassified")
            ct_stats["baseline_hits"][why] = ct_stats["baseline_hits"].get(why, 0) + 1
            continue
        report(None, res, "ct-" + hashlib.md5(rel.encode()).hexdigest()[:8], "c-tests/" + rel,
               rerun=lambda tmo, rel=rel: do_ct(rel, timeout=tmo)[1],
               src=open(os.path.join(CT, rel), errors="replace").read() if not os.path.exists(os.path.join(CT, os.path.dirname(rel), "add-" + os.path.basename(rel))) else None)
if BASELINE_MODE:
    with open(bp + ".new", "w") as f:
        json.dump(new_base, f, indent=1, sort_keys=True)
    ck.log("baseline candidates written to " + bp + ".new")
ck.stage("c-tests", **{k: v for k, v in ct_stats.items() if k != "baseline_hits"})

# ---------------------------------------------------------------------------------------------- evidence
shutil.rmtree(WORK, ignore_errors=True)
n_units = sum(stats["units"].values())
ck.cov["evaluations"] = stats["configs_run"]
ck.cov["distinct_nontrivial"] = stats["programs"] - len(stats["generator_miss"]) + ct_stats["compared"]
ck.cov["rule"] = ("one evaluation = one (program, configuration) run, configuration in {gcc -O0, gcc -O2, c2m -ei, -eg -O0..-O3, -el, "
                  "-eb}; a program counts as distinct+nontrivial when gcc -O0 and -O2 agree on it (UB canary) and every c2m "
                  "configuration was compared with them; generated programs are seeded by VERIF_SEED and consist of 5 units "
                  "(conv/cexpr/fcexpr/bitf/init/ctrl/scopy/saddr/calls); c-tests programs are taken from /repo/c-tests at run time")
ck.cov["distribution"] = {
    "generated_programs": stats["programs"], "units_by_kind": stats["units"], "units_total": n_units,
    "type_pairs_covered": len(stats["pairs_covered"]), "struct_copy_sizes_covered": len(stats["scopy_sizes"]),
    "bitfield_widths_covered": len(stats["bitf_widths"]), "struct_addressing_unit_sizes": sorted(stats["saddr_sizes"]),
    "values_checked_against_generator_evaluator": stats["tags_checked_vs_python"],
    "expressions_checked_against_lean_cEval": stats["lean_queries"], "bitfield_images_checked_against_lean": stats["bf_images"],
    "generator_misses": len(stats["generator_miss"]), "generator_miss_samples": stats["generator_miss"][:3],
    "c2m_timeouts": stats["timeouts"], "programs_with_a_difference": stats["diff_programs"], "differing_programs_not_minimised": unminimised[:20],
    "c_tests": ct_stats}
ck.cov["exhaustive"] = False
ck.cov["trusted_base"] += ["gcc 12 as reference compiler", "translate/c07_cfun.py (clang-14 JSON AST -> Lean)",
                           "checks/c07_gen.py (UB-freedom of generated programs; canary: gcc -O0 == gcc -O2)"]
ck.assumptions += [
    "reference = gcc 12.2 x86-64 (-O0 and -O2 must agree, otherwise the program is discarded as a generator miss)",
    "the proved fragment is the conversion / folding / opcode-selection / bit-field / block-move arithmetic; parser, "
    "declaration checker, initialiser flattening and statement lowering are only tested",
    "struct type is modelled by (mode, basic_type, enum basic type); raw_type_size = basic_type_size (translator prelude)",
    "bit-field layouts with mixed declared types / unnamed / zero-width members are C08's (defects #22-24) and not generated",
]
if len(stats["generator_miss"]) > max(3, stats["programs"] // 20):
    ck.broken_ties.append({"kind": "generator", "name": "too many generator misses", "first_diff": stats["generator_miss"][:3]})
ck.finish()
