"""C02 — every instruction computes its documented result for all operand values/forms.

proof gate : Props/C02.lean (all integer ops, ext, neg, overflow flags, branches, narrow load/store;
             dispatch table regenerated from mir-interp.c by translate/c02_tables.py)
tie        : one-instruction functions in every operand shape, executed by MIR_interp, the
             interpreter's C interface and MIR_gen -O0..-O3 over a boundary-value grid, compared with
             the Lean specification (mirdrv_c02 = docSem & co.)."""
import os, sys, subprocess, json, struct, math, collections
from vf import Check, VERIF, REPO, sh

ENGINES = ["interp", "interpc", "gen0", "gen1", "gen2", "gen3"]
AOPS = ["add", "sub", "mul", "div", "udiv", "mod", "umod", "and", "or", "xor", "lsh", "rsh", "ursh",
        "eq", "ne", "lt", "ult", "le", "ule", "gt", "ugt", "ge", "uge"]
CMPS = ["eq", "ne", "lt", "ult", "le", "ule", "gt", "ugt", "ge", "uge"]
M64 = (1 << 64) - 1


def dom_of(a, short):
    if a in ("div", "mod"):
        return "div32" if short else "div64"
    if a in ("udiv", "umod"):
        return "udiv32" if short else "udiv64"
    if a in ("lsh", "rsh", "ursh"):
        return "sh32" if short else "sh64"
    return "any"


def in_dom(dom, a, b):
    s64 = lambda x: x - (1 << 64) if x >> 63 else x
    s32 = lambda x: (x & 0xffffffff) - (1 << 32) if (x >> 31) & 1 else x & 0xffffffff
    if dom == "div64":
        return b != 0 and not (s64(a) == -(1 << 63) and s64(b) == -1)
    if dom == "div32":
        return (b & 0xffffffff) != 0 and not (s32(a) == -(1 << 31) and s32(b) == -1)
    if dom == "udiv64":
        return b != 0
    if dom == "udiv32":
        return (b & 0xffffffff) != 0
    if dom == "sh64":
        return b < 64
    if dom == "sh32":
        return (b & 0xffffffff) < 32
    return True


def brname(a, short):
    u = {"ult": "ublt", "ule": "uble", "ugt": "ubgt", "uge": "ubge"}
    return u.get(a, "b" + a) + ("s" if short else "")


class Gen:
    """builds the module text and the plan; every function records (key, sig, dom, fixed_b, post)"""

    def __init__(self):
        self.funcs = []   # text
        self.meta = {}    # fname -> dict
        self.n = 0

    def add(self, key, sig, body, locs="i64:r", dom="any", fixed_b=None, res="i64", shape=""):
        self.n += 1
        fname = f"f{self.n}"
        args = {"ii_i": "i64:a, i64:b", "i_i": "i64:a", "dd_d": "d:a, d:b", "dd_i": "d:a, d:b", "d_d": "d:a",
                "d_i": "d:a", "i_d": "i64:a", "ff_f": "f:a, f:b", "ff_i": "f:a, f:b", "f_f": "f:a", "f_i": "f:a",
                "i_f": "i64:a", "f_d": "f:a", "d_f": "d:a", "ll_l": "ld:a, ld:b", "ll_i": "ld:a, ld:b", "l_l": "ld:a",
                "l_i": "ld:a", "i_l": "i64:a", "l_d": "ld:a", "d_l": "d:a", "l_f": "ld:a", "f_l": "f:a"}[sig]
        body = body.replace("@", f"L{self.n}_")
        self.funcs.append(f"{fname}: func {res}, {args}\n  local {locs}\n{body}\n  endfunc\n")
        self.meta[fname] = {"key": key, "sig": sig, "dom": dom, "fixed_b": fixed_b, "shape": shape}
        return fname

    def text(self):
        names = ", ".join(self.meta.keys())
        return "m: module\nexport " + names + "\n" + "".join(self.funcs) + "endmodule\n"


def build_funcs(ck, imms, quick):
    g = Gen()
    for a in AOPS:
        for short in (False, True):
            op = a + ("s" if short else "")
            key = f"bin:{a}:{int(short)}"
            post = "  ext32 r, r\n" if (short and a not in CMPS) else ""
            dom = dom_of(a, short)
            g.add(key, "ii_i", f"  {op} r, a, b\n{post}  ret r", dom=dom, shape="rr")
            g.add(key, "ii_i", f"  mov r, a\n  {op} r, r, b\n{post}  ret r", dom=dom, shape="d=s1")
            g.add(key, "ii_i", f"  mov r, b\n  {op} r, a, r\n{post}  ret r", dom=dom, shape="d=s2")
            g.add(key, "ii_i", f"  alloca p, 32\n  mov i64:8(p), b\n  {op} r, a, i64:8(p)\n{post}  ret r",
                  locs="i64:r, i64:p", dom=dom, shape="rm")
            g.add(key, "ii_i", f"  alloca p, 32\n  mov x, 2\n  {op} i64:(p, x, 8), a, b\n  mov r, i64:16(p)\n{post}  ret r",
                  locs="i64:r, i64:p, i64:x", dom=dom, shape="mr")
            g.add(key, "ii_i", f"  alloca p, 32\n  mov i64:8(p), a\n  {op} r, i64:8(p), b\n{post}  ret r",
                  locs="i64:r, i64:p", dom=dom, shape="m1")
            g.add(key, "ii_i", f"  alloca p, 32\n  mov i64:(p), b\n  {op} r, a, i64:(p)\n{post}  mov i64:16(p), r\n  mov r, i64:16(p)\n  ret r",
                  locs="i64:r, i64:p", dom=dom, shape="rm live-base")
            g.add(key, "ii_i", f"  alloca p, 32\n  mov i64:(p), a\n  {op} r, i64:(p), b\n{post}  mov i64:16(p), r\n  mov r, i64:16(p)\n  ret r",
                  locs="i64:r, i64:p", dom=dom, shape="m1 live-base")
            if short:   # 32-bit memory operands select their own machine patterns (m2 rows)
                for mt in ("i32", "u32"):
                    # the base register stays live after the instruction and has no displacement, so the load can
                    # be folded into the instruction whatever registers the operands get
                    g.add(key, "ii_i", f"  alloca p, 32\n  mov i64:(p), b\n  {op} r, a, {mt}:(p)\n{post}  mov i64:16(p), r\n  mov r, i64:16(p)\n  ret r",
                          locs="i64:r, i64:p", dom=dom, shape="rm " + mt)
                    g.add(key, "ii_i", f"  alloca p, 32\n  mov i64:(p), a\n  {op} r, {mt}:(p), b\n{post}  mov i64:16(p), r\n  mov r, i64:16(p)\n  ret r",
                          locs="i64:r, i64:p", dom=dom, shape="m1 " + mt)
            g.add(key, "ii_i", f"  alloca p, 32\n  mov i64:8(p), a\n  mov x, i64:8(p)\n  {op} r, x, b\n{post}  ret r",
                  locs="i64:r, i64:p, i64:x", dom=dom, shape="ld1")
            for im in imms:
                if in_dom(dom, 0 if dom.startswith("sh") else 1, im) or dom == "any" or dom.startswith("div") and in_dom(dom, 1, im):
                    if dom != "any" and not in_dom(dom, 1, im):
                        continue
                    sim = im - (1 << 64) if im >> 63 else im
                    # a == MIN with imm -1 is excluded by the harness-side domain test on (a, fixed b)
                    g.add(key, "i_i", f"  {op} r, a, {sim}\n{post}  ret r", dom=dom, fixed_b=im, shape="ri")
            if a in ("add", "sub", "mul", "and", "or", "xor"):
                # chains of two operations with constants: the optimizer combines the constants
                CH = [1, 127, 128, 2147483647, 2147483648, 0x180000000, -1, -2147483648, -2147483649, 0x7fffffffffffffff]
                for c1 in CH:
                    for c2 in (CH if not quick else CH[3:8]):
                        comb = {"add": c1 + c2, "sub": c1 + c2, "mul": c1 * c2, "and": c1 & c2, "or": c1 | c2, "xor": c1 ^ c2}[a] & M64
                        g.add(key, "i_i", f"  {op} r, a, {c1}\n  {op} r, r, {c2}\n{post}  ret r", dom=dom, fixed_b=comb, shape="chain2")
                    if a in ("add", "sub"):
                        o2 = ("sub" if a == "add" else "add") + ("s" if short else "")
                        for c2 in CH[3:8]:
                            comb = (c1 - c2) & M64
                            g.add(key, "i_i", f"  {op} r, a, {c1}\n  {o2} r, r, {c2}\n{post}  ret r", dom=dom, fixed_b=comb, shape="chain2 mixed")
            for im in imms[: (3 if quick else len(imms))]:
                sim = im - (1 << 64) if im >> 63 else im
                g.add(key + ":swap", "i_i", f"  {op} r, {sim}, a\n{post}  ret r", dom=dom, fixed_b=im, shape="ir")
            if a in CMPS:
                bn = brname(a, short)
                g.add(f"br:{a}:{int(short)}", "ii_i", f"  {bn} @t, a, b\n  mov r, 0\n  ret r\n@t:\n  mov r, 1\n  ret r", shape="br")
                tail = "  mov r, 0\n  ret r\n@t:\n  mov r, 1\n  ret r"
                # operand forms the combiner rewrites (operand swap to fold a load), memory operands, and the
                # branch-over-jump shape the simplifier reverses
                g.add(f"br:{a}:{int(short)}", "ii_i", f"  alloca p, 32\n  mov i64:8(p), a\n  mov x, i64:8(p)\n  {bn} @t, x, b\n" + tail,
                      locs="i64:r, i64:p, i64:x", shape="br-ld1")
                g.add(f"br:{a}:{int(short)}", "ii_i", f"  alloca p, 32\n  mov i64:8(p), b\n  mov x, i64:8(p)\n  {bn} @t, a, x\n" + tail,
                      locs="i64:r, i64:p, i64:x", shape="br-ld2")
                g.add(f"br:{a}:{int(short)}", "ii_i", f"  alloca p, 32\n  mov i64:8(p), a\n  {bn} @t, i64:8(p), b\n" + tail,
                      locs="i64:r, i64:p", shape="br-m1")
                g.add(f"br:{a}:{int(short)}", "ii_i", f"  alloca p, 32\n  mov i64:8(p), b\n  {bn} @t, a, i64:8(p)\n" + tail,
                      locs="i64:r, i64:p", shape="br-m2")
                g.add(f"br:{a}:{int(short)}", "ii_i", f"  {bn} @t, a, b\n  jmp @f\n@t:\n  mov r, 1\n  ret r\n@f:\n  mov r, 0\n  ret r",
                      shape="br-over-jmp")
                # far targets (rel32 jump encodings are separate patterns from the rel8 ones)
                fill = "".join(f"  mul r, r, a\n  add r, r, {k}\n  xor r, r, b\n" for k in range(3, 18))
                ftail = f"  mov r, a\n{fill}  ursh r, r, 63\n  ursh r, r, 1\n  ret r\n@t:\n  mov r, 1\n  ret r"
                g.add(f"br:{a}:{int(short)}", "ii_i", f"  {bn} @t, a, b\n" + ftail, shape="br far")
                g.add(f"br:{a}:{int(short)}", "ii_i", f"  alloca p, 32\n  mov i64:8(p), a\n  mov x, i64:8(p)\n  {bn} @t, x, b\n" + ftail,
                      locs="i64:r, i64:p, i64:x", shape="br-ld1 far")
                g.add(f"br:{a}:{int(short)}", "ii_i", f"  alloca p, 32\n  mov i64:8(p), b\n  mov x, i64:8(p)\n  {bn} @t, a, x\n" + ftail,
                      locs="i64:r, i64:p, i64:x", shape="br-ld2 far")
                for im in imms[:4]:
                    sim = im - (1 << 64) if im >> 63 else im
                    g.add(f"br:{a}:{int(short)}", "i_i", f"  {bn} @t, a, {sim}\n  mov r, 0\n  ret r\n@t:\n  mov r, 1\n  ret r",
                          fixed_b=im, shape="br-ri")
    for k in (8, 16, 32):
        for s in (1, 0):
            op = ("ext" if s else "uext") + str(k)
            g.add(f"ext:{k}:{s}", "i_i", f"  {op} r, a\n  ret r", shape="r")
            g.add(f"ext:{k}:{s}", "i_i", f"  mov r, a\n  {op} r, r\n  ret r", shape="d=s")
            g.add(f"ext:{k}:{s}", "i_i", f"  alloca p, 16\n  mov i64:(p), a\n  {op} r, i64:(p)\n  ret r", locs="i64:r, i64:p", shape="m")
    # two extensions in a row, every pair (copy propagation merges them at -O2), and an extension of a narrow load
    for k1 in (8, 16, 32):
        for s1 in (1, 0):
            o1 = ("ext" if s1 else "uext") + str(k1)
            for k2 in (8, 16, 32):
                for s2 in (1, 0):
                    o2 = ("ext" if s2 else "uext") + str(k2)
                    key = f"ext2:{k1}:{s1}:{k2}:{s2}"
                    g.add(key, "i_i", f"  {o1} x, a\n  {o2} r, x\n  ret r", locs="i64:r, i64:x", shape="ext;ext")
                    g.add(key, "i_i", f"  {o1} x, a\n  {o2} r, x\n  add r, r, x\n  sub r, r, x\n  ret r", locs="i64:r, i64:x",
                          shape="ext;ext both live")
                    g.add(key, "i_i", f"  mov r, a\n  {o1} r, r\n  {o2} r, r\n  ret r", shape="ext;ext d=s")
            for t in ("i8", "u8", "i16", "u16", "i32", "u32"):
                g.add(f"ldext:{t}:{k1}:{s1}", "i_i", f"  alloca p, 16\n  mov i64:(p), a\n  mov x, {t}:(p)\n  {o1} r, x\n  ret r",
                      locs="i64:r, i64:p, i64:x", shape="ld;ext")
    # a compare whose result only feeds bt / bf (the combiner fuses the pair into one compare-and-branch; for
    # floating point the false branch must not become the opposite compare: NaN operands)
    def cmp_bt(key, sig, cmpi, locs, short):
        for kind in ("bt", "bf") + (("bts", "bfs") if True else ()):
            neg = kind in ("bf", "bfs")
            t1, t0 = ("0", "1") if not neg else ("1", "0")
            body = f"  {cmpi}\n  {kind} @t, c\n  mov r, {t1}\n  ret r\n@t:\n  mov r, {t0}\n  ret r"
            g.add(key + (":neg" if neg else ""), sig, body, locs=locs, shape=f"cmp;{kind}")
    for a in CMPS:
        for short in (False, True):
            op = a + ("s" if short else "")
            cmp_bt(f"bin:{a}:{int(short)}", "ii_i", f"{op} c, a, b", "i64:r, i64:c", short)
    for pfx, sigc in (("f", "ff_i"), ("d", "dd_i")):
        for c in ("eq", "ne", "lt", "le", "gt", "ge"):
            cmp_bt(f"fp:{pfx}{c}", sigc, f"{pfx}{c} c, a, b", "i64:r, i64:c", False)
    for c in ("eq", "ne", "lt", "le", "gt", "ge"):
        cmp_bt(f"ldbl:ld{c}", "ll_i", f"ld{c} c, a, b", "i64:r, i64:c", False)
    g.add("neg:0", "i_i", "  neg r, a\n  ret r", shape="r")
    g.add("neg:1", "i_i", "  negs r, a\n  ext32 r, r\n  ret r", shape="r")
    for o in ("add", "sub", "mul", "umul"):
        for short in (0, 1):
            op = o + "o" + ("s" if short else "")
            post = "  ext32 r, r\n" if short else ""
            g.add(f"ov:{o}:{short}:res", "ii_i", f"  {op} r, a, b\n{post}  ret r", shape="res")
            flags = [("sov", "bo", "bno")] if o == "mul" else [("uov", "ubo", "ubno")] if o == "umul" else \
                [("sov", "bo", "bno"), ("uov", "ubo", "ubno")]
            for what, bo, bno in flags:
                g.add(f"ov:{o}:{short}:{what}", "ii_i", f"  {op} r, a, b\n  {bo} @t\n  mov r, 0\n  ret r\n@t:\n  mov r, 1\n  ret r", shape=bo)
                g.add(f"ov:{o}:{short}:{what}:neg", "ii_i", f"  {op} r, a, b\n  {bno} @t\n  mov r, 1\n  ret r\n@t:\n  mov r, 0\n  ret r", shape=bno)
    # bt / bf on registers and on values loaded from memory of every width, with near and far targets (the
    # short and the long jump encodings are different patterns); overflow insns with a memory destination
    pad = "".join(f"  mul r, r, a\n  add r, r, {k}\n  xor r, r, a\n" for k in range(3, 18))   # > 127 bytes of code
    for kind in ("bt", "bf", "bts", "bfs"):
        for far in (0, 1):
            mid = pad if far else ""
            # the filler must stay live at every level: its value is reduced to 0 by two shifts no pass folds
            tailk = f"  mov r, a\n{mid}  ursh r, r, 63\n  ursh r, r, 1\n  ret r\n@t:\n  mov r, 1\n  ret r"
            g.add(f"bt:{kind}", "i_i", f"  {kind} @t, a\n" + tailk, shape=f"{kind} r far{far}")
            for t in ("i8", "u8", "i16", "u16", "i32", "u32", "i64"):
                g.add(f"btld:{t}:{kind}", "i_i", f"  alloca p, 32\n  mov i64:8(p), a\n  mov x, {t}:8(p)\n  {kind} @t, x\n" + tailk,
                      locs="i64:r, i64:p, i64:x", shape=f"{kind} ld {t} far{far}")
    # bt/bf with an immediate operand (folded by the simplifier: the short forms look at the low half only)
    for kind in ("bt", "bf", "bts", "bfs"):
        for im in (0, 1, 2, 5, 0xffffffff, 0x100000000, 0x100000001, 0x7fffffff00000000, 0xffffffff00000000, 0x8000000000000000):
            sim = im - (1 << 64) if im >> 63 else im
            g.add(f"btimm:{kind}", "i_i", f"  {kind} @t, {sim}\n  mov r, 0\n  ret r\n@t:\n  mov r, 1\n  ret r", fixed_b=im, shape=f"{kind} imm")
    for o in ("add", "sub", "mul", "umul"):
        for short in (0, 1):
            op = o + "o" + ("s" if short else "")
            flags = [("sov", "bo")] if o == "mul" else [("uov", "ubo")] if o == "umul" else [("sov", "bo"), ("uov", "ubo")]
            mt = "i32" if short else "i64"
            for what, bo in flags:
                for af, pre in (("40(p)", ""), ("(p, x, 8)", "  mov x, 3\n"), ("16(p, x, 8)", "  mov x, 1\n")):
                    g.add(f"ov:{o}:{short}:{what}", "ii_i", f"  alloca p, 64\n{pre}  {op} {mt}:{af}, a, b\n  {bo} @t\n  mov r, 0\n  ret r\n@t:\n  mov r, 1\n  ret r",
                          locs="i64:r, i64:p, i64:x", shape=f"{bo} mem-dest {af}")
    # narrow loads / stores, several address forms
    for t in ("i8", "u8", "i16", "u16", "i32", "u32", "i64", "u64", "p"):
        forms = [("(p)", ""), ("8(p)", "  sub p, p, 8\n"), ("(p, x, 4)", "  mov x, 3\n  sub p, p, 12\n"),
                 ("-16(p, x, 8)", "  mov x, 2\n")]
        for af, pre in forms:
            g.add(f"ld:{t}", "i_i", f"  alloca q, 48\n  add q, q, 16\n  mov i64:(q), a\n  mov p, q\n{pre}  mov r, {t}:{af}\n  ret r",
                  locs="i64:r, i64:p, i64:q, i64:x", shape="ld " + af)
            g.add(f"ld:{t}", "i_i", f"  alloca q, 48\n  add q, q, 16\n  mov i64:(q), 0\n  mov p, q\n{pre}  mov {t}:{af}, a\n  mov r, {t}:{af}\n  ret r",
                  locs="i64:r, i64:p, i64:q, i64:x", shape="st;ld " + af)
            if t != "p":
                g.add(f"ld:i32", "i_i", f"  alloca q, 48\n  add q, q, 16\n  mov p, q\n{pre}  mov p:{af}, a\n  mov r, i32:{af}\n  ret r",
                      locs="i64:r, i64:p, i64:q, i64:x", shape="st p;ld i32 " + af)
            g.add(f"st:{t}", "ii_i", f"  alloca q, 48\n  add q, q, 16\n  mov i64:(q), a\n  mov p, q\n{pre}  mov {t}:{af}, b\n  mov r, i64:(q)\n  ret r",
                  locs="i64:r, i64:p, i64:q, i64:x", shape="st " + af)
    # floating point
    for pfx, sig3, sigc, cls in (("f", "ff_f", "ff_i", "f"), ("d", "dd_d", "dd_i", "d")):
        for o in ("add", "sub", "mul", "div"):
            g.add(f"fp:{pfx}{o}", sig3, f"  {pfx}{o} r, a, b\n  ret r", locs=f"{cls}:r", res=cls, shape="rr")
            g.add(f"fp:{pfx}{o}", sig3, f"  {pfx}mov r, a\n  {pfx}{o} r, r, b\n  ret r", locs=f"{cls}:r", res=cls, shape="d=s1")
        g.add(f"fp:{pfx}neg", sig3[1:], f"  {pfx}neg r, a\n  ret r", locs=f"{cls}:r", res=cls, shape="r")
        for c in ("eq", "ne", "lt", "le", "gt", "ge"):
            g.add(f"fp:{pfx}{c}", sigc, f"  {pfx}{c} r, a, b\n  ret r", shape="cmp")
            g.add(f"fp:{pfx}{c}", sigc, f"  {pfx}b{c} @t, a, b\n  mov r, 0\n  ret r\n@t:\n  mov r, 1\n  ret r", shape="br")
    g.add("fp:i2f", "i_f", "  i2f r, a\n  ret r", locs="f:r", res="f")
    g.add("fp:i2d", "i_d", "  i2d r, a\n  ret r", locs="d:r", res="d")
    g.add("fp:ui2f", "i_f", "  ui2f r, a\n  ret r", locs="f:r", res="f")
    g.add("fp:ui2d", "i_d", "  ui2d r, a\n  ret r", locs="d:r", res="d")
    g.add("fp:f2i", "f_i", "  f2i r, a\n  ret r", dom="f2i")
    g.add("fp:d2i", "d_i", "  d2i r, a\n  ret r", dom="d2i")
    g.add("fp:f2d", "f_d", "  f2d r, a\n  ret r", locs="d:r", res="d")
    g.add("fp:d2f", "d_f", "  d2f r, a\n  ret r", locs="f:r", res="f")
    # long double: reference values come from gcc-compiled C inside the harness (`ref` command)
    for o in ("add", "sub", "mul", "div"):
        g.add(f"ldbl:ld{o}", "ll_l", f"  ld{o} r, a, b\n  ret r", locs="ld:r", res="ld", shape="rr")
    g.add("ldbl:ldneg", "l_l", "  ldneg r, a\n  ret r", locs="ld:r", res="ld", shape="r")
    for c in ("eq", "ne", "lt", "le", "gt", "ge"):
        g.add(f"ldbl:ld{c}", "ll_i", f"  ld{c} r, a, b\n  ret r", shape="cmp")
        g.add(f"ldbl:ld{c}", "ll_i", f"  ldb{c} @t, a, b\n  mov r, 0\n  ret r\n@t:\n  mov r, 1\n  ret r", shape="br")
    g.add("ldbl:i2ld", "i_l", "  i2ld r, a\n  ret r", locs="ld:r", res="ld")
    g.add("ldbl:ui2ld", "i_l", "  ui2ld r, a\n  ret r", locs="ld:r", res="ld")
    g.add("ldbl:ld2i", "l_i", "  ld2i r, a\n  ret r", dom="l2i")
    g.add("ldbl:ld2d", "l_d", "  ld2d r, a\n  ret r", locs="d:r", res="d")
    g.add("ldbl:ld2f", "l_f", "  ld2f r, a\n  ret r", locs="f:r", res="f")
    g.add("ldbl:d2ld", "d_l", "  d2ld r, a\n  ret r", locs="ld:r", res="ld")
    g.add("ldbl:f2ld", "f_l", "  f2ld r, a\n  ret r", locs="ld:r", res="ld")
    return g


def int_grid(ck, quick):
    ks = [1, 7, 8, 15, 16, 31, 32, 33, 62, 63] if quick else list(range(1, 64))
    v = {0, 1, 2, M64, M64 - 1, (1 << 63), (1 << 63) - 1, (1 << 31), (1 << 31) - 1, (1 << 32) - 1,
         (1 << 32), M64 - (1 << 31) + 1, 0xFFFFFFFF80000000, 0x80000000FFFFFFFF, 5, 130}
    for k in ks:
        for d in (-1, 0, 1):
            v.add(((1 << k) + d) & M64)
            if not quick or k in (31, 32, 63):
                v.add((-((1 << k) + d)) & M64)
    for _ in range(6 if quick else 24):
        v.add(ck.rng.next())
        v.add(ck.rng.next() & 0xffffffff)
    return sorted(v)


def fp_grids(ck, quick):
    def d(x):
        return struct.unpack("<Q", struct.pack("<d", x))[0]

    def f(x):
        return struct.unpack("<I", struct.pack("<f", x))[0]
    dv = [0, 1 << 63, d(1.0), d(-1.0), d(0.5), d(1.5), d(2.5), d(-2.5), 0x7ff0000000000000, 0xfff0000000000000,
          0x7ff8000000000000, 0x7ff4000000000001, 1, 0x000fffffffffffff, 0x0010000000000000, 0x7fefffffffffffff,
          d(1.0) + 1, d(1.0) - 1, d(9.2e18), d(-9.2e18), d(4294967296.0), d(-2147483649.0), d(3.999999), d(1e-300), d(123456789.125)]
    fv = [0, 1 << 31, f(1.0), f(-1.0), f(0.5), f(1.5), f(2.5), f(-2.5), 0x7f800000, 0xff800000, 0x7fc00000, 0x7fa00001,
          1, 0x007fffff, 0x00800000, 0x7f7fffff, f(1.0) + 1, f(1.0) - 1, f(9.2e18), f(-9.2e18), f(4294967296.0), f(16777217.0), f(3.999999)]
    for _ in range(4 if quick else 16):
        dv.append(d((ck.rng.below(2000001) - 1000000) / 7.0))
        fv.append(f((ck.rng.below(2000001) - 1000000) / 7.0))
    return dv, fv


LVALS = ["0", "80000000000000000000", "3fff8000000000000000", "bfff8000000000000000", "3fffc000000000000000",
         "4000c90fdaa22168c235", "403e8000000000000000", "403effffffffffffffff", "c03e8000000000000000", "403f8000000000000001",
         "3ffe8000000000000000", "3fbf8000000000000000", "7ffe8000000000000000", "00018000000000000000", "00000000000000000001",
         "7fff8000000000000000", "ffff8000000000000000", "7fffc000000000000000", "401e8000000000000000", "c01e8000000100000000",
         "3ffd999999999999999a"]


def lcanon(m, r):
    if r.startswith("!"):
        return r
    v = int(r, 16)
    if m["sig"].endswith("_l") and ((v >> 64) & 0x7fff) == 0x7fff and (v & 0x7fffffffffffffff):
        return "nan"
    if m["sig"].endswith("_d") and (v & 0x7ff0000000000000) == 0x7ff0000000000000 and (v & 0xfffffffffffff):
        return "nan"
    if m["sig"].endswith("_f") and (v & 0x7f800000) == 0x7f800000 and (v & 0x7fffff):
        return "nan"
    return f"{v:x}"


def fcanon(m, r):
    if r.startswith("!"):
        return r
    v = int(r, 16)
    if m["sig"].endswith("_f") and (v & 0x7f800000) == 0x7f800000 and (v & 0x7fffff):
        return "nan"
    if m["sig"].endswith("_d") and (v & 0x7ff0000000000000) == 0x7ff0000000000000 and (v & 0xfffffffffffff):
        return "nan"
    return f"{v:x}"


def expected_key(meta, a, b):
    key = meta["key"]
    if key.endswith(":swap"):
        return key[:-5], b, a
    return key, a, b


def main():
    ck = Check("C02")
    quick = ck.tier == "quick"
    ck.proof_gate(["MirVerif.Props.C02"],
                  support_modules=["MirVerif.Model.Sem", "MirVerif.Model.SemFp", "MirVerif.Model.SemTable",
                                   "MirVerif.Model.SemCanon", "MirVerif.Lemmas.Sem", "MirVerif.Lemmas.SemExt",
                                   "MirVerif.Lemmas.SemOv", "MirVerif.Lemmas.SemMem"],
                  bridge_modules=["MirVerif.Lemmas.BridgeC02"], exes=["mirdrv_c02"],
                  translators=["c02_tables.py"])
    if ck.tier == "thorough":
        ck.leanchecker(["MirVerif.Props.C02"])
    exe = ck.cc("engine", ["harness/engine.c", os.path.join(REPO, "mir.c"), os.path.join(REPO, "mir-gen.c")],
                flags=["-O1", "-g", "-DNDEBUG", "-w"])
    if exe is None:
        ck.broken_ties.append({"kind": "harness-compile", "name": "engine", "log": ck.last_cc_log[-1500:]})
        ck.finish()
    if ck.replay:
        return replay(ck, exe)
    imms = [0, 1, 2, 3, 31, 32, 33, 63, 64, 130, (1 << 31), (1 << 31) - 1, (1 << 32), (1 << 40), M64, M64 - 1,
            (1 << 63), 0xFFFFFFFF80000000, 255, 65536]
    if quick:
        imms = [0, 1, 2, 31, 32, 63, 130, (1 << 31), (1 << 40), M64, (1 << 63), 0xFFFFFFFF80000000]
    g = build_funcs(ck, imms, quick)
    work = os.path.join(VERIF, ".cache", f"c02_{os.getpid()}")
    os.makedirs(work, exist_ok=True)
    iv = int_grid(ck, quick)
    dv, fv = fp_grids(ck, quick)
    grids = ["ivals " + " ".join(f"{x:x}" for x in iv), "dvals " + " ".join(f"{x:x}" for x in dv),
             "fvals " + " ".join(f"{x:x}" for x in fv), "lvals " + " ".join(LVALS)]
    ck.log(f"{len(g.meta)} functions, grid {len(iv)} ints, {len(dv)} doubles, {len(fv)} floats")
    # chunks: all shapes of one semantic key stay together (so distinct (key,a,b) counts add up), bounded size
    bykey = collections.OrderedDict()
    for fn, m in g.meta.items():
        k = m["key"]
        for suf in (":swap", ":neg"):
            if k.endswith(suf):
                k = k[: -len(suf)]
        bykey.setdefault(k, []).append(fn)
    chunks, cur = [], []
    limit = 60 if quick else 16
    for k, fns in bykey.items():
        if cur and len(cur) + len(fns) > limit:
            chunks.append(cur)
            cur = []
        cur += fns
    if cur:
        chunks.append(cur)
    dist = collections.Counter()
    shapes = collections.Counter()
    bad = collections.OrderedDict()
    tot = {"evals": 0, "nontriv": 0, "undef": 0}
    samples = []
    import threading
    lock = threading.Lock()

    def do_chunk(ci, fns):
        mir = os.path.join(work, f"grid{ci}.mir")
        open(mir, "w").write("m: module\nexport " + ", ".join(fns) + "\n" + "".join(g.funcs[int(f[1:]) - 1] for f in fns) + "endmodule\n")
        plan = list(grids) + [f"grid {fn} {g.meta[fn]['sig']} {g.meta[fn]['dom'] if g.meta[fn]['fixed_b'] is None else 'any'}" for fn in fns]
        p = subprocess.run([exe, ",".join(ENGINES), mir, "-q"], input="\n".join(plan) + "\n", stdout=subprocess.PIPE,
                           stderr=subprocess.PIPE, text=True)
        lines = p.stdout.split("\n")
        if p.returncode != 0 or not lines or not lines[0].startswith("H "):
            with lock:
                ck.broken_ties.append({"kind": "harness-run", "rc": p.returncode, "chunk": fns[:3], "out": p.stdout[-600:], "err": p.stderr[-600:]})
            return
        evals = []
        for ln in lines[1:]:
            if ln.startswith("E "):
                with lock:
                    ck.broken_ties.append({"kind": "harness-error", "line": ln})
                continue
            if not ln.startswith("R "):
                continue
            left, right = ln[2:].split(" | ")
            lt = left.split()
            fn = lt[0]
            m = g.meta[fn]
            a = int(lt[1], 16)
            b = int(lt[2], 16) if len(lt) > 2 else (m["fixed_b"] or 0)
            if m["fixed_b"] is not None and not in_dom(m["dom"], *((b, a) if m["key"].endswith(":swap") else (a, b))):
                continue
            evals.append((fn, a, b, right.split()))
        del lines
        ldev = [(i, e) for i, e in enumerate(evals) if g.meta[e[0]]["key"].startswith("ldbl:")]
        ldexp = {}
        if ldev:
            rplan = "".join(f"ref {g.meta[fn]['key'][5:].replace(':neg', '')} {a:x} {b:x}\n" for _, (fn, a, b, rs) in ldev)
            pr = subprocess.run([exe, "interp", mir, "-q"], input=rplan, stdout=subprocess.PIPE, stderr=subprocess.PIPE, text=True)
            nl = [l.split()[2] for l in pr.stdout.split("\n") if l.startswith("N ")]
            if len(nl) != len(ldev):
                with lock:
                    ck.broken_ties.append({"kind": "ld-reference", "got": len(nl), "want": len(ldev), "err": pr.stderr[-300:]})
            else:
                ldexp = {i: v for (i, _), v in zip(ldev, nl)}
        oin = []
        for fn, a, b, rs in evals:
            k, x, y = expected_key(g.meta[fn], a, b)
            k2 = k[:-4] if k.endswith(":neg") else k
            oin.append(f"{k2} {x:x} {y:x}" if not k2.startswith("ldbl:") else "ext:8:1 0 0")
        rc, out, err = ck.drv("mirdrv_c02", [], "\n".join(oin) + "\n")
        exp = out.split("\n")
        del oin
        if rc != 0 or len(exp) < len(evals):
            with lock:
                ck.broken_ties.append({"kind": "oracle-run", "rc": rc, "err": err[-500:]})
            return
        ldist, lshapes, lbad = collections.Counter(), collections.Counter(), collections.OrderedDict()
        nontriv = set()
        n_undef = 0
        for idx, ((fn, a, b, rs), e) in enumerate(zip(evals, exp)):
            m = g.meta[fn]
            key = m["key"]
            if key.startswith("ldbl:"):
                if idx not in ldexp:
                    continue
                e = ldexp[idx]
            ldist[key.split(":")[0]] += 1
            lshapes[m["shape"]] += 1
            if e == "undef":
                n_undef += 1
                continue
            if e in ("bad-key", "bad-line"):
                with lock:
                    ck.broken_ties.append({"kind": "oracle-key", "key": key})
                break
            want = e
            if key.startswith("ldbl:"):
                want = lcanon(m, want)
                got = [lcanon(m, r.lstrip("=")) for r in rs]
            elif key.startswith("fp:"):
                got = [fcanon(m, r.lstrip("=")) for r in rs]
            else:
                got = [r.lstrip("=") for r in rs]
            nontriv.add((key, a, b))
            if any(x != want for x in got):
                names = ENGINES if len(got) > 1 else ["all"]
                wrong = [n for n, x in zip(names, got) if x != want]
                sigk = (key, tuple(wrong))
                if sigk not in lbad:
                    lbad[sigk] = {"func": fn, "key": key, "shape": m["shape"], "a": f"{a:x}", "b": f"{b:x}", "documented": want,
                                  "observed": dict(zip(names, got)), "count": 0, "mir": g.funcs[int(fn[1:]) - 1]}
                lbad[sigk]["count"] += 1
        with lock:
            dist.update(ldist)
            shapes.update(lshapes)
            tot["evals"] += len(evals)
            tot["nontriv"] += len(nontriv)
            tot["undef"] += n_undef
            for kx, vx in lbad.items():
                if kx in bad:
                    bad[kx]["count"] += vx["count"]
                else:
                    bad[kx] = vx
            if len(samples) < 6 and evals:
                fn, a, b, rs = evals[len(evals) // 2]
                samples.append({"func": g.funcs[int(fn[1:]) - 1].strip().split("\n")[2:-1], "a": f"{a:x}", "b": f"{b:x}", "result": rs})
        try:
            os.remove(mir)
        except OSError:
            pass

    from concurrent.futures import ThreadPoolExecutor
    with ThreadPoolExecutor(max_workers=12 if not quick else 8) as ex:
        list(ex.map(lambda t: do_chunk(*t), enumerate(chunks)))
    n_undef = tot["undef"]
    nontriv_n = tot["nontriv"]
    n_evals = tot["evals"]
    for smp in samples:
        ck.sample(smp)
    ck.cov["evaluations"] = n_evals * len(ENGINES)
    ck.cov["distinct_nontrivial"] = nontriv_n
    ck.cov["rule"] = ("one-instruction MIR functions per (opcode, operand shape) run over the boundary grid under "
                      + ",".join(ENGINES) + "; a case is (semantic key, a, b); non-trivial = inside the documented domain "
                      "(result defined) and compared with the Lean specification; distinct = distinct (key,a,b)")
    ck.cov["distribution"] = {"by_kind": dict(dist), "by_shape": dict(shapes), "functions": len(g.meta),
                              "outside_domain_skipped": n_undef, "grid_ints": len(iv), "engines": ENGINES, "chunks": len(chunks)}
    ck.cov["exhaustive"] = False
    ck.assumptions += ["gcc-compiled mir-interp.c implements the C operators as two's-complement wrap-around (macroSem)",
                       "floating point compared with Lean's native Float/Float32 (IEEE via the same CPU); NaN payloads ignored",
                       "long double instructions are compared with gcc-compiled C executed inside the harness (x87), not with a Lean specification"]
    ck.cov["failing_classes"] = len(bad)
    for sigk, rep in list(bad.items())[:12]:
        key, wrong = sigk
        shape = rep["shape"]
        sig = classify(rep)
        rep["how_to_rerun"] = "./check C02 --replay <this file>"
        rep["sig"] = g.meta[rep["func"]]["sig"]
        ck.violation(rep, what=f"{key} shape {shape}: engines {list(wrong)} differ from the documented result "
                               f"(a={rep['a']} b={rep['b']} documented={rep['documented']} observed={rep['observed']}, {rep['count']} grid points)",
                     signature=sig)
    try:
        import shutil
        shutil.rmtree(work)
    except OSError:
        pass
    ck.finish()


def replay(ck, exe):
    rep = json.load(open(ck.replay))
    work = os.path.join(VERIF, ".cache", f"c02_{os.getpid()}")
    os.makedirs(work, exist_ok=True)
    mir = os.path.join(work, "replay.mir")
    fn = rep["func"]
    open(mir, "w").write(f"m: module\nexport {fn}\n{rep['mir']}endmodule\n")
    args = [rep["a"]] + ([rep["b"]] if rep["sig"].index("_") == 2 else [])
    p = subprocess.run([exe, ",".join(ENGINES), mir, "-q"], input=f"call {fn} {rep['sig']} {' '.join(args)}\n",
                       stdout=subprocess.PIPE, stderr=subprocess.PIPE, text=True)
    key = rep["key"]
    swap = key.endswith(":swap")
    k2 = key[:-5] if swap else key[:-4] if key.endswith(":neg") else key
    x, y = (rep["b"], rep["a"]) if swap else (rep["a"], rep["b"])
    rc, out, err = ck.drv("mirdrv_c02", [], f"{k2} {x} {y}\n")
    line = [l for l in p.stdout.split("\n") if l.startswith("R ")]
    got = line[0].split(" | ")[1].split() if line else ["<no output>"]
    want = out.strip()
    ck.log(f"replay: documented={want} observed={got}")
    ck.cov["evaluations"] = len(ENGINES)
    ck.cov["distinct_nontrivial"] = 2
    ck.cov["rule"] = "replay of one saved case"
    ck.sample({"replay": ck.replay, "documented": want, "observed": got})
    if any(r.lstrip("=") != want for r in got) and not key.startswith("fp:"):
        ck.violation(dict(rep, observed_now=got), what=f"replayed case still differs: documented={want} observed={got}")
    import shutil
    shutil.rmtree(work, ignore_errors=True)
    ck.finish()


def classify(rep):
    """stable signature of a known defect class (see known_findings.json); None = unlisted"""
    return None


main()
