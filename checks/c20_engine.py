#!/usr/bin/env python3
"""C20 'engine' with the command line of harness/engine.c, so that lib/progtie.py (batching, isolation,
shrinking) can drive it:

    c20_engine.py <interp,V1,V2,...> <file.mir> [-q] < plan

`interp` is MIR_interp; every other name is a gcc flag set (VARIANTS) with which the C text that
MIR_module2c emits for <file.mir> is compiled into a shared object and run by harness/c20_run.c.
Environment: C20_RUN = path of the compiled harness, C20_KEEP=1 keeps the scratch files.
Output: the harness' lines, or `E emit …` / `E compile …` when a stage before running fails
(the emitter runs under the harness' watchdog: output limit + alarm)."""
import os, subprocess, sys, shutil, tempfile

VARIANTS = {
    "O0": ["-O0"],
    "O1": ["-O1"],
    "O2": ["-O2"],
    "O2v": ["-O2", "-fwrapv"],
    "O2a": ["-O2", "-fno-strict-aliasing"],
    "O2w": ["-O2", "-fwrapv", "-fno-strict-aliasing"],
    "O0w": ["-O0", "-fwrapv", "-fno-strict-aliasing"],
}
# default language mode of gcc; the corpus stage of checks/c20.py passes -std=gnu2x to separate the
# `(...)` prototypes (finding C20:variadic-proto-without-named-param) from other compile errors
STD = os.environ.get("C20_STD", "").split()


def emit(run, mir, cfile, maxbytes=16 * 1024 * 1024, secs=20):
    """-> (rc, stdout) of the emitter under its watchdog"""
    try:
        p = subprocess.run([run, "emit", mir, cfile, str(maxbytes), str(secs)], stdout=subprocess.PIPE,
                           stderr=subprocess.PIPE, text=True, timeout=secs + 10)
        return p.returncode, p.stdout, p.stderr
    except subprocess.TimeoutExpired:
        return -99, "", "timeout"


def compile_variants(cfile, names, outdir, tag, std=STD):
    """compile all variants concurrently -> {name: so-path} , {name: error text}"""
    procs = {}
    for n in names:
        so = os.path.join(outdir, f"{tag}_{n}.so")
        procs[n] = (so, subprocess.Popen(["gcc", "-shared", "-fPIC", "-w", *std, *VARIANTS[n], cfile, "-o", so],
                                         stdout=subprocess.PIPE, stderr=subprocess.STDOUT, text=True))
    sos, errs = {}, {}
    for n, (so, p) in procs.items():
        out, _ = p.communicate()
        if p.returncode == 0:
            sos[n] = so
        else:
            errs[n] = out
    return sos, errs


def main():
    engines = sys.argv[1].split(",")
    mir = sys.argv[2]
    quiet = len(sys.argv) > 3 and sys.argv[3] == "-q"
    run = os.environ["C20_RUN"]
    plan = sys.stdin.read()
    work = tempfile.mkdtemp(prefix="c20e_", dir=os.path.dirname(os.path.abspath(mir)))
    try:
        cfile = os.path.join(work, "t.c")
        rc, out, err = emit(run, mir, cfile)
        if rc != 0:
            last = [l for l in out.split("\n") if l.startswith("M ")]
            print(f"E emit rc={rc} module={last[-1].split()[1] if last else '?'} {' '.join(l for l in out.split(chr(10)) if l.startswith('E '))} {err.strip()[-200:]}")
            return 0
        names = [e for e in engines if e != "interp"]
        sos, errs = compile_variants(cfile, names, work, "t")
        if errs:
            n, txt = sorted(errs.items())[0]
            first = [l for l in txt.split("\n") if "error" in l][:2]
            print(f"E compile {n}: {' | '.join(first)[:300]}")
            return 0
        p = subprocess.run([run, "run", mir, ",".join(f"{n}={sos[n]}" for n in names)] + (["-q"] if quiet else []),
                           input=plan, stdout=subprocess.PIPE, stderr=subprocess.PIPE, text=True)
        sys.stdout.write(p.stdout)
        sys.stderr.write(p.stderr[-2000:])
        return p.returncode
    finally:
        if not os.environ.get("C20_KEEP"):
            shutil.rmtree(work, ignore_errors=True)


if __name__ == "__main__":
    sys.exit(main())
