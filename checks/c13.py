"""C13 — imports bind to the most recently loaded export, for any load/link history.

Proof gate: MirVerif.Props.C13 (state machine of Model/Link.lean agrees with `lastDef`, a function
of the history alone).  Tie: every generated history (one API call per line) is run through
  * harness/c13_link.c   — the real mir.c/mir-gen.c/mir-interp.c through the public API,
  * mirdrv_c13           — the Lean state machine (must print the same lines: correspondence),
  * mirdrv_c13 spec      — what the property statement demands via `lastDef` (property oracle).
A line where impl != spec is a violation of the property on the real code; it is reported under a
known signature only if the Lean model predicts exactly the same behaviour (mechanism understood).
"""
import itertools, json, os, subprocess, sys, time
from concurrent.futures import ThreadPoolExecutor
from vf import Check, VERIF, REPO, CACHE, LEAN

ck = Check("C13")
ok = ck.proof_gate(["MirVerif.Props.C13"],
                   support_modules=["MirVerif.Model.Link", "MirVerif.Model.LinkSpec", "MirVerif.Lemmas.Link",
                                    "MirVerif.Lemmas.LinkInv", "MirVerif.Lemmas.LinkFrozen", "MirVerif.Lemmas.LinkObs"],
                   exes=["mirdrv_c13"])

SRC = ["harness/c13_link.c", os.path.join(REPO, "mir.c"), os.path.join(REPO, "mir-gen.c")]
exes = ck.cc_par([
    ("c13_link", SRC, ["-O1", "-g", "-w", "-DNDEBUG"]),     # as shipped by the CMake build
    ("c13_link_san", SRC, ["-O1", "-g", "-w", "-fsanitize=address,undefined", "-fno-sanitize-recover=all"]),
])
for k, v in exes.items():
    if v is None:
        ck.broken_ties.append({"kind": "harness-compile", "name": k, "log": getattr(ck, "last_cc_log", "")[-1500:]})
DRV = os.path.join(LEAN, ".lake", "build", "bin", "mirdrv_c13")
WORK = os.path.join(CACHE, "c13")
os.makedirs(WORK, exist_ok=True)

# ----------------------------------------------------------------------------- history generators
FUNC_NAMES, DATA_NAMES = ["f", "g", "h"], ["d", "e"]
# non-function definitions: V data | W data+data | X data+bss+data | B bss | A bss+data | Q ref | T ref+data |
# Z expr | Y expr+bss+data  (single item or head of a multi-item section; the model sees `.data`)
DATA_KINDS = "VWXBAQTZY"

ALPHABET = [
    ["load {i} Ef Df Ed Vd"],          # exports function f and data d
    ["load {i} Cf Rd"],                # imports f (immediate call) and d (data reference)
    ["load {i} Pf"],                   # imports f (call through a register)
    ["load {i} Ff Ef Df Cg"],          # forward + export + definition of f, imports g
    ["load {i} Ed Xd"],                # exports d as the head of a three-item section (data+bss+data)
    ["load {i} Cf Df"],                # malformed: import and definition of the same name
    ["ext f 1"], ["ext f N"], ["ext d 2"], ["redef 1"],   # N: external with address NULL
    ["link interp -", "call"], ["link interp -"], ["link gen 0", "call"],
    ["link null fd"], ["link lazy fg", "call"], ["call"],
    ["reload {first}"],                # MIR_load_module again on the first module object of the history
]


def instantiate(seq):
    out, first = [], None
    for k, op in enumerate(seq):
        for l in op:
            if "{first}" in l:
                if first is None: continue      # nothing loaded yet: the operation is dropped
                l = l.replace("{first}", str(first))
            l = l.format(i=k + 1)
            if first is None and l.startswith("load "): first = k + 1
            out.append(l)
    return out


def exhaustive(length, alphabet=ALPHABET):
    for seq in itertools.product(alphabet, repeat=length):
        yield instantiate(seq)


def decl_order(rng, n, defkind, exported):
    """one definition of n with export/forward declarations in a random order around it, possibly repeated
    (also after the definition)"""
    ds = [defkind + n]
    extra = (["E" + n] if exported else []) + ["F" + n] * rng.below(3) + (["E" + n] if exported and rng.chance(1, 3) else [])
    if not exported and not extra: extra = ["F" + n]
    for d in extra:
        ds.insert(rng.below(len(ds) + 1), d)
    return ds


def decl_order_sweep():
    """every sequence of up to 4 declarations over {export, forward, definition} of one name (function f and
    data d, at most one definition), loaded after an older exported version and before an importer"""
    out = []
    for name, dk, imp in (("f", "D", "C"), ("f", "D", "P"), ("d", "V", "R"), ("d", "X", "R")):
        for L in range(1, 5):
            for seq in itertools.product("EF" + "K", repeat=L):
                if seq.count("K") > 1: continue
                decls = " ".join((dk if c == "K" else c) + name for c in seq)
                old = "load 2 E%s %s%s" % (name, dk if dk != "X" else "V", name)
                out.append(["redef 1", old, "load 3 " + decls, "load 4 %s%s" % (imp, name), "link interp -", "call"])
                out.append(["load 3 " + decls, "load 4 %s%s" % (imp, name), "link gen -", "call"])
    return out


def rand_module(rng, ident):
    decls = []
    for n in FUNC_NAMES:
        r = rng.below(100)
        if r < 30: continue
        elif r < 50: decls += decl_order(rng, n, "D", True)
        elif r < 55: decls += ["D" + n]
        elif r < 60: decls += decl_order(rng, n, "D", False)
        elif r < 63: decls += ["E" + n]
        elif r < 65: decls += ["F" + n]
        elif r < 80: decls += ["C" + n]
        elif r < 96: decls += ["P" + n]
        elif r < 99: decls += ["C" + n, "C" + n]
        else: decls += [["C" + n, "D" + n], ["D" + n, "D" + n], ["E" + n, "C" + n], ["D" + n, "P" + n]][rng.below(4)]
    for n in DATA_NAMES:
        r = rng.below(100)
        if r < 40: continue
        elif r < 65:
            k = DATA_KINDS[rng.below(len(DATA_KINDS))]
            decls += decl_order(rng, n, k, True)
        elif r < 70: decls += [DATA_KINDS[rng.below(len(DATA_KINDS))] + n]
        elif r < 95: decls += ["R" + n]
        elif r < 99: decls += ["E" + n]
        else: decls += [["R" + n, "V" + n], ["V" + n, "V" + n]][rng.below(2)]
    # shuffle groups only mildly: rotate, so that relative order inside a name is kept
    if decls and rng.chance(1, 2):
        k = rng.below(len(decls))
        # stable interleave: move one decl of another name in between
        d = decls.pop(k)
        pos = rng.below(len(decls) + 1)
        # keep order among decls of the same name
        same = [j for j, x in enumerate(decls) if x[1] == d[1]]
        lo = max([j + 1 for j in same if j < k], default=0)
        hi = min([j for j in same if j >= k], default=len(decls))
        pos = min(max(pos, lo), hi)
        decls.insert(pos, d)
    return "load %d %s" % (ident, " ".join(decls)) if decls else "load %d Fh" % ident


def rand_history(rng, maxlen=50):
    n = 3 + rng.below(maxlen - 2)
    out = []
    if rng.chance(3, 4): out.append("redef 1")
    allnames = "".join(FUNC_NAMES + DATA_NAMES)
    k, loaded_ids = 0, []
    while len(out) < n:
        k += 1
        r = rng.below(100)
        if r < 45:
            out.append(rand_module(rng, len(out) + 1)); loaded_ids.append(len(out))
        elif r < 55:
            nm = rng.choice(FUNC_NAMES + DATA_NAMES)
            out.append("ext %s %s" % (nm, "N" if rng.chance(1, 6) else str(rng.below(4))))
        elif r < 60: out.append("redef %d" % (0 if rng.chance(1, 6) else 1))
        elif r < 67 and loaded_ids: out.append("reload %d" % loaded_ids[rng.below(len(loaded_ids))])
        elif r < 82:
            iface = ["interp"] * 35 + ["gen"] * 25 + ["lazy"] * 15 + ["null"] * 25
            iface = iface[rng.below(100)]
            q = rng.below(100)
            if q < 75: names = allnames
            elif q < 78: names = "-"
            elif q < 80: names = "0"
            else: names = "".join(c for c in allnames if rng.chance(1, 2)) or "-"
            out.append("link %s %s" % (iface, names))
            if iface != "null" and rng.chance(3, 5): out.append("call")
        else: out.append("call")
    return out


# ----------------------------------------------------------------------------- running
def run3(hists, exe, tag):
    """run harness, model and spec on a list of histories; returns per history (impl, model, spec) line lists"""
    inp = "".join("\n".join(h) + "\nreset\n" for h in hists)
    p = os.path.join(WORK, f"in_{os.getpid()}_{tag}.txt")
    with open(p, "w") as f: f.write(inp)
    outs = []
    for cmd in ([exe], [DRV], [DRV, "spec"]):
        with open(p) as f:
            r = subprocess.run(cmd, stdin=f, stdout=subprocess.PIPE, stderr=subprocess.PIPE, text=True)
        chunks, cur = [], []
        for line in r.stdout.split("\n"):
            if line == "reset":
                chunks.append(cur); cur = []
            elif line != "":
                cur.append(line)
        outs.append((chunks, r.returncode, r.stderr[-2000:]))
    os.remove(p)
    res = []
    for i in range(len(hists)):
        res.append(tuple(o[0][i] if i < len(o[0]) else ["<missing output>"] for o in outs))
    errs = [(cmd, o[1], o[2]) for cmd, o in zip(("impl", "model", "spec"), outs) if o[1] != 0 or len(o[0]) != len(hists)]
    return res, errs


def run_parallel(hists, exe, tag, nchunks=64):
    if not hists: return [], []
    size = max(1, (len(hists) + nchunks - 1) // nchunks)
    parts = [hists[i:i + size] for i in range(0, len(hists), size)]
    with ThreadPoolExecutor(max_workers=16) as ex:
        rs = list(ex.map(lambda a: run3(a[1], exe, f"{tag}{a[0]}"), enumerate(parts)))
    res, errs = [], []
    for r, e in rs:
        res += r; errs += e
    return res, errs


def line_eq_model(impl, model):
    if impl == model: return True
    return model == "err undefined_interface" and (impl.startswith("crash") or impl == "err MIR_call_op_error")


def parse_vals(line):
    """'ok m1:d:f=1,g=2 m3:q:' or 'ok m1:f=1' -> {(mod, name): value}"""
    d = {}
    for tok in line.split()[1:]:
        parts = tok.split(":")
        mod, vals = parts[0], parts[-1]
        for kv in vals.split(","):
            if "=" in kv:
                k, v = kv.split("=")
                d[(mod, k)] = v
        d[(mod, "#state")] = parts[1] if len(parts) == 3 else ""
    return d


def op_of_line(hist):
    """index of the history line that produced output line j (identity: one output line per input line)"""
    return hist


def classify(hist, j, impl, model, spec, tie_ok):
    """impl line j differs from what the property demands: name the mechanism"""
    il, sl = impl[j] if j < len(impl) else "<none>", spec[j]
    if not tie_ok: return "C13:binding-not-last-def" if sl.startswith("ok ") or sl == "ok" else "C13:error-mismatch"
    if sl.startswith("err") or il.startswith("err MIR_") and not sl.startswith("err"):
        return "C13:error-mismatch"
    # module loads / links before line j
    loads = {}
    null_linked, iface_of = set(), {}
    pending = []
    for k, l in enumerate(hist[:j + 1]):
        t = l.split()
        if t[0] == "load":
            loads["m" + t[1]] = t[2:]; pending.append("m" + t[1])
        elif t[0] == "reload":
            if "m" + t[1] not in pending: pending.append("m" + t[1])
        elif t[0] == "link":
            if k < len(impl) and k < j and not impl[k].startswith("ok"): continue   # a failed link changes nothing here
            if t[1] == "null":
                if k < j: null_linked.update(pending)
            else:
                for m in pending: iface_of[m] = t[1]
                pending = []
    if il.startswith("crash") or il == "err MIR_call_op_error":
        # an interpreted module reached a thunk that is not linked yet
        if any(i == "interp" and any(d[0] in "PR" for d in loads[m]) for m, i in iface_of.items()):
            return "C13:interp-late-rebinding"
        # machine code kept from the first generation of a reloaded module still calls/reads through what it
        # was bound to then (an external registered as NULL, a function whose module is unlinked again)
        reloaded_ids = {"m" + l.split()[1] for l in hist[:j] if l.startswith("reload ")}
        if any(i in ("gen", "lazy") and m in reloaded_ids for m, i in iface_of.items()):
            return "C13:reload-stale-mcode"
        return "C13:binding-not-last-def"
    iv, sv = parse_vals(il), parse_vals(sl)
    sigs = set()
    for key, v in sv.items():
        if key[1] == "#state" or iv.get(key) == v: continue
        m, n = key
        use = [d[0] for d in loads.get(m, []) if d[1] == n and d[0] in "CPR"]
        use = use[0] if use else "?"
        reloaded = any(l.split() == ["reload", m[1:]] for l in hist[:j])
        if use == "C" and m in null_linked: sigs.add("C13:null-link-stale-inline")
        elif reloaded and use == "C": sigs.add("C13:reload-stale-inline")
        elif reloaded and use in "PR" and iface_of.get(m) in ("gen", "lazy"): sigs.add("C13:reload-stale-mcode")
        elif use in "PR" and iface_of.get(m) == "interp": sigs.add("C13:interp-late-rebinding")
        else: sigs.add("C13:binding-not-last-def")
    for key in iv:
        if key not in sv: sigs.add("C13:binding-not-last-def")
    if "C13:binding-not-last-def" in sigs or not sigs: return "C13:binding-not-last-def"
    return sorted(sigs)[0]


IMPL_CTX = {}


def assert_only(hist, j, line):
    """assert-enabled flavour only: `assert (item->data == NULL)` (MIR_link, first loop) fires when a module
    holding an expr-data item is linked a second time after a NULL-interface link (MIR_interp left its
    func_desc in item->data).  The NDEBUG build, which is what CMake ships, behaves as the model says
    (checked by the NDEBUG flavour on the same histories), so this is not alarmed on (DESIGN section 6)."""
    if not line.startswith("crash") or j >= len(hist) or not hist[j].startswith("link"): return False
    outs = IMPL_CTX.get("impl", [])
    pend_expr, nulled, failed = False, False, False
    for k, l in enumerate(hist[:j]):
        t = l.split()
        o = outs[k] if k < len(outs) else ""
        if t[0] == "load" and o.startswith("ok") and any(d[0] in "ZY" for d in t[2:]): pend_expr = True
        elif t[0] == "link":
            if o.startswith("err MIR_undeclared_op_ref_error"):
                # same assert after a FAILED link: the aborted first loop left `item->data = 1` (inline flag)
                # on the functions it had already simplified, and the func_desc of interpreted expr
                # functions; the NDEBUG flavour simply simplifies them again
                failed = True
            elif o.startswith("ok"):
                failed = False
                if t[1] == "null": nulled = nulled or pend_expr
                else: pend_expr, nulled = False, False
    # ... and when a module object is in the queue again (reload): its interpreted functions still carry
    # their func_desc in item->data, and one that is queued twice is flagged by the first pass
    requeued = False
    for k, l in enumerate(hist[:j]):
        t = l.split()
        o = outs[k] if k < len(outs) else ""
        if t[0] == "reload" and o.startswith("ok"): requeued = True
        elif t[0] == "link" and t[1] != "null" and o.startswith("ok"): requeued = False
    return (pend_expr and nulled) or failed or requeued


def reload_after_failed_link(hist, impl, j):
    """known defect, outside the model: MIR_load_module on an existing module object calls
    finish_func_interpretation on item->data, which a MIR_link aborted by the error function has left as the
    inline flag (void *) 1 on the functions it had simplified -> free ((void *) 1)"""
    if j >= len(hist) or not hist[j].startswith("reload") or not impl[j].startswith("crash"): return False
    failed, loaded_before = False, False
    ident = hist[j].split()[1]
    seen = set()
    for k, l in enumerate(hist[:j]):
        t, o = l.split(), impl[k]
        if t[0] in ("load", "reload") and o.startswith("ok"): seen.add(t[1])
        elif t[0] == "link":
            if o.startswith("err MIR_undeclared_op_ref_error"):
                failed = True
                if ident in seen: loaded_before = True
            elif o.startswith("ok"): failed, loaded_before = False, False
    return failed and loaded_before


def judge(hist, impl, model, spec):
    """-> (tie_ok, first_tie_diff, spec_dev or None)"""
    if any(l.startswith("bad ") for l in impl + model + spec):
        return True, None, None          # not a history (the shrinker removed the load a reload refers to)
    for j in range(len(impl)):
        if reload_after_failed_link(hist, impl, j):
            t, td, _ = judge(hist[:j], impl[:j], model[:j], spec[:j] + ["any"])
            return t, td, {"line": j, "op": hist[j], "impl": impl[j], "spec": spec[j] if j < len(spec) else "-",
                           "signature": "C13:reload-after-failed-link"}
    IMPL_CTX["impl"] = impl
    for j, l in enumerate(impl):
        if assert_only(hist, j, l):
            stats["assert_only_null_link_expr"] = stats.get("assert_only_null_link_expr", 0) + 1
            impl, model, spec = impl[:j], model[:j], spec[:j] + ["any"]
            break
    tie_ok, tie_diff = True, None
    n = max(len(impl), len(model))
    for j in range(n):
        a = impl[j] if j < len(impl) else "<none>"
        b = model[j] if j < len(model) else "<none>"
        if not line_eq_model(a, b):
            tie_ok, tie_diff = False, {"line": j, "op": hist[j] if j < len(hist) else None, "impl": a, "model": b}
            break
    dev = None
    for j in range(len(spec)):
        s = spec[j]
        if s == "any": break
        if s == "skip":
            # calling a module bound to a function of a module that was reloaded and not linked again:
            # the statement is silent; go on only if the real code survived the call
            if j < len(impl) and impl[j].startswith("ok"): continue
            break
        a = impl[j] if j < len(impl) else "<none>"
        if a != s:
            dev = {"line": j, "op": hist[j] if j < len(hist) else None, "impl": a, "spec": s,
                   "signature": classify(hist, j, impl, model, spec, tie_ok)}
            break
    else:
        if len(impl) > len(spec) and not (spec and (spec[-1] == "any" or (spec[-1].startswith("err") and "undeclared_op_ref" not in spec[-1]))):
            dev = {"line": len(spec), "impl": impl[len(spec)], "spec": "<none>", "signature": "C13:error-mismatch"}
    return tie_ok, tie_diff, dev


def shrink(hist, exe, want_sig, is_tie):
    """greedy removal of history lines while the same kind of failure persists"""
    cur = list(hist)
    changed = True
    while changed and len(cur) > 1:
        changed = False
        cands = [cur[:k] + cur[k + 1:] for k in range(len(cur))]
        res, _ = run3(cands, exe, "shrink")
        for c, (i, m, s) in zip(cands, res):
            t, td, dev = judge(c, i, m, s)
            if (is_tie and not t and dev is None) or (not is_tie and dev is not None and dev["signature"] == want_sig):
                cur, changed = c, True
                break
    return cur


# ----------------------------------------------------------------------------- main
stats = {"ops": {}, "impl_errors": {}, "ifaces": {}, "lengths": {}, "decl_kinds": {}, "spec_deviations": {}, "effective_lengths": {},
         "spec_any": 0, "lines_compared": 0}
seen_nontrivial = set()
n_eval = 0
reported = set()


def history_stats(hist, impl):
    defs = {}
    texts = {}
    nontriv = False
    pend_imports = []
    for j, l in enumerate(hist):
        t = l.split()
        stats["ops"][t[0]] = stats["ops"].get(t[0], 0) + 1
        okline = j < len(impl) and impl[j].startswith("ok")
        if j < len(impl) and not impl[j].startswith("ok"):
            e = impl[j].split()[1] if impl[j].startswith("err") else impl[j]
            stats["impl_errors"][e] = stats["impl_errors"].get(e, 0) + 1
        if not okline:
            if t[0] == "link" and j < len(impl) and impl[j] == "err MIR_undeclared_op_ref_error":
                stats["continued_after_failed_link"] = stats.get("continued_after_failed_link", 0) + 1
                continue
            break
        if t[0] == "load":
            ds = t[2:]
            texts[t[1]] = ds
            for d in ds: stats["decl_kinds"][d[0]] = stats["decl_kinds"].get(d[0], 0) + 1
            for d in ds:
                if d[0] == "E" and any(x[1] == d[1] and x[0] in "D" + DATA_KINDS for x in ds):
                    defs[d[1]] = defs.get(d[1], 0) + 1
                if d[0] in "CPR": pend_imports.append(d[1])
        elif t[0] == "reload":
            ds = texts.get(t[1], [])
            for d in ds:
                if d[0] == "E" and any(x[1] == d[1] and x[0] in "D" + DATA_KINDS for x in ds):
                    defs[d[1]] = defs.get(d[1], 0) + 1
                if d[0] in "CPR": pend_imports.append(d[1])
        elif t[0] == "ext":
            defs[t[1]] = defs.get(t[1], 0) + 1
        elif t[0] == "link":
            stats["ifaces"][t[1]] = stats["ifaces"].get(t[1], 0) + 1
            if any(defs.get(n, 0) >= 2 for n in pend_imports): nontriv = True
            if t[1] != "null": pend_imports = []
    b = min(len(hist), 60) // 5 * 5
    stats["lengths"][str(b)] = stats["lengths"].get(str(b), 0) + 1
    return nontriv


def process(hists, exe, tag):
    global n_eval
    res, errs = run_parallel(hists, exe, tag)
    for e in errs:
        ck.broken_ties.append({"kind": "runner", "name": f"{tag}:{e[0]}", "rc": e[1], "log": e[2]})
    for hist, (impl, model, spec) in zip(hists, res):
        n_eval += 1
        stats["lines_compared"] += len(impl)
        if "any" in spec: stats["spec_any"] += 1
        if history_stats(hist, impl):
            seen_nontrivial.add("\n".join(hist))
        tie_ok, tie_diff, dev = judge(hist, impl, model, spec)
        nok = sum(1 for l in impl if l.startswith("ok"))
        b = min(nok, 60) // 5 * 5
        key = "effective_lengths_random" if tag in ("rnd", "san") and len(hist) != len(hists[-1]) or tag == "rnd" else "effective_lengths"
        stats.setdefault(key, {})
        stats[key][str(b)] = stats[key].get(str(b), 0) + 1
        if dev is not None:
            sig = dev["signature"]
            stats["spec_deviations"][sig] = stats["spec_deviations"].get(sig, 0) + 1
            if sig in reported: continue
            reported.add(sig)
            small = shrink(hist, exe, sig, False)
            (i2, m2, s2), = run3([small], exe, "rep")[0]
            t2, td2, dev2 = judge(small, i2, m2, s2)
            ck.violation({"stage": "tie", "theorem_or_correspondence": "impl vs lastDef spec (mirdrv_c13 spec)",
                          "input": small, "original_input": hist, "impl_output": i2, "model_output": m2,
                          "spec_output": s2, "deviation": dev2 or dev, "model_agrees_with_impl": t2,
                          "how_to_rerun": "write the `input` lines + `reset` to a file F; "
                                          "./check C13 --replay <this file>  (or: harness < F ; mirdrv_c13 spec < F)"},
                         what=f"{sig}: real linker output differs from the binding demanded by lastDef "
                              f"at `{(dev2 or dev).get('op')}`: impl `{(dev2 or dev)['impl']}` spec `{(dev2 or dev)['spec']}`",
                         signature=sig)
        elif not tie_ok:
            if "tie" in reported: continue
            reported.add("tie")
            small = shrink(hist, exe, None, True)
            (i2, m2, s2), = run3([small], exe, "rep")[0]
            t2, td2, dev2 = judge(small, i2, m2, s2)
            ck.broken_ties.append({"kind": "correspondence", "name": "c13_link vs Model/Link.lean",
                                   "input": small, "first_diff": td2 or tie_diff, "impl": i2, "model": m2})


def load_corpus():
    d = os.path.join(VERIF, "corpus", "C13")
    out = []
    if os.path.isdir(d):
        for f in sorted(os.listdir(d)):
            if f.endswith(".txt"):
                out.append([l.strip() for l in open(os.path.join(d, f)) if l.strip() and not l.startswith("#") and l.strip() != "reset"])
    return out


plain, san = exes.get("c13_link"), exes.get("c13_link_san")
if ck.replay:
    rp = json.load(open(ck.replay))
    hist = rp["input"]
    for exe in (plain, san):
        if exe is None: continue
        (impl, model, spec), = run3([hist], exe, "replay")[0]
        for j, l in enumerate(hist):
            print(f"{l:40s} | impl {impl[j] if j < len(impl) else '-':40s} | model {model[j] if j < len(model) else '-':40s} | spec {spec[j] if j < len(spec) else '-'}")
        process([hist], exe, "replay")
    ck.cov["evaluations"] = n_eval
    ck.finish()

if plain is not None and san is not None and os.path.exists(DRV):
    t = time.time()
    corpus = load_corpus()
    process(corpus, san, "corpus")
    ck.cov["corpus_replayed"] = len(corpus)
    thorough = ck.tier == "thorough"
    L = 5 if thorough else 4
    sweep = decl_order_sweep()
    process(sweep, plain, "ord")
    process(sweep, san, "ordsan")
    ck.stage("decl-order sweep", histories=len(sweep))
    ex = list(exhaustive(L))
    process(ex, plain, "ex")
    ck.stage("exhaustive", length=L, alphabet=len(ALPHABET), histories=len(ex), t_s=round(time.time() - t, 1))
    nr = 20000 if thorough else 2500
    rnd = [rand_history(ck.rng) for _ in range(nr)]
    process(rnd, plain, "rnd")
    # sanitizer flavour: every random history again + a sample of the exhaustive ones
    ns = 40000 if thorough else 2500
    step = max(1, len(ex) // ns)
    off = ck.rng.below(step)
    process(rnd[: (8000 if thorough else 1500)] + ex[off::step], san, "san")
    ck.stage("random+sanitizer", random=nr, t_s=round(time.time() - t, 1))
    for h in rnd[:3] + ex[len(ex) // 2: len(ex) // 2 + 2]:
        ck.sample(h)
    ck.cov["exhaustive"] = True
    ck.cov["exhaustive_scope"] = f"all {len(ALPHABET)}^{L} = {len(ex)} histories of {L} composite operations over the alphabet {ALPHABET}"

ck.cov["evaluations"] = n_eval
ck.cov["distinct_nontrivial"] = len(seen_nontrivial)
ck.cov["rule"] = ("history = list of API calls (load of a freshly built module / load_external / set redef permission / link "
                  "with null|interp|gen|lazy interface and a resolver / call of every linked entry).  Exhaustive over an "
                  "alphabet of composite operations + random histories of length <= 50 from VERIF_SEED.  Non-trivial = a "
                  "successful link whose pending modules import a name that was defined at least twice before "
                  "(redefinition before a link), counted on distinct history texts.")
ck.cov["distribution"] = stats
ck.assumptions += [
    "every `load` builds a fresh module object; `reload <id>` is MIR_load_module again on an existing object",
    "function names f,g,h are only called, data names d,e only read (a use of the wrong kind would crash the harness)",
    "entry functions are small, so the inline growth limits of process_inlines never apply; exported functions have 1 insn",
    "a call that reaches a thunk still redirected to undefined_interface is matched as {SIGSEGV, MIR_call_op_error}: "
    "the real code calls undefined_interface with a garbage ctx",
    "histories end at the first error reported through the error function (which longjmps), except that they "
    "continue after a failed MIR_link (undeclared_op_ref): relink, later loads and calls are compared too",
    "assert-enabled flavour: abort in `assert (item->data == NULL)` when a module with an expr-data item is linked "
    "again after a NULL-interface link is not compared (the NDEBUG flavour runs the same histories and agrees)",
    "non-function definitions of every kind (data/bss/ref/expr, single or head of a 2-3 item section) are one "
    "constructor `.data` in the model; the harness makes each read as the module id",
    "x86-64 generator at the default optimisation level; interpreter as built from mir-interp.c",
]
ck.finish()
