"""C16 — code generation leaves the MIR program intact and can be repeated.

Proof gate: MirVerif.Props.C16 (dup_closed, dup_frame, dup_iso, restore_identity, restore_wf,
gen_idempotent_addr, gen_history) about Model/DupRestore.lean.

Tie 1 (structural): harness/c16_struct.c calls the real _MIR_duplicate_func_insns /
_MIR_restore_func_insns on every function of mir-tests/*.mir, of `c2m -S` output for a sample of
c-tests and of generated modules, applies random edit scripts to the working copy, dumps the
structs after every phase; mirdrv_c16 does the same on the model; dumps are diffed after renaming
pointers by first occurrence.

Tie 2 (behavioural): harness/c16_behav.c executes plans (MIR_gen in any order with repetitions at
levels 0..3, eager / lazy / explicit generation, MIR_output_item snapshots, MIR_interp, calls,
later modules calling and inlining generated functions); facts are compared within the run, with a
canonical history and with a pure-interpretation twin.
"""
import json, os, re, shutil, subprocess, sys, hashlib, time, threading
from concurrent.futures import ThreadPoolExecutor
from vf import Check, VERIF, REPO, SplitMix
import c16_gen

ck = Check("C16")
QUICK = ck.tier == "quick"
WORK = os.path.join(VERIF, ".cache", f"c16work-{os.getpid()}")
os.makedirs(WORK, exist_ok=True)
ENV = dict(os.environ, ASAN_OPTIONS="detect_leaks=1:abort_on_error=0:allocator_may_return_null=1",
           UBSAN_OPTIONS="print_stacktrace=1")

_ctr_lock = threading.Lock()
DRV = os.path.join(VERIF, "lean", ".lake", "build", "bin", "mirdrv_c16")
KF1 = "C16:gen-after-interp"
KF2 = "C16:lref-cells-shared-by-engines"
KF3 = "C16:lazy-bb-keeps-generator-ir"
KF4 = "C16:opt-level-change-between-functions"
KF5 = "C16:ssa-name-collides-with-user-reg"
KF6 = "C16:global-call-clobbered-hard-reg-asserts"


import resource
OUT_CAP = 256 * 1024 * 1024      # bytes a child may write to any file, incl. its captured stdout/stderr
_run_ctr = [0]


def _limits(cpu):
    def f():
        resource.setrlimit(resource.RLIMIT_FSIZE, (OUT_CAP, OUT_CAP))
        resource.setrlimit(resource.RLIMIT_CPU, (cpu, cpu + 5))
        resource.setrlimit(resource.RLIMIT_CORE, (0, 0))
    return f


def run(cmd, inp=None, timeout=120, env=None, cwd=None):
    """run a child with a wall-clock timeout, a CPU limit and a cap on everything it writes: stdout and
    stderr go to files in the work directory (subject to RLIMIT_FSIZE) and are read back afterwards"""
    with _ctr_lock:
        _run_ctr[0] += 1
        k = _run_ctr[0]
    po, pe = os.path.join(WORK, f"o_{k}.txt"), os.path.join(WORK, f"e_{k}.txt")
    try:
        with open(po, "wb") as fo, open(pe, "wb") as fe:
            try:
                p = subprocess.run(cmd, input=inp.encode() if inp is not None else None, stdout=fo, stderr=fe,
                                   timeout=timeout, env=env or ENV, cwd=cwd, preexec_fn=_limits(int(timeout) + 10))
                rc = p.returncode
            except subprocess.TimeoutExpired:
                return -999, "", "timeout"
        with open(po, "rb") as f:
            out = f.read().decode(errors="replace")
        with open(pe, "rb") as f:
            err = f.read(4 * 1024 * 1024).decode(errors="replace")
        return rc, out, err
    finally:
        for q in (po, pe):
            try:
                os.remove(q)
            except OSError:
                pass


def wfile(name, text):
    p = os.path.join(WORK, name)
    with open(p, "w") as f:
        f.write(text)
    return p


_text_paths, _text_lock = {}, threading.Lock()


def path_for_text(text):
    """every distinct module text is written exactly once (read-only afterwards, shared by all jobs)"""
    h = hashlib.sha1(text.encode(errors="replace")).hexdigest()[:16]
    with _text_lock:
        if h not in _text_paths:
            _text_paths[h] = wfile(f"m_{h}.mir", text)
        return _text_paths[h]


# work directories left behind by killed runs
for d in os.listdir(os.path.join(VERIF, ".cache")):
    if d.startswith("c16work-") and d != os.path.basename(WORK):
        dp = os.path.join(VERIF, ".cache", d)
        try:
            if time.time() - os.path.getmtime(dp) > 3600:
                shutil.rmtree(dp, ignore_errors=True)
        except OSError:
            pass


# ----------------------------------------------------------------------------- proof gate
SUPPORT = ["MirVerif.Lemmas.DupRestoreWfCheck", "MirVerif.Model.DupRestore", "MirVerif.Lemmas.DupRestore", "MirVerif.Lemmas.DupRestoreSpec",
           "MirVerif.Lemmas.DupRestoreRegs", "MirVerif.Lemmas.DupRestoreEdits",
           "MirVerif.Lemmas.DupRestoreMain"]
proof_ok = ck.proof_gate(["MirVerif.Props.C16"], support_modules=SUPPORT, exes=["mirdrv_c16"])
REQUIRED = ["wf_of_check", "dup_closed", "dup_frame", "dup_iso", "restore_identity", "restore_wf",
            "gen_idempotent_addr", "gen_history"]
have = {t["name"].split(".")[-1] for t in ck.cov["theorems"]}
missing = [t for t in REQUIRED if t not in have]
if proof_ok and missing:
    ck.broken_ties.append({"kind": "missing-theorem", "name": ",".join(missing)})

# ----------------------------------------------------------------------------- harnesses
SAN = ["-O1", "-g", "-w", "-fsanitize=address"]   # UBSan trips on unaligned loads of mir-hash.h (not C16)
jobs = [("c16_struct", ["harness/c16_struct.c"], SAN),
        ("c16_behav", ["harness/c16_behav.c", os.path.join(REPO, "mir.c"), os.path.join(REPO, "mir-gen.c")],
         ["-O1", "-g", "-w", "-DNDEBUG", "-fsanitize=address"]),
        ("c16_c2m", [os.path.join(REPO, "c2mir/c2mir-driver.c"), os.path.join(REPO, "c2mir/c2mir.c"),
                     os.path.join(REPO, "mir.c"), os.path.join(REPO, "mir-gen.c")], ["-O0", "-w", "-DNDEBUG"])]
if not QUICK:
    jobs.append(("c16_behav_dbg", ["harness/c16_behav.c", os.path.join(REPO, "mir.c"),
                                   os.path.join(REPO, "mir-gen.c")], ["-O1", "-g", "-w"]))
exes = ck.cc_par(jobs)
for name, exe in exes.items():
    if exe is None and name != "c16_c2m":
        ck.broken_ties.append({"kind": "harness-compile", "name": name, "log": getattr(ck, "last_cc_log", "")[-1500:]})
STRUCT, BEHAV, C2M = exes.get("c16_struct"), exes.get("c16_behav"), exes.get("c16_c2m")
BEHAV_DBG = exes.get("c16_behav_dbg")
ck.stage("build", harnesses={k: bool(v) for k, v in exes.items()})

dist = {"struct": {}, "behav": {}, "corpus": {}}
ck.cov["distribution"] = dist

# ----------------------------------------------------------------------------- structural tie
PTR = re.compile(r"@[0-9a-f]+")


def canon_dump(lines):
    """rename pointers by first occurrence (the walk order is the same on both sides)"""
    names = {}

    def ren(m):
        t = m.group(0)
        if t not in names:
            names[t] = f"@{len(names)}"
        return names[t]
    return [PTR.sub(ren, l) for l in lines]


def parse_struct(out):
    """-> kinds table, [ {name, dumps: {D0..D3: [lines]}, chk: {...}, texts} ]"""
    kinds, funcs, cur, tag = {}, [], None, None
    it = iter(out.split("\n"))
    for l in it:
        if l.startswith("K "):
            _, n, k = l.split(" ")
            kinds[n] = k
        elif l.startswith("FUNC "):
            cur = {"name": l.split(" ")[1], "dumps": {}, "chk": None, "texts": []}
            funcs.append(cur)
        elif l in ("D0", "D1", "D2", "D3"):
            tag = l
            cur["dumps"][tag] = []
        elif l.startswith("CHK "):
            cur["chk"] = dict(kv.split("=") for kv in l.split(" ")[1:])
        elif l.startswith("TEXT"):
            cur["texts"].append(l)
        elif cur is not None and tag is not None:
            if l.startswith("END"):
                tag = None
            else:
                cur["dumps"][tag].append(l)
        elif cur is not None and cur["chk"] is not None:
            cur["texts"].append(l)
    return kinds, funcs


def model_input(d0, script):
    """driver commands for one function: D0 description, DUP, edits, RESTORE with dumps"""
    lines = []
    for l in d0:
        if l.split(" ")[0] in ("LK", "O", "W"):
            continue
        lines.append(l)
    lines += ["WF", "DUP", "DUMP"] + script + ["DUMP", "RESTORE", "DUMP", "PRINT"]
    return lines


def split_driver(out, wf):
    dumps, cur = [], []
    for l in out.split("\n"):
        if l.startswith("WF "):
            wf.append(l == "WF 1")
        elif l.startswith("END"):
            dumps.append((cur, l))
            cur = []
        elif l:
            cur.append(l)
    return dumps


def scripts_of(script_lines):
    res, cur = [], None
    for l in script_lines:
        if l == "S":
            cur = []
            res.append(cur)
        elif cur is not None:
            cur.append(l)
    return res


struct_stats = {"modules": 0, "functions": 0, "nontrivial": 0, "edits": 0, "mirerror": 0, "timeouts": 0,
                "with_labels": 0, "with_lrefs": 0, "with_switch": 0, "insns": 0, "edit_kinds": {}}
kinds_checked = [False]
MODEL_MAX_INSNS = 400
seen_struct = set()


def struct_case(mir_text, script_lines, link, label, how):
    """run one module through harness and model; returns list of problems (dicts)"""
    h = hashlib.sha1((mir_text + "\n".join(script_lines) + str(link)).encode()).hexdigest()[:16]
    mp = path_for_text(mir_text)
    sp = wfile(f"s_{h}.scr", "\n".join(script_lines) + "\n")
    rc, out, err = run([STRUCT, mp, sp] + (["link"] if link else []), timeout=120)
    probs = []
    if rc == -999:
        struct_stats["timeouts"] += 1
        return probs
    if "MIRERROR" in out:
        struct_stats["mirerror"] += 1      # the module is rejected by scan/load/link: not an input
        return probs
    kinds, funcs = parse_struct(out)
    def _rm_script():
        try:
            os.remove(sp)
        except OSError:
            pass
    if rc != 0 and "DONE" in out and "LeakSanitizer" in err and "AddressSanitizer: " not in err.replace("SUMMARY: AddressSanitizer", ""):
        # a leak: is it there without any duplicate/restore (then it is not about C16)?
        rc0, out0, err0 = run([STRUCT, mp, sp] + (["link"] if link else []), timeout=120, env=dict(ENV, C16_NODUP="1"))
        if rc0 != 0 and "LeakSanitizer" in err0:
            struct_stats["preexisting_leaks_outside_c16"] = struct_stats.get("preexisting_leaks_outside_c16", 0) + 1
            rc = 0
    if rc != 0 or "DONE" not in out:
        summ = [l for l in err.split("\n") if "ERROR:" in l or l.startswith("SUMMARY:")]
        probs.append({"kind": "crash", "rc": rc, "summary": " | ".join(summ)[:400], "stderr": err[:1500] + " ... " + err[-800:],
                      "stdout_tail": out[-400:], "func": funcs[-1]["name"] if funcs else None})
        return probs
    _rm_script()
    struct_stats["modules"] += 1
    # classification of every opcode (once per run is enough, it does not depend on the module)
    if not kinds_checked[0]:
        kinds_checked[0] = True
        rcd, o, e = run([DRV], inp="KINDS " + " ".join(kinds.keys()) + "\n", timeout=60)
        mk = dict(l.split(" ")[1:3] for l in o.split("\n") if l.startswith("K "))
        bad = {n: (kinds[n], mk.get(n)) for n in kinds if kinds[n] != mk.get(n)}
        dist["struct"]["opcodes_classified"] = len(kinds)
        if bad:
            probs.append({"kind": "kinds", "diff": bad})
    scripts = scripts_of(script_lines)
    inp_all, per = [], []
    for i, f in enumerate(funcs):
        if not all(t in f["dumps"] for t in ("D0", "D1", "D2", "D3")) or f["chk"] is None:
            probs.append({"kind": "incomplete", "func": f["name"]})
            continue
        scr = scripts[i % len(scripts)] if scripts else []
        bad = {k: v for k, v in f["chk"].items() if v != "1"}
        if bad:        # the property itself, observed on the real code (pointer identity, printed text)
            probs.append({"kind": "property", "func": f["name"], "func_index": i, "flags": bad,
                          "texts": f["texts"][:60], "script": scr})
        ninsn = sum(1 for l in f["dumps"]["D0"] if l.startswith("I "))
        if ninsn > MODEL_MAX_INSNS:      # the list-based model is quadratic: big functions are only C-checked
            struct_stats["c_only_big_functions"] = struct_stats.get("c_only_big_functions", 0) + 1
            continue
        d0 = canon_dump(f["dumps"]["D0"])
        inp_all += model_input(d0, scr)
        per.append((f, scr))
    rcd, o, e = run([DRV], inp="\n".join(inp_all) + "\n", timeout=300)
    if rcd != 0:
        probs.append({"kind": "driver", "rc": rcd, "stderr": e[-800:]})
        return probs
    wf = []
    dd = split_driver(o, wf)
    if len(wf) == len(per):
        for (f, _), ok in zip(per, wf):
            if ok:
                struct_stats["wf_holds"] = struct_stats.get("wf_holds", 0) + 1
            else:       # the theorems' hypothesis fails on a real function: recorded, the dumps are still compared
                struct_stats.setdefault("wf_fails", []).append(f"{label}:{f['name']}")
    if len(dd) != 4 * len(per):
        probs.append({"kind": "driver-output", "expected": 4 * len(per), "got": len(dd)})
        return probs
    for j, (f, scr) in enumerate(per):
        struct_stats["functions"] += 1
        d0 = f["dumps"]["D0"]
        ninsn = sum(1 for l in d0 if l.startswith("I "))
        struct_stats["insns"] += ninsn
        haslab = any(" label " in l for l in d0 if l.startswith("I "))
        haslr = any(l.startswith("LR ") for l in d0)
        hassw = any(l.startswith("I ") and l.split(" ")[2] == "switch" for l in d0)
        struct_stats["with_labels"] += haslab
        struct_stats["with_lrefs"] += haslr
        struct_stats["with_switch"] += hassw
        hasglob = any(l.startswith("F ") and re.search(r" ng=[1-9]", l) for l in d0)
        struct_stats["with_hard_reg_globals"] = struct_stats.get("with_hard_reg_globals", 0) + int(bool(hasglob))
        struct_stats["edits"] += len(scr)
        for e_ in scr:
            k = " ".join(e_.split(" ")[1:2] + ([e_.split(" ")[3]] if e_.split(" ")[1] == "ins" else []))
            struct_stats["edit_kinds"][k] = struct_stats["edit_kinds"].get(k, 0) + 1
        key = hashlib.sha1(("\n".join(canon_dump(d0)) + "|" + "\n".join(scr)).encode()).hexdigest()
        if key not in seen_struct and (haslab or scr):
            seen_struct.add(key)
            struct_stats["nontrivial"] += 1
        for t, (ml, endl) in zip(("D1", "D2", "D3"), dd[4 * j:4 * j + 3]):
            if "illegal=0" not in endl:
                probs.append({"kind": "illegal-edit", "func": f["name"], "phase": t})
            a, b = canon_dump(f["dumps"][t]), canon_dump(ml)
            if a != b:
                first = next((i for i in range(max(len(a), len(b)))
                              if i >= len(a) or i >= len(b) or a[i] != b[i]), None)
                probs.append({"kind": "dump-diff", "func": f["name"], "phase": t, "func_index": j,
                              "impl": a[first] if first is not None and first < len(a) else None,
                              "model": b[first] if first is not None and first < len(b) else None,
                              "script": scr})
                break
    return probs


def report_struct(probs, mir_text, script_lines, link, label):
    for p in probs:
        rep = {"stage": "tie", "theorem_or_correspondence": "structural: harness/c16_struct.c vs mirdrv_c16",
               "kind": "struct", "input": {"mir": mir_text, "script": script_lines, "link": link, "source": label},
               "problem": p,
               "how_to_rerun": "./check C16 --replay <this file>"}
        if p["kind"] in ("property", "crash"):
            # the real functions broke the property for this input (pointer identity / printed text / crash)
            ck.violation(rep, what=f"duplicate/restore on {label}: {p['kind']} func={p.get('func')} {p.get('flags', p.get('summary', ''))!s:.300}",
                         signature=None)
        elif p["kind"] == "dump-diff":
            # model != code.  Decide by the property itself: restored state (D3) must equal D0 on the implementation
            ck.violation(rep, what=f"model/implementation disagree after {p['phase']} on {label} func {p['func']}: "
                                   f"impl `{p['impl']}` model `{p['model']}`", signature=None)
        else:
            ck.broken_ties.append({"kind": "correspondence", "name": f"struct:{p['kind']}", "first_diff": p})
        return True
    return False


# ----------------------------------------------------------------------------- behavioural tie
def parse_behav(out):
    res = {"G": [], "R": [], "CT": [], "T": [], "CHANGED": [], "MT": [], "other": []}
    for l in out.split("\n"):
        w = l.split(" ")
        if w[0] == "G":
            res["G"].append((w[1], dict(kv.split("=") for kv in w[2:])))
        elif w[0] == "R" and len(w) == 8:
            res["R"].append({"id": w[1], "eng": w[2], "f": w[3], "n": w[4], "val": (w[5], w[6], w[7])})
        elif w[0] == "CT":
            res["CT"].append((w[1], dict(kv.split("=") for kv in w[2:])))
        elif w[0] == "T" and len(w) == 4:
            res["T"].append((w[1], w[2], w[3]))
        elif w[0] == "CHANGED":
            res["CHANGED"].append(l[:3000])
        elif w[0] == "MT":
            res["MT"].append((w[1], l.split(" ", 2)[2] if len(w) > 2 else ""))
        elif l:
            res["other"].append(l)
    return res


def run_plan(plan, tag, exe=None, timeout=30):
    pp = wfile(f"plan_{tag}_{threading.get_ident()}.txt", "\n".join(plan) + "\n")
    rc, out, err = run([exe or BEHAV, pp], timeout=timeout)
    if not os.environ.get("C16_KEEP_CANON"):
        try:
            os.remove(pp)
        except OSError:
            pass
    return rc, out, err


def intrinsic_problems(rc, out, err):
    """violations visible in one run of a plan"""
    probs = []
    r = parse_behav(out)
    if rc == -999:
        return [{"kind": "timeout"}], r
    if rc != 0 or "DONE" not in out:
        mirerr = [l for l in r["other"] if l.startswith("MIRERROR")]
        summ = [l for l in err.split("\n") if "ERROR:" in l or l.startswith("SUMMARY:")]
        probs.append({"kind": "crash" if not mirerr else "mir-error", "rc": rc, "detail": (mirerr or [""])[0],
                      "summary": " | ".join(summ)[:400], "stderr": err[:1500] + " ... " + err[-600:],
                      "last": out.strip().split("\n")[-3:]})
        return probs, r
    for name, g in r["G"]:
        if g["ret_addr"] != "1" or g["addr_same"] != "1" or g["first_ret_same"] != "1" or g["mc_set"] != "1":
            probs.append({"kind": "gen-addr", "func": name, "facts": g})
        elif g["was"] == "1" and (g["mc_same"] != "1" or g["ca_same"] != "1"):
            probs.append({"kind": "regenerated", "func": name, "facts": g})
    for tag, c in r["CT"]:
        if c["changed"] != "0":
            probs.append({"kind": "text-changed", "at": tag, "changed": r["CHANGED"][:3]})
            break
    groups = {}
    for x in r["R"]:
        groups.setdefault((x["eng"], x["f"], x["n"], x["id"]), set()).add(x["val"])
    for k, v in groups.items():
        if len(v) > 1:
            probs.append({"kind": "result-changed", "call": k, "values": sorted(v)})
            break
    return probs, r


def results_by(r, eng):
    d = {}
    for x in r["R"]:
        if x["eng"] == eng:
            d[(x["f"], x["n"], x["id"])] = x["val"]
    return d


def behav_case(files, plan, canon, interp, exe=None):
    """returns (problems, info)"""
    tag = hashlib.sha1("\n".join(plan).encode()).hexdigest()[:12]
    info = {"engine_disagree": 0, "canon_failed": 0}
    # reference histories first: if one-shot generation or pure interpretation of this program already
    # fails, the program hits a generator/interpreter defect outside C16 and is not an input here
    rcc, outc, errc = run_plan(canon, "c" + tag, exe)
    pc, rcn = intrinsic_problems(rcc, outc, errc)
    rci, outi, erri = run_plan(interp, "i" + tag, exe)
    pi, rin = intrinsic_problems(rci, outi, erri)
    if pc or pi:
        info["canon_failed"] = 1
        pr = (pc or pi)[0]
        fr = re.findall(r"#\d+ 0x\w+ in (\S+)", pr.get("stderr", ""))[:3]
        info["canon_reason"] = ("canonical" if pc else "pure-interp") + ":" + pr["kind"] + ":" + (",".join(fr) or str(pr.get("detail", ""))[:80] or "wild-jump")
        return [], info
    rc, out, err = run_plan(plan, "t" + tag, exe)
    probs, rt = intrinsic_problems(rc, out, err)
    if probs:
        return probs, info
    call_c, int_i = results_by(rcn, "call"), results_by(rin, "interp")
    contaminated = any(k in int_i and int_i[k] != v for k, v in call_c.items())
    if contaminated:
        info["engine_disagree"] = 1   # generated code and interpreter disagree already in the reference
    for k, v in results_by(rt, "call").items():
        if k in call_c and call_c[k] != v and not contaminated:
            probs.append({"kind": "call-differs-from-canonical", "call": k, "test": v, "canonical": call_c[k]})
            break
    for k, v in results_by(rt, "interp").items():
        if k in int_i and int_i[k] != v and not contaminated:
            probs.append({"kind": "interp-differs-from-pure-interp", "call": k, "test": v, "pure": int_i[k]})
            break
    # text of the base functions right after link == text in the never-generating twin
    t_t = {(t, f): h for t, f, h in rt["T"] if t == "s0"}
    t_i = {(t, f): h for t, f, h in rin["T"] if t == "s0"}
    diff = [k for k in t_t if k in t_i and t_t[k] != t_i[k]]
    if diff:
        probs.append({"kind": "text-differs-from-twin", "funcs": [f for _, f in diff][:5]})
    # a module built through the API while generation happened == the same module built without it
    for other, who in ((rcn, "canonical"), (rin, "pure-interp")):
        if rt["MT"] != other["MT"]:
            probs.append({"kind": "module-under-construction-differs", "from": who,
                          "test": rt["MT"][:2], "reference": other["MT"][:2]})
            break
    return probs, info


def shrink_plan(files, plan, canon, interp, kinds, exe=None, budget=40, allowed=None):
    """greedy removal of plan lines (not SCAN/LOADLINK/OPT head) keeping a problem of the same kind"""
    cur = list(plan)
    i = len(cur) - 1
    while i >= 0 and budget > 0:
        l = cur[i]
        if l.split(" ")[0] in ("GEN", "INTERP", "CALL", "CHECKTEXT", "OPT", "SNAP") and i > 0:
            cand = cur[:i] + cur[i + 1:]
            if allowed is not None and not allowed(cand):
                i -= 1
                continue
            budget -= 1
            p, _ = behav_case(files, cand, canon, interp, exe)
            if p and p[0]["kind"] in kinds:
                cur = cand
        i -= 1
    return cur


def pair_eval(plans):
    """plans: solo_A, solo_B, A_B, B_A, interp (one process each).  Every call result of the two orders must
    be the result of the function generated alone in a fresh context"""
    res, probs = {}, []
    for name, pl in plans.items():
        rc, out, err = run_plan(pl, "pair" + hashlib.sha1((name + "\n".join(pl)).encode()).hexdigest()[:10])
        res[name] = intrinsic_problems(rc, out, err)
    if res["solo_A"][0] or res["solo_B"][0] or res["interp"][0]:
        bad = [n for n in ("solo_A", "solo_B", "interp") if res[n][0]][0]
        return [], {"skipped": f"{bad}:{res[bad][0][0]['kind']}:{str(res[bad][0][0].get('detail', ''))[:80]}"}
    solo = {}
    solo.update(results_by(res["solo_A"][1], "call"))
    solo.update(results_by(res["solo_B"][1], "call"))
    ii = results_by(res["interp"][1], "interp")
    if any(k in ii and ii[k] != v for k, v in solo.items()):
        return [], {"skipped": "solo-differs-from-interp"}
    for name in [n for n in plans if n not in ("solo_A", "solo_B", "interp")]:
        p, r = res[name]
        if p:
            return [dict(p[0], order=name)], {}
        for k, v in results_by(r, "call").items():
            if k in solo and solo[k] != v:
                return [{"kind": "result-depends-on-generation-order", "order": name, "call": k, "got": v,
                         "generated_alone": solo[k]}], {}
    return [], {}


# ----------------------------------------------------------------------------- replay mode
def replay_case(case):
    """re-run one saved case; returns list of problems"""
    if case.get("kind") == "struct":
        i = case["input"]
        return struct_case(i["mir"], i["script"], i.get("link", False), i.get("source", "replay"), "replay")
    files = {}
    for name, text in case["files"].items():
        files[name] = wfile(f"r_{name}.mir", text)
    if case.get("kind") == "pair":
        return pair_eval({k: [re.sub(r"\$\{(\w+)\}", lambda m: files[m.group(1)], l) for l in v]
                          for k, v in case["plans"].items()})[0]

    def subst(pl):
        return [re.sub(r"\$\{(\w+)\}", lambda m: files[m.group(1)], l) for l in pl]
    exe = BEHAV_DBG if case.get("build") == "debug" and BEHAV_DBG else BEHAV
    if case.get("single"):
        rc, out, err = run_plan(subst(case["plan"]), "rp", exe)
        return intrinsic_problems(rc, out, err)[0]
    return behav_case(files, subst(case["plan"]), subst(case["canon"]), subst(case["interp"]), exe)[0]


def finish_and_clean():
    shutil.rmtree(WORK, ignore_errors=True)
    ck.finish()


if ck.replay:
    with open(ck.replay) as f:
        case = json.load(f)
    case = case.get("case", case)
    probs = replay_case(case)
    ck.cov["evaluations"] = 1
    ck.cov["rule"] = "replay of one saved case"
    if probs:
        ck.violation({"stage": "tie", "replayed": ck.replay, "problem": probs[0], "case": case},
                     what=f"replayed case still fails: {probs[0]['kind']}", signature=case.get("signature"))
    else:
        ck.log("replayed case passes")
    finish_and_clean()

if STRUCT is None or BEHAV is None or not proof_ok:
    finish_and_clean()

# ----------------------------------------------------------------------------- corpus of past failures / known findings
corpus_dir = os.path.join(VERIF, "corpus", "C16")
kf_open = {KF1: False, KF2: False, KF3: False, KF4: False, KF5: False, KF6: False}
n_corpus = 0
for fn in sorted(os.listdir(corpus_dir)) if os.path.isdir(corpus_dir) else []:
    if not fn.endswith(".json"):
        continue
    with open(os.path.join(corpus_dir, fn)) as f:
        case = json.load(f)
    n_corpus += 1
    probs = replay_case(case)
    sig = case.get("signature")
    if probs:
        if sig in kf_open:
            kf_open[sig] = True
        ck.violation({"stage": "tie", "theorem_or_correspondence": "behavioural: harness/c16_behav.c",
                      "corpus_case": fn, "case": case, "problem": probs[0],
                      "how_to_rerun": f"./check C16 --replay corpus/C16/{fn}"},
                     what=f"corpus case {fn} fails: {probs[0]['kind']} {str(probs[0].get('detail', probs[0].get('stderr', '')))[-200:]}",
                     signature=sig)
ck.cov["corpus_replayed"] = n_corpus
ck.stage("corpus", replayed=n_corpus, open_known=[k for k, v in kf_open.items() if v])

# ----------------------------------------------------------------------------- inputs
rng = ck.rng
t_in = time.time()
modules = []      # (label, text)
for fn in sorted(os.listdir(os.path.join(REPO, "mir-tests"))):
    if fn.endswith(".mir"):
        with open(os.path.join(REPO, "mir-tests", fn), errors="replace") as f:
            modules.append((f"mir-tests/{fn}", f.read()))
n_mirtests = len(modules)

csrc = []
for d in ["new", "lacc", "andrewchambers_c", "gcc", "mir", "havoc"]:
    dd = os.path.join(REPO, "c-tests", d)
    if os.path.isdir(dd):
        csrc += [os.path.join(dd, f) for f in sorted(os.listdir(dd)) if f.endswith(".c")]
n_c_total = len(csrc)
if QUICK:
    pick = []
    pool = list(csrc)
    for _ in range(min(150, len(pool))):
        pick.append(pool.pop(rng.below(len(pool))))
    # register-asm variables become `global` (hard-register) variables: always present
    pick += [c for c in csrc if os.path.basename(c) == "jcall.c" and c not in pick]
    csrc = sorted(pick)


def c2m_one(path):
    out = os.path.join(WORK, "c_" + hashlib.sha1(path.encode()).hexdigest()[:12] + ".mir")
    rc, o, e = run([C2M, "-S", os.path.basename(path), "-o", out], timeout=30, env=dict(os.environ),
                   cwd=os.path.dirname(path))
    if rc != 0 or not os.path.exists(out):
        try:
            os.remove(out)
        except OSError:
            pass
        return None
    with open(out, errors="replace") as f:
        text = f.read()
    os.remove(out)
    return (os.path.relpath(path, REPO), text)


n_c2m_ok = 0
if C2M:
    with ThreadPoolExecutor(max_workers=16) as ex:
        for r in ex.map(c2m_one, csrc):
            if r is not None and "func" in r[1]:
                modules.append(r)
                n_c2m_ok += 1
else:
    ck.broken_ties.append({"kind": "harness-compile", "name": "c16_c2m", "log": getattr(ck, "last_cc_log", "")[-800:]})
dist["corpus"] = {"mir_tests": n_mirtests, "c_sources_total": n_c_total, "c_sources_tried": len(csrc),
                  "c2m_S_ok": n_c2m_ok}

progs = [c16_gen.ProgGen(rng, i, nbase=4 + rng.below(3), nlate=1 + rng.below(2),
                         two_base_modules=rng.chance(2, 3)) for i in range(12 if QUICK else 120)]
mixed = [c16_gen.ProgGen(rng, 1000 + i, nbase=5, nlate=1, two_base_modules=False, flavour="mixed")
         for i in range(4 if QUICK else 20)]
for p in progs + mixed:
    for (mname, text, names, late) in p.modules:
        if not late:          # late modules import functions and cannot be loaded alone
            modules.append((f"generated/{mname}", text))
ck.stage("inputs", modules=len(modules), seconds=round(time.time() - t_in, 1))

# ----------------------------------------------------------------------------- run structural tie
t_s = time.time()


def struct_job(arg):
    label, text, script, link = arg
    return arg, struct_case(text, script, link, label, "generated")


sjobs = []
for label, text in modules:
    reps = 1 if QUICK else 3
    for k in range(reps):
        script = c16_gen.edit_script(rng, nfuncs=4, maxlen=14)
        # corpus modules are also run in linked (simplified) form; imports resolve to a dummy address
        link = (k % 2 == 1) if not QUICK else rng.chance(1, 2)
        if label.startswith("generated/") and "import\tf" in text:
            link = False          # second base module imports the first: cannot be linked alone
        sjobs.append((label, text, script, link))
# hand-made scripts that always hit label insertion, switch, lref rewiring, temp regs
fixed = ["S", "E newtemp i64", "E ins 1 label", "E ins 2 switch 1 0 1", "E lref 0 0 1", "E ins 0 jmp 2",
         "E del 3", "E setop 2 1 lab 1", "E newtemp d", "E addreg i64 zz", "E move 0 5", "E setdata 1 0"]
for label, text in modules[:n_mirtests] + [m for m in modules if m[0].startswith("generated/")]:
    sjobs.append((label, text, fixed, False))
struct_failed = False
with ThreadPoolExecutor(max_workers=16) as ex:
    for (label, text, script, link), probs in ex.map(struct_job, sjobs):
        if probs and not struct_failed:
            struct_failed = report_struct(probs, text, script, link, label) or struct_failed
dist["struct"].update(struct_stats)
if struct_stats.get("wf_fails"):
    struct_stats["wf_fails"] = sorted(set(struct_stats["wf_fails"]))[:50]
ck.stage("structural", seconds=round(time.time() - t_s, 1), **{k: v for k, v in struct_stats.items() if k not in ("edit_kinds", "wf_fails")})
if struct_stats["functions"] == 0:
    ck.broken_ties.append({"kind": "correspondence", "name": "structural tie evaluated no function"})

# ----------------------------------------------------------------------------- behavioural: corpus modules
t_b = time.time()
bstats = {"corpus_plans": 0, "corpus_funcs_generated": 0, "corpus_regen": 0, "corpus_skipped_error": 0,
          "corpus_timeouts": 0, "gen_plans": 0, "actions": {}, "engine_disagree": 0, "levels": {}, "ifaces": {},
          "avoiding": [k for k, v in kf_open.items() if v]}
behav_failed = [False]
viol_lock = []


def funcs_of(text):
    return re.findall(r"^([A-Za-z_.$][\w.$]*):\s*func\b", text, flags=re.M)


def corpus_plan(label, text, level, iface, seed):
    r = SplitMix(seed)
    path = path_for_text(text)
    fs = funcs_of(text)
    plan = [f"OPT {level}", f"SCAN {path}", f"LOADLINK {iface}", "SNAP s0"]
    order = list(fs)
    for i in range(len(order) - 1, 0, -1):        # any order
        j = r.below(i + 1)
        order[i], order[j] = order[j], order[i]
    for f in order:
        plan.append(f"GEN {f}")
        if r.chance(1, 3):
            plan.append(f"GEN {r.choice(fs)}")      # repetition, possibly of one generated earlier
        if r.chance(1, 6):
            plan.append(f"CHECKTEXT c{len(plan)}")
    plan += ["CHECKTEXT end", "GENALL", "CHECKTEXT end2"]
    twin = [f"OPT {level}", f"SCAN {path}", "LOADLINK interp", "SNAP s0"]
    return plan, twin, path, len(fs)


def corpus_job(arg):
    label, text, level, iface, seed = arg
    plan, twin, path, nf = corpus_plan(label, text, level, iface, seed)
    rc, out, err = run_plan(plan, "cp" + hashlib.sha1((label + str(level) + iface).encode()).hexdigest()[:10], timeout=120)
    probs, r = intrinsic_problems(rc, out, err)
    if probs and probs[0]["kind"] == "timeout":
        return arg, "timeout", None, None
    if probs and probs[0]["kind"] == "mir-error" and "phase=run" not in probs[0]["detail"] and "phase=finish" not in probs[0]["detail"]:
        return arg, "skip", None, None        # rejected at scan/load/link: not an input of this property
    if probs and probs[0]["kind"] in ("crash", "mir-error"):
        # does plain one-shot generation in module order fail too?  then it is a generator defect on this
        # module (C01 scope), not a consequence of order / repetition / restoring
        simple = [f"OPT {level}", f"SCAN {path}", "LOADLINK interp", "GENALL"]
        rc1, out1, err1 = run_plan(simple, "cs" + hashlib.sha1((label + str(level)).encode()).hexdigest()[:10], timeout=120)
        if rc1 != 0 or "DONE" not in out1:
            return arg, "gencrash", None, None
    if not probs and iface != "interp":
        rc2, out2, err2 = run_plan(twin, "ct" + hashlib.sha1((label + str(level)).encode()).hexdigest()[:10], timeout=120)
        if rc2 == 0:
            r2 = parse_behav(out2)
            a = {f: h for t, f, h in r["T"]}
            b = {f: h for t, f, h in r2["T"]}
            diff = [f for f in a if f in b and a[f] != b[f]]
            if diff:
                probs.append({"kind": "text-differs-from-twin", "funcs": diff[:5]})
    return arg, "ok", probs, (len(r["G"]), sum(1 for _, g in r["G"] if g["was"] == "1"), plan, twin, path)


cjobs = []
for label, text in modules:
    if label.startswith("generated/"):
        continue
    if not funcs_of(text):
        continue
    levels = [rng.below(4)] if QUICK else [0, 1, 2, 3]
    for lv in levels:
        iface = rng.choice(["interp", "gen", "lazy"])
        cjobs.append((label, text, lv, iface, rng.next()))
with ThreadPoolExecutor(max_workers=16) as ex:
    for arg, status, probs, extra in ex.map(corpus_job, cjobs):
        label, text, lv, iface, seed = arg
        if status == "timeout":
            bstats["corpus_timeouts"] += 1
            continue
        if status == "skip":
            bstats["corpus_skipped_error"] += 1
            continue
        if status == "gencrash":
            bstats.setdefault("corpus_generator_crash_outside_c16", []).append(f"{label} -O{lv}")
            continue
        ng, nre, plan, twin, path = extra
        bstats["corpus_plans"] += 1
        bstats["corpus_funcs_generated"] += ng - nre
        bstats["corpus_regen"] += nre
        bstats["levels"][str(lv)] = bstats["levels"].get(str(lv), 0) + 1
        bstats["ifaces"][iface] = bstats["ifaces"].get(iface, 0) + 1
        if probs and not behav_failed[0]:
            behav_failed[0] = True
            case = {"kind": "behav", "single": True, "files": {"m": text},
                    "plan": [l.replace(path, "${m}") for l in plan], "source": label}
            ck.violation({"stage": "tie", "theorem_or_correspondence": "behavioural: harness/c16_behav.c on repository corpus",
                          "case": case, "problem": probs[0], "input": {"module": label, "level": lv, "interface": iface},
                          "how_to_rerun": "./check C16 --replay <this file>"},
                         what=f"{label} -O{lv} {iface}: {probs[0]['kind']} {str(probs[0])[:300]}")

# ----------------------------------------------------------------------------- behavioural: generated programs
samples = []
for pi, prog in enumerate(progs):
    files, texts = {}, {}
    for (mname, text, names, late) in prog.modules:
        files[mname] = wfile(f"g_{mname}.mir", text)
        texts[mname] = text
    combos = [(lv, iface) for lv in (0, 1, 2, 3) for iface in ("interp", "gen", "lazy")]
    if QUICK:
        combos = [combos[(pi * 5 + k * 7) % 12] for k in range(6)]
    for lv, iface in combos:
        if behav_failed[0]:
            break          # one minimised failing input is enough; keep the run short
        late_iface = rng.choice(["interp", "gen", "lazy"])
        plan, canon, interp, st = c16_gen.make_plans(rng, prog, files, lv, iface, late_iface,
                                                     kf_open[KF1], kf_open[KF2], nact=16 if QUICK else 30)
        for k, v in st.items():
            bstats["actions"][k] = bstats["actions"].get(k, 0) + v
        bstats["gen_plans"] += 1
        bstats["levels"][str(lv)] = bstats["levels"].get(str(lv), 0) + 1
        bstats["ifaces"][iface] = bstats["ifaces"].get(iface, 0) + 1
        probs, info = behav_case(files, plan, canon, interp)
        bstats["engine_disagree"] += info["engine_disagree"]
        bstats["canon_failed"] = bstats.get("canon_failed", 0) + info["canon_failed"]
        if info.get("canon_reason"):
            rs = bstats.setdefault("canon_fail_reasons", {})
            rs[info["canon_reason"]] = rs.get(info["canon_reason"], 0) + 1
            if os.environ.get("C16_KEEP_CANON"):
                shutil.copytree(WORK, os.environ["C16_KEEP_CANON"], dirs_exist_ok=True)
        if len(samples) < 3:
            samples.append({"level": lv, "iface": iface, "late_iface": late_iface,
                            "plan": [re.sub(r"\S*/g_", "g_", l) for l in plan[:40]]})
        if probs and not behav_failed[0]:
            behav_failed[0] = True
            kinds = {probs[0]["kind"]}
            small = shrink_plan(files, plan, canon, interp, kinds,
                                allowed=lambda pl: c16_gen.plan_allowed(prog, pl, kf_open[KF1], kf_open[KF2]))
            p2, _ = behav_case(files, small, canon, interp)
            if not p2:
                small, p2 = plan, probs

            def unsub(pl):
                out = []
                for l in pl:
                    for m, pth in files.items():
                        l = l.replace(pth, "${" + m + "}")
                    out.append(l)
                return out
            case = {"kind": "behav", "files": texts, "plan": unsub(small), "canon": unsub(canon),
                    "interp": unsub(interp)}
            ck.violation({"stage": "tie", "theorem_or_correspondence": "behavioural: harness/c16_behav.c on generated program",
                          "case": case, "problem": p2[0], "input": {"level": lv, "interface": iface, "late_interface": late_iface},
                          "model_output": "gen_history / restore_identity: text, results and entry address independent of the history",
                          "impl_output": p2[0], "how_to_rerun": "./check C16 --replay <this file>"},
                         what=f"generated program {pi} -O{lv} {iface}/{late_iface}: {p2[0]['kind']} {str(p2[0])[:300]}")
# ----------------------------------------------------------------------------- behavioural: generation while a module is under construction
om = {"plans": 0, "kinds": {}, "canon_failed": 0}
om_combos = [(k, lv, mode, pos) for k in c16_gen.BUILTIN_KINDS for lv in (0, 1, 2, 3)
             for mode in ("lazy-call", "gen-under-interp", "gen-under-lazy") for pos in ("first", "between", "infunc")]
if QUICK:       # every kind x mode x position once, levels rotating
    om_combos = [c for i, c in enumerate(c for c in om_combos if c[1] == 0)]
    om_combos = [(k, (i + rng.below(4)) % 4, mode, pos) for i, (k, _, mode, pos) in enumerate(om_combos)]
for kind, lv, mode, pos in om_combos:
    if behav_failed[0]:
        break
    text, _ = c16_gen.builtin_module(kind)
    files = {"mu": path_for_text(text)}
    plan, canon, interp = c16_gen.open_module_plans(kind, files["mu"], lv, mode, pos, interp_ok=not kf_open[KF1])
    probs, info = behav_case(files, plan, canon, interp)
    om["plans"] += 1
    om["kinds"][kind] = om["kinds"].get(kind, 0) + 1
    om["canon_failed"] += info["canon_failed"]
    if info.get("canon_reason"):
        om.setdefault("canon_fail_reasons", {}).setdefault(info["canon_reason"], 0)
        om["canon_fail_reasons"][info["canon_reason"]] += 1
    if probs:
        behav_failed[0] = True
        sub = lambda pl: [l.replace(files["mu"], "${mu}") for l in pl]
        case = {"kind": "behav", "files": {"mu": text}, "plan": sub(plan), "canon": sub(canon), "interp": sub(interp)}
        ck.violation({"stage": "tie", "theorem_or_correspondence": "behavioural: harness/c16_behav.c, generation while a module is under construction",
                      "case": case, "problem": probs[0], "input": {"builtin": kind, "level": lv, "mode": mode, "position": pos},
                      "model_output": "generation changes nothing but the generated function's code fields (and the helper items of its own module): the module being built is completed exactly as without the generation",
                      "impl_output": probs[0], "how_to_rerun": "./check C16 --replay <this file>"},
                     what=f"generation of a {kind} function ({mode}, -O{lv}) inside MIR_new_module..MIR_finish_module ({pos}): {probs[0]['kind']} {str(probs[0].get('detail', probs[0]))[:300]}")
bstats["open_module"] = om

# ----------------------------------------------------------------------------- behavioural: modules of many lazily generated functions
from concurrent.futures import ThreadPoolExecutor as _TPE
mm = {"plans": 0, "ifaces": {}, "canon_failed": 0, "sizes": [40, 80]}
mm_jobs = []
for n in range(40, 81):
    ifs = ["lazy", "lazybb"] if not QUICK else (["lazy", "lazybb"] if n % 4 == rng.below(4) else ["lazy"])
    for iface in ifs:
        mm_jobs.append((n, iface, rng.below(4), rng.below(1000)))


def mm_job(j):
    n, iface, lv, seed = j
    text = c16_gen.many_module(n, seed)
    files = {"mm": path_for_text(text)}
    plan, canon, interp = c16_gen.many_plans(n, files["mm"], lv, iface, c16_gen_rng(seed), calls_only=(iface == "lazybb" and kf_open[KF3]))
    probs, info = behav_case(files, plan, canon, interp)
    return j, text, files, (plan, canon, interp), probs, info


def c16_gen_rng(seed):
    return type(rng)(seed)


if not behav_failed[0]:
    with _TPE(max_workers=16) as ex:
        for j, text, files, (plan, canon, interp), probs, info in ex.map(mm_job, mm_jobs):
            mm["plans"] += 1
            mm["ifaces"][j[1]] = mm["ifaces"].get(j[1], 0) + 1
            mm["canon_failed"] += info["canon_failed"]
            if info.get("canon_reason"):
                mm.setdefault("canon_fail_reasons", {}).setdefault(info["canon_reason"], 0)
                mm["canon_fail_reasons"][info["canon_reason"]] += 1
            if probs and not behav_failed[0]:
                behav_failed[0] = True
                sub = lambda pl: [l.replace(files["mm"], "${mm}") for l in pl]
                case = {"kind": "behav", "files": {"mm": text}, "plan": sub(plan), "canon": sub(canon), "interp": sub(interp)}
                ck.violation({"stage": "tie", "theorem_or_correspondence": "behavioural: harness/c16_behav.c, module of many lazily generated functions",
                              "case": case, "problem": probs[0], "input": {"functions": j[0], "interface": j[1], "level": j[2]},
                              "model_output": "gen_history: every call and every repeated MIR_gen returns the same address and the same results",
                              "impl_output": probs[0], "how_to_rerun": "./check C16 --replay <this file>"},
                             what=f"module of {j[0]} functions, {j[1]} interface, -O{j[2]}: {probs[0]['kind']} {str(probs[0].get('summary') or probs[0].get('detail') or probs[0])[:300]}")
bstats["many_functions"] = mm

# ----------------------------------------------------------------------------- behavioural: the same module loaded and linked again
rl = {"plans": 0, "pairs": {}, "canon_failed": 0}
rl_jobs = []
for a in ("interp", "gen", "lazy"):
    for b in ("interp", "gen", "lazy"):
        for rep in range(2 if QUICK else 6):
            third = [rng.choice(["interp", "gen", "lazy"])] if rng.chance(1, 2) else []
            rl_jobs.append((5 + rng.below(6), [a, b] + third, rng.below(4), rng.below(100000)))


def rl_job(j):
    n, ifs, lv, seed = j
    text = c16_gen.many_module(n, seed, export=False)
    files = {"mm": path_for_text(text)}
    plan, canon, interp = c16_gen.reload_plans(n, files["mm"], lv, ifs, c16_gen_rng(seed))
    probs, info = behav_case(files, plan, canon, interp)
    return j, text, files, (plan, canon, interp), probs, info


if not behav_failed[0]:
    with _TPE(max_workers=16) as ex:
        for j, text, files, (plan, canon, interp), probs, info in ex.map(rl_job, rl_jobs):
            rl["plans"] += 1
            key = "->".join(j[1][:2])
            rl["pairs"][key] = rl["pairs"].get(key, 0) + 1
            rl["canon_failed"] += info["canon_failed"]
            if probs and not behav_failed[0]:
                behav_failed[0] = True
                sub = lambda pl: [l.replace(files["mm"], "${mm}") for l in pl]
                small = shrink_plan(files, plan, canon, interp, {probs[0]["kind"]})
                p2, _ = behav_case(files, small, canon, interp)
                if not p2:
                    small, p2 = plan, probs
                case = {"kind": "behav", "files": {"mm": text}, "plan": sub(small), "canon": sub(canon), "interp": sub(interp)}
                ck.violation({"stage": "tie", "theorem_or_correspondence": "behavioural: harness/c16_behav.c, module loaded and linked again",
                              "case": case, "problem": p2[0], "input": {"functions": j[0], "interfaces": j[1], "level": j[2]},
                              "model_output": "gen_idempotent_addr: MIR_gen of a function that has code re-points its thunk to call_addr; results and address as before",
                              "impl_output": p2[0], "how_to_rerun": "./check C16 --replay <this file>"},
                             what=f"module loaded again, interfaces {'->'.join(j[1])}, -O{j[2]}: {p2[0]['kind']} {str(p2[0].get('summary') or p2[0].get('detail') or p2[0])[:300]}")
bstats["reload"] = rl

# ----------------------------------------------------------------------------- behavioural: generation-order pairs
pr = {"cases": 0, "features": len(c16_gen.pair_features()), "victims": len(c16_gen.pair_victims()), "solo_disagrees_with_interp": []}
pr_jobs = []
for fi, feat in enumerate(c16_gen.pair_features()):
    for vi, vict in enumerate(c16_gen.pair_victims()):
        lvs = (0, 1, 2, 3) if not QUICK else sorted({2, (fi + vi + rng.below(4)) % 4})
        for lv in lvs:
            pr_jobs.append((feat, vict, lv))


def pair_job(j):
    feat, vict, lv = j
    text, gens = c16_gen.pair_module(feat, vict)
    plans = c16_gen.pair_plans(path_for_text(text), lv, gens, other_level=None if kf_open[KF4] else (lv + 2) % 4 if lv % 2 else (lv + 1 + 2 * (lv == 0)) % 4)
    probs, info = pair_eval(plans)
    return j, text, plans, probs, info


if not behav_failed[0]:
    with _TPE(max_workers=16) as ex:
        for j, text, plans, probs, info in ex.map(pair_job, pr_jobs):
            pr["cases"] += 1
            if info.get("skipped"):
                pr["solo_disagrees_with_interp"].append(f"{j[0]}/{j[1]}/-O{j[2]}:{info['skipped']}")
            if probs and not behav_failed[0]:
                behav_failed[0] = True
                order = probs[0]["order"]
                sub = lambda pl: [re.sub(r"SCAN \S+", "SCAN ${mp}", l) for l in pl]
                case = {"kind": "pair", "files": {"mp": text}, "plans": {k: sub(v) for k, v in plans.items()}}
                ck.violation({"stage": "tie", "theorem_or_correspondence": "behavioural: harness/c16_behav.c, generation-order pairs",
                              "case": case, "problem": probs[0], "input": {"feature": j[0], "victim": j[1], "level": j[2], "order": order},
                              "model_output": "gen_history: what MIR_gen produces for a function does not depend on the functions generated before it",
                              "impl_output": probs[0], "how_to_rerun": "./check C16 --replay <this file>"},
                             what=f"pair {j[0]} / {j[1]} -O{j[2]} generated in order {order}: {probs[0]['kind']} {str(probs[0])[:300]}")
bstats["order_pairs"] = pr

# ----------------------------------------------------------------------------- behavioural: register names the generator could invent itself
an = {"plans": 0}
for r1, r2 in (("x", "x@1"), ("a@1", "a"), ("t1", "t1@2"), ("s@1", "s@1@"), ("x", "x%1")):
    for lv in (0, 1, 2, 3):
        if behav_failed[0] or (kf_open[KF5] and lv >= 2):
            continue
        pl = [f"OPT {lv}", f"APIMOD ma B {r1} {r2}", "LOADLINK interp", "SNAP s0", "INTERP 0 B 5", "INTERP 1 B 0", "GEN B",
              "CALL 0 B 5", "CALL 1 B 0", "CHECKTEXT mid", "GEN B", "CALL 0 B 5", "CHECKTEXT end"]
        rc, out, err = run_plan(pl, f"an{lv}")
        probs, r = intrinsic_problems(rc, out, err)
        if not probs:
            ci, ii = results_by(r, "call"), results_by(r, "interp")
            bad = [k for k in ci if k in ii and ii[k] != ci[k]]
            if bad:
                probs = [{"kind": "call-differs-from-interp", "call": bad[0], "call_result": ci[bad[0]], "interp": ii[bad[0]]}]
        an["plans"] += 1
        if probs:
            behav_failed[0] = True
            ck.violation({"stage": "tie", "theorem_or_correspondence": "behavioural: harness/c16_behav.c, API-built function with generator-like register names",
                          "case": {"kind": "behav", "single": True, "files": {}, "plan": pl}, "problem": probs[0],
                          "input": {"names": [r1, r2], "level": lv}, "how_to_rerun": "./check C16 --replay <this file>"},
                         what=f"function with locals {r1}, {r2} at -O{lv}: {probs[0]['kind']} {str(probs[0].get('detail', probs[0]))[:200]}")
bstats["api_reg_names"] = an
for s in samples:
    ck.sample(s)
dist["behav"] = bstats
ck.stage("behavioural", seconds=round(time.time() - t_b, 1), corpus_plans=bstats["corpus_plans"],
         generated_plans=bstats["gen_plans"])

# ----------------------------------------------------------------------------- assert-enabled build (thorough)
if BEHAV_DBG and not behav_failed[0]:
    nd = 0
    for pi, prog in enumerate(progs[:10]):
        files = {m[0]: os.path.join(WORK, f"g_{m[0]}.mir") for m in prog.modules}
        lv, iface = pi % 4, ["interp", "gen", "lazy"][pi % 3]
        plan, canon, interp, st = c16_gen.make_plans(rng, prog, files, lv, iface, "gen", kf_open[KF1], kf_open[KF2], nact=20,
                                                     no_icode_before_late=kf_open[KF1])
        rc, out, err = run_plan(plan, f"dbg{pi}", BEHAV_DBG)
        probs, _ = intrinsic_problems(rc, out, err)
        nd += 1
        if probs:
            texts = {m[0]: m[1] for m in prog.modules}
            case = {"kind": "behav", "single": True, "build": "debug", "files": texts,
                    "plan": [re.sub(r"\S*/g_(\w+)\.mir", r"${\1}", l) for l in plan]}
            ck.violation({"stage": "tie", "case": case, "problem": probs[0], "build": "assertions enabled",
                          "how_to_rerun": "./check C16 --tier thorough --replay <this file>"},
                         what=f"assert-enabled build, generated program {pi}: {probs[0]['kind']} {str(probs[0])[:300]}")
            break
    bstats["debug_build_plans"] = nd

# ----------------------------------------------------------------------------- evidence
ck.cov["evaluations"] = struct_stats["functions"] + bstats["corpus_plans"] + bstats["gen_plans"] + bstats["open_module"]["plans"] + bstats["many_functions"]["plans"] + bstats["reload"]["plans"] + bstats["order_pairs"]["cases"] + bstats["api_reg_names"]["plans"]
ck.cov["distinct_nontrivial"] = struct_stats["nontrivial"] + bstats["gen_plans"] + \
    (1 if bstats["corpus_regen"] else 0) * bstats["corpus_plans"]
ck.cov["rule"] = ("structural: one evaluation = one function (mir-tests, `c2m -S` of sampled c-tests, generated modules) taken "
                  "through duplicate / random edit script / restore on the real code and on the model; non-trivial = has labels or a "
                  "non-empty edit script, distinct by canonical description+script.  behavioural: one evaluation = one plan "
                  "(program x level x interface) with MIR_gen in shuffled order with repetitions, text snapshots, MIR_interp and calls, "
                  "later modules calling/inlining generated functions; compared with a canonical history and a pure-interpretation twin")
ck.cov["exhaustive"] = False
ck.cov["exhaustive_parts"] = ["classification of all MIR opcodes (branch-like / label / other) against the C predicates"]
ck.cov["trusted_base"] += ["harness/c16_struct.c", "harness/c16_behav.c", "checks/c16.py canonicalisation (pointer renaming by first occurrence)",
                           "gcc -fsanitize=address,undefined"]
ck.assumptions += [
    "model: instruction pointers are never reused (the C allocator may reuse a freed address; the edit scripts never keep a dangling pointer)",
    "model: operands other than label / reg / mem are opaque text; label operands outside the label positions of a branch-like insn are left alone by redirect (MIR_finish_func rejects such insns)",
    "theorems assume WF (labels of the list have data == NULL, label operands and lrefs point to labels of the list, register tables consistent): this is what MIR_finish_func / MIR_load_module establish; a function whose insn->data was set by the interpreter is outside WF (see known finding C16:gen-after-interp)",
    "generator edits are assumed confined to the working copy (Edit.legal); checked indirectly by the behavioural tie (text/insns unchanged after real MIR_gen at every level)",
    "behavioural oracle is same-engine: results of generated code are compared with a canonical history at the same level, interpreter results with a pure-interpretation twin; engine disagreements are counted, not judged (C01)",
    "corpus functions (mir-tests, c-tests) are generated and printed but not executed",
    "x86-64 only; lazy basic-block generation (MIR_set_lazy_bb_gen_interface) is not covered",
]
finish_and_clean()
