"""C04 unit-level generator (tie a): small functions for the exact-sequence comparison between
`MIR_output_item` after `MIR_link (ctx, NULL, NULL)` and `mirdrv_c04 lower`:
operand shapes x instruction classes, shortcut rows and near misses, bt/bf of constants,
random label/jump/branch snippets, alloca lists, calls, returns (several results, narrow types,
several rets), narrow parameters, value numbering across instructions."""
from mirgen import Prog, CMP
from c04_gen import INT_OPS3, INT_TYPES, BRANCH0, BRANCH1, BRANCH2

U_DISPS = [0, 0, 8, -8, 1, 255, 4096, -129, (1 << 31) - 1, -(1 << 31), 1 << 40]
U_TYPES = ["i8", "u8", "i16", "u16", "i32", "u32", "i64", "u64"]


def u_mem(r, scale_any=False):
    while True:
        t = r.choice(U_TYPES)
        disp = r.choice(U_DISPS)
        base = r.choice([None, "b", "b", "x"])
        index = r.choice([None, None, "i", "i", "b"])
        scale = r.choice([1, 1, 2, 4, 8] + ([0, 3, 16, 255] if scale_any else []))
        if index is None:
            scale = 1
        if base is None and index is None and disp == 0:
            continue
        return ("mem", t, disp, base, index, scale)


def u_src(r, mem_ok=True, scale_any=False):
    k = r.below(6)
    if k < 2 and mem_ok:
        return u_mem(r, scale_any)
    if k == 2:
        return r.choice([0, 1, 2, -1, 7, 1 << 40, -(1 << 63), (1 << 63) - 1])
    return r.choice(["b", "i", "x", "r", "s"])


def u_dst(r, scale_any=False):
    return u_mem(r, scale_any) if r.chance(1, 3) else r.choice(["r", "s", "x"])


def ovf_branch(r, op):
    """the library rejects a signed overflow branch after umulo[s] and an unsigned one after mulo[s]"""
    if op.startswith("umul"):
        return r.choice(["ubo", "ubno"])
    if op.startswith("mul"):
        return r.choice(["bo", "bno"])
    return r.choice(["bo", "bno", "ubo", "ubno"])


class UnitGen:
    """one module of small functions; every function ends with `ret`s matching its header"""

    def __init__(self, rng, name):
        self.r = rng
        self.P = Prog(name)
        self.k = 0
        self.kinds = {}

    def new(self, kind, body, res=("i64",), params=(("i64", "b"), ("i64", "i"), ("i64", "x")), ret=True):
        self.k += 1
        fn = f"{self.P.name}_f{self.k}"
        self.kinds[kind] = self.kinds.get(kind, 0) + 1
        header = ", ".join(list(res) + [f"{t}:{n}" for t, n in params])
        ins = []
        for x in body:
            if x[0] == "label":
                ins.append(("label", fn + "_" + x[1]))
            elif x[0] in BRANCH0 | BRANCH1 | BRANCH2:
                ins.append((x[0], fn + "_" + x[1]) + tuple(x[2:]))
            elif x[0] == "switch":
                ins.append(("switch", x[1]) + tuple(fn + "_" + l for l in x[2:]))
            else:
                ins.append(tuple(x))
        if ret:
            ins.append(("ret",) + tuple("r" for _ in res))
        locs = [f"i64:{n}" for n in ["r", "s"] if n not in [p[1] for p in params]]
        self.P.funcs.append((fn, header, locs, ins))
        return fn

    def gen(self, n, scale_any=True):
        r = self.r
        P = self.P
        P.protos.add("pu2: proto i64, i64:a, i64:b")
        P.protos.add("pu22: proto i64, i32, i64:a, u8:b")
        P.imports.add("ext2")
        P.imports.add("extr2")
        for _ in range(n):
            k = r.below(16)
            if k == 0:      # loads / stores / mem-to-mem moves
                j = r.below(4)
                if j == 0:
                    self.new("load", [("mov", "r", u_mem(r, scale_any))])
                elif j == 1:
                    self.new("store", [("mov", u_mem(r, scale_any), u_src(r, mem_ok=False))])
                elif j == 2:
                    self.new("memmem", [("mov", u_mem(r, scale_any), u_mem(r, scale_any))])
                else:
                    self.new("movs", [("mov", u_dst(r), u_src(r)), ("mov", u_dst(r), u_src(r))])
            elif k == 1:    # three-operand instruction with any operand shapes
                op = r.choice(sorted(INT_OPS3))
                self.new("bin", [(op, u_dst(r, scale_any), u_src(r, True, scale_any), u_src(r, True, scale_any))])
            elif k == 2:
                op = r.choice(["ext8", "ext16", "ext32", "uext8", "uext16", "uext32", "neg", "negs"])
                self.new("un", [(op, u_dst(r), u_src(r))])
            elif k == 3:    # shortcut rows and near misses
                op = r.choice(sorted(INT_OPS3 - set(CMP) - {c + "s" for c in CMP}))
                c = r.choice([0, 1, 0, 1, 2, -1])
                d = r.choice(["r", "x", u_mem(r)])
                xs = d if r.chance(1, 3) else r.choice(["x", "i", u_mem(r)])
                body = [(op, d, xs, c)] if r.chance(4, 5) else [(op, d, c, xs)]
                if op.endswith("o") or op.endswith("os"):
                    body += [(ovf_branch(r, op), "l1"), ("mov", "r", 3), ("label", "l1")]
                self.new("shortcut", body)
            elif k == 4:    # bt/bf of constants, with neighbours that trigger the follow-up rewrites
                op = r.choice(["bt", "bf", "bts", "bfs"])
                c = r.choice([0, 1, 2, -1, "x"])
                shape = r.below(3)
                if shape == 0:
                    body = [(op, "l1", c), ("mov", "r", 1), ("label", "l1")]
                elif shape == 1:
                    body = [(op, "l1", c), ("label", "l0"), ("label", "l1"), ("mov", "r", 2), ("bt", "l0", "x")]
                else:
                    body = [(op, "l1", c), ("jmp", "l2"), ("label", "l1"), ("mov", "r", 1), ("label", "l2")]
                self.new("btconst", body)
            elif k in (5, 6, 7):    # random control-flow snippets: labels, jumps, conditional branches
                nl = 2 + r.below(4)
                labs = [f"l{j}" for j in range(nl)]
                body = []
                todo = list(labs)
                steps = 3 + r.below(9)
                for _s in range(steps):
                    j = r.below(10)
                    if j < 3 and todo:
                        l = todo.pop(r.below(len(todo)))
                        body.append(("label", l))
                    elif j < 5:
                        body.append(("jmp", r.choice(labs)))
                    elif j < 7:
                        op = r.choice(sorted(BRANCH2))
                        body.append((op, r.choice(labs), r.choice(["x", "i", 5]), r.choice(["b", 0, u_mem(r)])))
                    elif j == 7:
                        body.append((r.choice(sorted(BRANCH1)), r.choice(labs), r.choice(["x", 0, 1, u_mem(r)])))
                    elif j == 8:
                        oop = r.choice(["addo", "subos", "umulo", "mulos"])
                        body.append((oop, "s", "x", "i"))
                        body.append((ovf_branch(r, oop), r.choice(labs)))
                    else:
                        body.append(("mov", "r", r.choice(["x", 4])))
                for l in todo:
                    body.append(("label", l))
                    if r.chance(1, 2):
                        body.append(("add", "r", "r", "x"))
                if r.chance(1, 4):
                    body.append(("switch", "x") + tuple(r.choice(labs) for _ in range(1 + r.below(3))))
                    body.append(("label", "lend"))
                self.new("cfg", body)
            elif k == 8:    # alloca lists
                regs = ["r", "s", "x", "i", "b"]
                body = []
                for _a in range(1 + r.below(6)):
                    if r.chance(1, 8):
                        body.append(("alloca", r.choice(regs), "x"))
                    elif r.chance(1, 8):
                        body.append(("mov", "s", 1))
                    else:
                        body.append(("alloca", r.choice(regs) if r.chance(5, 6) else u_mem(r),
                                     r.choice([0, 1, 2, 3, 4, 5, 7, 8, 9, 10, 15, 16, 17, 24, 31, 32, 33, 40, 100, -5])))
                self.new("alloca", body)
            elif k == 9:    # calls with operand shapes
                if r.chance(1, 2):
                    self.new("call", [(r.choice(["call", "inline"]), "pu2", "ext2", u_dst(r), u_src(r), u_src(r))])
                else:
                    self.new("call", [("call", "pu22", "extr2", u_dst(r), u_dst(r), u_src(r), u_src(r))])
            elif k in (10, 11, 12):   # returns: several results, narrow types, several rets, operand shapes
                nres = 1 + r.below(3)
                res = [r.choice(INT_TYPES) for _ in range(nres)]
                nrets = 1 + r.below(3)
                body = []
                for q in range(nrets):
                    if q > 0 or r.chance(1, 2):
                        body.append((r.choice(["bt", "bf"]), f"l{q}", "x"))
                    if r.chance(1, 2):
                        body.append(("add", "r", "x", "i"))
                    body.append(("ret",) + tuple(u_src(r) for _ in res))
                    body.append(("label", f"l{q}"))
                body.append(("ret",) + tuple(r.choice(["r", "s", "x", "i", "b"]) for _ in res))
                self.new("rets", body, res=res, ret=False)
            elif k == 13:   # narrow parameters
                params = [(r.choice(INT_TYPES), n) for n in ["b", "i", "x"]]
                self.new("params", [("add", "r", "b", "i")], params=params, res=[r.choice(INT_TYPES)])
            elif k == 14:   # value numbering across several instructions
                m1, m2 = u_mem(r), u_mem(r)
                self.new("vn", [("add", "r", m1, m1), ("mov", m2, m1[2]), ("sub", m2, m2, m1), ("mov", "s", m2)])
            else:
                self.new("switch", [("switch", u_src(r), "l0", "l1"), ("label", "l0"), ("mov", "r", 1), ("label", "l1")])
        return self.P


def gen_unit_funcs(rng, name, n):
    g = UnitGen(rng, name)
    P = g.gen(n)
    return P, g.kinds


def gen_bracket_module(rng, name, n):
    """pairs (callee v_k with a random mix of constant top allocas, variable-size allocas, allocas behind a
    label or a call, size registers defined by constant / register moves; caller w_k = one `inline` of it):
    after link w_k must contain exactly `inlineBrackets` (Model/Simplify.lean) bstart/bend pairs"""
    r = rng
    P = Prog(name)
    P.protos.add("p2: proto i64, i64:a, i64:b")
    P.protos.add("pe1: proto i64, i64:a")
    P.imports.add("ext1")
    kinds = {}
    pairs = []
    for k in range(n):
        v, w = f"{name}_v{k}", f"{name}_w{k}"
        ins = [("mov", "r", "a")]
        regs = []
        shape = []

        def use(p):
            ins.extend([("mov", ("mem", "i64", 0, p, None, 1), "b"), ("add", "r", "r", ("mem", "i64", 0, p, None, 1))])
        for j in range(r.below(3)):            # constant allocas at the top
            p = f"c{j}"
            regs.append(p)
            if r.chance(1, 3):
                ins.extend([("mov", "n", r.choice([8, 16, 40])), ("alloca", p, "n")])
                shape.append("top_const_via_mov")
            else:
                ins.append(("alloca", p, r.choice([8, 16, 24, 100])))
                shape.append("top_const")
            if r.chance(3, 4):
                use(p)
        j = r.below(6)
        if j == 0:                             # variable size, still in front of every label
            ins.extend([("and", "n", "a", 56), ("add", "n", "n", 8)] + ([("mov", "q", 3)] if r.chance(1, 2) else []) + [("alloca", "v0", "n")])
            regs.append("v0"); use("v0"); shape.append("var_top_position")
        elif j == 1:                           # size register copied from a register
            ins.extend([("and", "q", "a", 56), ("add", "q", "q", 8), ("mov", "n", "q"), ("alloca", "v0", "n")])
            regs.append("v0"); use("v0"); shape.append("var_via_reg_mov")
        elif j == 2:                           # behind a label
            ins.extend([("label", v + "_L"), ("alloca", "v0", r.choice(["n2", 32]))])
            ins.insert(1, ("mov", "n2", 48))
            regs.append("v0"); use("v0"); shape.append("behind_label")
        elif j == 3:                           # behind a call
            ins.extend([("call", "pe1", "ext1", "q", "a"), ("alloca", "v0", 16)])
            regs.append("v0"); use("v0"); shape.append("behind_call")
        elif j == 4 and regs:                  # a second constant alloca after the top one was used
            ins.extend([("alloca", "v0", 16)])
            regs.append("v0"); use("v0"); shape.append("const_after_use")
        ins.append(("ret", "r"))
        P.funcs.append((v, "i64, i64:a, i64:b", [f"i64:{x}" for x in ["r", "n", "n2", "q"] + regs], ins))
        P.funcs.append((w, "i64, i64:a, i64:b", ["i64:r"], [("inline", "p2", v, "r", "a", "b"), ("ret", "r")]))
        key = "+".join(sorted(set(shape))) or "no_alloca"
        kinds[key] = kinds.get(key, 0) + 1
        pairs.append((v, w))
    return P, pairs, kinds
