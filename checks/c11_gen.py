"""Random MIR module descriptions for the C11 (binary round trip) correspondence.

A description is a list of text lines in the format understood by harness/c11_harness.c (builder)
and printed back by its structural dump; the Lean driver mirdrv_c11 parses/prints the same format.
All randomness comes from the SplitMix object handed in (seeded from VERIF_SEED by lib/vf.py).

The generator builds API-valid MIR: operand modes follow the `insn_descs` rows read from the
current source (translate/c11_tables.load()), because the harness creates the modules through the
public API (MIR_new_insn_arr / MIR_finish_func check them)."""

MASK64 = (1 << 64) - 1

# type codes relative to MIR_T_I8
T_I8, T_U8, T_I16, T_U16, T_I32, T_U32, T_I64, T_U64, T_F, T_D, T_LD, T_P = range(12)
T_BLK0, T_RBLK = 12, 17
INT_TYPES = [T_I8, T_U8, T_I16, T_U16, T_I32, T_U32, T_I64, T_U64, T_P]
BITS = {T_I8: 8, T_U8: 8, T_I16: 16, T_U16: 16, T_I32: 32, T_U32: 32, T_I64: 64, T_U64: 64,
        T_F: 32, T_D: 64, T_LD: 80, T_P: 64}

INTERESTING = [0, 1, 2, 126, 127, 128, 129, 255, 256, 257, 32767, 32768, 65535, 65536, 65537,
               (1 << 24) - 1, 1 << 24, (1 << 31) - 1, 1 << 31, (1 << 32) - 1, 1 << 32, (1 << 40) - 1,
               1 << 40, (1 << 48) - 1, 1 << 48, (1 << 56) - 1, 1 << 56, (1 << 63) - 1, 1 << 63,
               MASK64, MASK64 - 1, MASK64 - 127, MASK64 - 128, MASK64 - 255, MASK64 - 256,
               MASK64 - 32767, MASK64 - 32768, MASK64 - (1 << 31), MASK64 - (1 << 31) + 1,
               MASK64 - (1 << 32), 0x8000000000000001, 0x00FF00FF00FF00FF, 0x0102030405060708]

F_BITS = [0, 0x80000000, 0x3F800000, 0xBF800000, 0x7F800000, 0xFF800000, 0x7FC00000, 0xFFC00001,
          0x7F800001, 0x7FFFFFFF, 0x00000001, 0x007FFFFF, 0x00800000, 0x7F7FFFFF, 0x40490FDB]
D_BITS = [0, 1 << 63, 0x3FF0000000000000, 0xBFF0000000000000, 0x7FF0000000000000, 0xFFF0000000000000,
          0x7FF8000000000000, 0xFFF8000000000001, 0x7FF0000000000001, 0x7FFFFFFFFFFFFFFF, 1,
          0x000FFFFFFFFFFFFF, 0x0010000000000000, 0x7FEFFFFFFFFFFFFF, 0x400921FB54442D18]
# (lo, hi16) pairs of the x87 80-bit format: zero, -zero, 1.0, inf, -inf, qnan, snan with payload,
# pseudo-denormal, unnormal, largest
LD_BITS = [(0, 0), (0, 0x8000), (1 << 63, 0x3FFF), (1 << 63, 0x7FFF), (1 << 63, 0xFFFF),
           (0xC000000000000000, 0x7FFF), (0x8000000000000001, 0x7FFF), (0xFFFFFFFFFFFFFFFF, 0x7FFF),
           (1 << 63, 0), (1, 0), (0x4000000000000000, 0x4000), (0xFFFFFFFFFFFFFFFF, 0x7FFE),
           (0xC90FDAA22168C235, 0x4000), (0x0123456789ABCDEF, 0xFFFF)]


def xs(b):
    """bytes -> 'x<hex>'"""
    return "x" + bytes(b).hex()


def optx(b):
    return "-" if b is None else xs(b)


class Tables:
    """insn codes / rows of insn_descs taken from the source under test"""

    def __init__(self, t):
        self.code = {n[4:]: v for n, v in t["codes"]}          # 'MOV' -> 0
        self.name_of = {v: n[4:] for n, v in t["codes"]}
        self.rows = t["rows"]                                   # (code, name, op_modes)
        self.mode = {n[7:]: v for n, v in t["modes"]}          # 'INT' -> 3
        self.OUT = t["out_flag"]
        self.cfg = t["cfg"]


class Func:
    def __init__(self):
        self.name = b""
        self.vararg = False
        self.res = []
        self.args = []      # (ty, name, size)
        self.locals = []    # (ty, name)
        self.globals = []   # (ty, name, hard)
        self.body = []      # lines
        self.pools = {"i": [], "f": [], "d": [], "l": []}


class Gen:
    def __init__(self, rng, tables, hard_regs=None):
        self.r = rng
        self.t = tables
        self.uid = 0
        # hard registers accepted for globals on this target: {class: [names]}
        self.hard = hard_regs or {"i": [b"rbx", b"r12", b"r13", b"r14", b"r15"], "d": [], "f": []}

    # ------------------------------------------------------------ basic values
    def below(self, n):
        return self.r.below(n)

    def chance(self, a, b):
        return self.r.chance(a, b)

    def choice(self, xs_):
        return self.r.choice(xs_)

    def u64(self):
        k = self.below(10)
        if k < 5:
            return self.choice(INTERESTING)
        if k < 7:
            return self.below(300)
        if k < 8:
            return (MASK64 - self.below(300)) & MASK64
        nb = 1 + self.below(8)
        return self.r.next() & ((1 << (8 * nb)) - 1)

    def fbits(self):
        return self.choice(F_BITS) if self.chance(2, 3) else self.r.next() & 0xFFFFFFFF

    def dbits(self):
        return self.choice(D_BITS) if self.chance(2, 3) else self.r.next() & MASK64

    def ldbits(self):
        if self.chance(2, 3):
            return self.choice(LD_BITS)
        return (self.r.next() & MASK64, self.r.next() & 0xFFFF)

    def ident(self, exotic_ok=True):
        self.uid += 1
        k = self.below(20)
        base = self.choice([b"a", b"b", b"x", b"tmp", b"val", b"_q", b"$v", b"%r", b".n", b"longer_identifier_name"])
        s = base + str(self.uid).encode()
        if exotic_ok and k == 0:
            s = bytes([0xC3, 0xA9, 0x20, 0x22, 0x5C, 0x09]) + s     # utf-8, blank, quote, backslash, tab
        if exotic_ok and k == 1:
            s = s + bytes([0xFF, 0x80, 0x01])
        return s

    def strbytes(self):
        k = self.below(8)
        if k == 0:
            return b""
        if k == 1:
            return b"\0"
        if k == 2:
            return b"abc\0def\0"                 # embedded NULs
        if k == 3:
            return bytes([self.below(256) for _ in range(1 + self.below(40))])
        if k == 4:
            return b"no terminating nul"
        if k == 5:
            return bytes(range(256))
        return b"str" + str(self.below(50)).encode() + b"\0"

    # ------------------------------------------------------------ operands
    def mem_type_for(self, cls):
        return {"i": self.choice(INT_TYPES), "f": T_F, "d": T_D, "l": T_LD}[cls]

    def mem(self, f, ty, aliases=True):
        ipool = f.pools["i"]
        base = index = None
        scale = 0
        shape = self.below(8)
        disp = 0
        if shape & 1 or not ipool:
            disp = self.u64()
        if ipool and shape & 2:
            base = self.choice(ipool)
        if ipool and shape & 4:
            index = self.choice(ipool)
            scale = self.choice([1, 2, 4, 8, 1, 3, 0, 255, 16])
        al = nal = b""
        if aliases and self.chance(1, 6):
            al = self.choice([b"al1", b"al2", b"a"])
        if aliases and self.chance(1, 6):
            nal = self.choice([b"na1", b"al1"])
        return "m:%d:%d:%s:%s:%d:%s:%s" % (ty, disp, optx(base), optx(index), scale, xs(al), xs(nal))

    def ensure_reg(self, f, cls):
        if not f.pools[cls] or self.chance(1, 12):
            ty = {"i": T_I64, "f": T_F, "d": T_D, "l": T_LD}[cls]
            n = self.ident(exotic_ok=self.chance(1, 4))
            if self.chance(1, 10):
                self.uid += 1
                n = b"t%d" % (self.uid + self.below(1000))      # looks like a temp register
            f.locals.append((ty, n))
            f.pools[cls].append(n)
        return self.choice(f.pools[cls])

    def operand(self, f, mode, out, ctx):
        """operand of value mode `mode` ('i','f','d','l'); `out` = destination"""
        k = self.below(10)
        if out:
            if k < 7:
                return "r:" + xs(self.ensure_reg(f, mode))
            return self.mem(f, self.mem_type_for(mode))
        if k < 4:
            return "r:" + xs(self.ensure_reg(f, mode))
        if k < 6:
            return self.mem(f, self.mem_type_for(mode))
        if mode == "i":
            j = self.below(10)
            if j < 5:
                return "i:%d" % self.u64()
            if j < 8:
                return "u:%d" % self.u64()
            if j == 8 and ctx["refs"]:
                return "R:" + xs(self.choice(ctx["refs"]))
            return "s:" + xs(self.strbytes())
        if mode == "f":
            return "f:%d" % self.fbits()
        if mode == "d":
            return "d:%d" % self.dbits()
        lo, hi = self.ldbits()
        return "L:%d_%d" % (lo, hi)

    # ------------------------------------------------------------ functions
    def var_args(self, blk_ok=True):
        n = self.below(5)
        out = []
        for _ in range(n):
            k = self.below(12)
            if k < 6:
                ty = self.choice(INT_TYPES)
            elif k < 9:
                ty = self.choice([T_F, T_D, T_LD])
            elif blk_ok and k < 11:
                ty = T_BLK0 + self.below(5)
            elif blk_ok:
                ty = T_RBLK
            else:
                ty = T_I64
            size = 0
            if ty >= T_BLK0:
                size = self.choice([0, 1, 8, 16, 24, 127, 128, 4096, (1 << 32) - 1, 1 << 32, 1 << 40])
            out.append((ty, self.ident(), size))
        return out

    def res_types(self):
        n = self.choice([0, 1, 1, 1, 2, 3])
        return [self.choice([T_I64, T_I32, T_U8, T_F, T_D, T_LD, T_P, T_U64]) for _ in range(n)]

    def proto_line(self, kind, name, va, res, args):
        w = [kind, xs(name), "1" if va else "0", str(len(res))] + [str(t) for t in res] + [str(len(args))]
        for ty, n, sz in args:
            w += [str(ty), xs(n), str(sz)]
        return " ".join(w)

    @staticmethod
    def cls_of(ty):
        return {T_F: "f", T_D: "d", T_LD: "l"}.get(ty, "i")

    def gen_func(self, ctx, ninsns, features):
        """random (not executable) function over the full vocabulary"""
        t = self.t
        f = Func()
        f.name = self.ident()
        f.res = self.res_types()
        f.args = self.var_args()
        f.vararg = bool(f.args) and self.chance(1, 6)
        for ty, n, _ in f.args:
            f.pools[self.cls_of(ty) if ty < T_BLK0 else "i"].append(n)
        if features.get("globals") and self.hard["i"] and self.chance(1, 2):
            for h in self.r_sample(self.hard["i"], 1 + self.below(2)):
                n = self.ident()
                f.globals.append((T_I64, n, h))
                f.pools["i"].append(n)
        ctx["refs"].append(f.name)
        nlab = self.below(1 + ninsns // 4) if ninsns else 0
        labels = list(range(1, nlab + 1))
        # positions where labels are bound (each label exactly once, never trailing unless asked)
        pos = sorted(self.below(max(1, ninsns)) for _ in labels)
        body = []
        li = 0
        simple = [r for r in t.rows if self.simple_row(r)]
        for i in range(ninsns):
            while li < len(labels) and pos[li] <= i:
                body.append("label %d" % labels[li])
                li += 1
            k = self.below(40)
            if k == 0 and ctx["protos"]:
                body.append(self.gen_call(f, ctx))
            elif k == 1 and labels:
                ops = [self.operand(f, "i", False, ctx)] + ["l:%d" % self.choice(labels) for _ in range(1 + self.below(4))]
                body.append("insn %d %d %s" % (t.code["SWITCH"], len(ops), " ".join(ops)))
            elif k == 2:
                body.append(self.gen_ret(f, ctx))
            elif k == 3 and f.vararg:
                body.append("insn %d 1 %s" % (t.code["VA_START"], "r:" + xs(self.ensure_reg(f, "i"))))
            elif k == 4:
                a = "r:" + xs(self.ensure_reg(f, "i"))
                body.append("insn %d 3 %s %s %s" % (t.code["VA_ARG"], a, "r:" + xs(self.ensure_reg(f, "i")),
                                                    self.mem(f, self.choice(INT_TYPES + [T_F, T_D, T_LD]))))
            elif k == 5:
                # overflow insn directly followed by its branch
                if labels:
                    c = self.choice(["ADDO", "ADDOS", "SUBO", "SUBOS", "MULO", "MULOS", "UMULO", "UMULOS"])
                    body.append(self.gen_row(f, ctx, self.row_of(c), labels))
                    if c in ("MULO", "MULOS"):
                        br = self.choice(["BO", "BNO"])
                    elif c in ("UMULO", "UMULOS"):
                        br = self.choice(["UBO", "UBNO"])
                    else:
                        br = self.choice(["BO", "BNO", "UBO", "UBNO"])
                    body.append("insn %d 1 l:%d" % (t.code[br], self.choice(labels)))
            elif k == 6 and features.get("props"):
                c = self.choice(["PRSET", "PRBEQ", "PRBNE"])
                if c == "PRSET":
                    body.append("insn %d 2 %s i:%d" % (t.code[c], "r:" + xs(self.ensure_reg(f, "i")), self.below(300)))
                elif labels:
                    body.append("insn %d 3 l:%d %s i:%d" % (t.code[c], self.choice(labels),
                                                              "r:" + xs(self.ensure_reg(f, "i")), self.below(300)))
            else:
                row = self.choice(simple)
                if self.needs_label(row) and not labels:
                    row = self.row_of("MOV")
                body.append(self.gen_row(f, ctx, row, labels))
        while li < len(labels):      # labels not yet bound: bind them before the final ret
            body.append("label %d" % labels[li])
            li += 1
        body.append(self.gen_ret(f, ctx))
        if features.get("trailing_label"):
            body.append("label %d" % (nlab + 1))
        f.body = body
        return f

    def r_sample(self, xs_, n):
        xs_ = list(xs_)
        out = []
        while xs_ and len(out) < n:
            out.append(xs_.pop(self.below(len(xs_))))
        return out

    def row_of(self, name):
        return self.t.rows[self.t.code[name]]

    def needs_label(self, row):
        return any((m & ~self.t.OUT) == self.t.mode["LABEL"] for m in row[2])

    def simple_row(self, row):
        code, name, modes = row
        n = self.t.name_of[code]
        if n in ("CALL", "INLINE", "JCALL", "SWITCH", "RET", "JRET", "LABEL", "UNSPEC", "USE", "PHI",
                 "INVALID_INSN", "VA_START", "VA_ARG", "VA_BLOCK_ARG", "VA_END", "BO", "UBO", "BNO", "UBNO",
                 "PRSET", "PRBEQ", "PRBNE", "INSN_BOUND"):
            return False
        M = self.t.mode
        for m in modes:
            m &= ~self.t.OUT
            if m == M["BOUND"]:
                break
            if m not in (M["INT"], M["FLOAT"], M["DOUBLE"], M["LDOUBLE"], M["LABEL"], M["REG"]):
                return False
        return True

    def gen_row(self, f, ctx, row, labels):
        code, name, modes = row
        M = self.t.mode
        cls = {M["INT"]: "i", M["FLOAT"]: "f", M["DOUBLE"]: "d", M["LDOUBLE"]: "l"}
        ops = []
        for m in modes:
            out = bool(m & self.t.OUT)
            m &= ~self.t.OUT
            if m == M["BOUND"]:
                break
            if m == M["LABEL"]:
                ops.append("l:%d" % self.choice(labels))
            elif m == M["REG"]:
                ops.append("r:" + xs(self.ensure_reg(f, self.choice(["i", "i", "f", "d", "l"]))))
            else:
                ops.append(self.operand(f, cls[m], out, ctx))
        return "insn %d %d %s" % (code, len(ops), " ".join(ops))

    def gen_ret(self, f, ctx):
        ops = [self.operand(f, self.cls_of(ty), False, ctx) for ty in f.res]
        return ("insn %d %d %s" % (self.t.code["RET"], len(ops), " ".join(ops))).rstrip()

    def gen_call(self, f, ctx):
        pname, va, res, args = self.choice(ctx["protos"])
        k = self.below(3)
        if k == 0 and ctx["callees"]:
            target = "R:" + xs(self.choice(ctx["callees"]))
        elif k == 1:
            target = "r:" + xs(self.ensure_reg(f, "i"))
        else:
            target = "R:" + xs(self.choice(ctx["callees"])) if ctx["callees"] else "r:" + xs(self.ensure_reg(f, "i"))
        ops = ["R:" + xs(pname), target]
        for ty in res:
            ops.append(self.operand(f, self.cls_of(ty), True, ctx))
        for ty, _, sz in args:
            if ty >= T_BLK0:
                base = self.ensure_reg(f, "i")
                ops.append("m:%d:%d:%s:-:0:x:x" % (ty, sz, xs(base)))
            else:
                ops.append(self.operand(f, self.cls_of(ty), False, ctx))
        if va:
            for _ in range(self.below(3)):
                c = self.choice(["i", "d", "f", "l"])
                ops.append(self.operand(f, c, False, ctx))
        code = self.t.code[self.choice(["CALL", "CALL", "INLINE"])]
        return "insn %d %d %s" % (code, len(ops), " ".join(ops))

    def func_lines(self, f):
        L = [self.proto_line("func", f.name, f.vararg, f.res, f.args)]
        L += ["local %d %s" % (ty, xs(n)) for ty, n in f.locals]
        L += ["global %d %s %s" % (ty, xs(n), xs(h)) for ty, n, h in f.globals]
        L += f.body
        L.append("endfunc")
        return L

    # ------------------------------------------------------------ data items
    def data_item(self, name, ty=None, n=None, allow_p=False):
        if ty is None:
            ty = self.choice([T_I8, T_U8, T_I16, T_U16, T_I32, T_U32, T_I64, T_U64, T_F, T_D, T_LD, T_U8, T_U8]
                             + ([T_P] if allow_p else []))
        if n is None:
            n = self.choice([0, 1, 2, 3, 5, 8, 17, 40])
        els = []
        for _ in range(n):
            if ty == T_F:
                els.append(str(self.fbits()))
            elif ty == T_D:
                els.append(str(self.dbits()))
            elif ty == T_LD:
                lo, hi = self.ldbits()
                els.append("%d_%d" % (lo, hi))
            else:
                b = BITS[ty]
                v = self.u64()
                if self.chance(1, 2):
                    v = self.choice([0, 1, (1 << (b - 1)) - 1, 1 << (b - 1), (1 << b) - 1, 127, 128, 255, 256])
                els.append(str(v & ((1 << b) - 1)))
        return "data %s %d %d%s" % (optx(name), ty, n, (" " + " ".join(els)) if els else "")

    # ------------------------------------------------------------ modules
    def gen_module(self, nitems, ninsns, features):
        ctx = {"refs": [], "protos": [], "callees": []}
        L = ["module " + xs(self.ident())]
        last_func = None
        for _ in range(nitems):
            k = self.below(16)
            if k == 0:
                n = self.ident()
                L.append("import " + xs(n))
                ctx["refs"].append(n)
                ctx["callees"].append(n)
            elif k == 1:
                n = self.ident()
                L.append("export " + xs(n))
                ctx["refs"].append(n)
            elif k == 2:
                n = self.ident()
                L.append("forward " + xs(n))
                ctx["refs"].append(n)
                ctx["callees"].append(n)
            elif k == 3:
                n = self.ident() if self.chance(2, 3) else None
                sizes = [0, 1, 8, 127, 128, 4096] + ([] if features.get("loadable") else [1 << 20, 1 << 33, (1 << 64) - 1])
                L.append("bss %s %d" % (optx(n), self.choice(sizes)))
                if n:
                    ctx["refs"].append(n)
            elif k == 4 and ctx["refs"]:
                n = self.ident() if self.chance(2, 3) else None
                L.append("ref %s %s %d" % (optx(n), xs(self.choice(ctx["refs"])), self.u64()))
                if n:
                    ctx["refs"].append(n)
            elif k == 5 and features.get("lref") and last_func is not None and last_func[1]:
                n = self.ident() if self.chance(2, 3) else None
                l1 = self.choice(last_func[1])
                l2 = self.choice(last_func[1]) if self.chance(1, 2) else None
                L.append("lref %s %d %s %d" % (optx(n), l1, "-" if l2 is None else str(l2), self.u64()))
                if n:
                    ctx["refs"].append(n)
            elif k == 6 and features.get("expr") and ctx.get("exprfuncs"):
                n = self.ident() if self.chance(2, 3) else None
                L.append("expr %s %s" % (optx(n), xs(self.choice(ctx["exprfuncs"]))))
                if n:
                    ctx["refs"].append(n)
            elif k in (7, 8):
                n = self.ident() if self.chance(2, 3) else None
                if self.chance(1, 8):
                    self.uid += 1
                    n = b".lc%d" % (self.uid + self.below(5000))      # looks like a temp item name
                L.append(self.data_item(n, allow_p=features.get("data_p", False)))
                if n:
                    ctx["refs"].append(n)
            elif k in (9, 10):
                n = self.ident()
                res = [t for t in self.res_types()]
                args = self.var_args()
                va = self.chance(1, 5)
                L.append(self.proto_line("proto", n, va, res, args))
                ctx["protos"].append((n, va, res, args))
                ctx["refs"].append(n)
            elif k == 11 and features.get("expr"):
                # a function usable as expr: no args, one result, no calls / memory
                f = Func()
                f.name = self.ident()
                f.res = [T_I64]
                f.body = ["insn %d 1 i:%d" % (self.t.code["RET"], self.u64())]
                L += self.func_lines(f)
                ctx["refs"].append(f.name)
                ctx.setdefault("exprfuncs", []).append(f.name)
            else:
                f = self.gen_func(ctx, self.below(ninsns + 1), features)
                L += self.func_lines(f)
                ctx["callees"].append(f.name)
                labs = sorted({int(l.split()[1]) for l in f.body if l.startswith("label ")})
                last_func = (f.name, labs)
        L.append("endmodule")
        return L

    # ------------------------------------------------------------ executable modules
    def gen_exec_case(self, nfuncs, ninsns):
        """modules whose functions can be run by the interpreter: initialised registers, forward
        branches only, loads from own data items at valid offsets, no division by register"""
        t = self.t
        C = t.code
        L = ["module " + xs(self.ident(False))]
        calls = []
        dname = self.ident(False)
        nel = 8
        L.append(self.data_item(dname, ty=T_U64, n=nel))
        fdn = self.ident(False)
        L.append(self.data_item(fdn, ty=T_D, n=4))
        sdn = self.ident(False)
        L.append("data %s %d %d %s" % (xs(sdn), T_U8, 6, "104 0 105 255 1 0"))
        funcs = []
        for fi in range(nfuncs):
            f = Func()
            f.name = self.ident(False)
            nargs = 1 + self.below(3)
            kinds = [self.choice(["i", "i", "d"]) for _ in range(nargs)]
            f.args = [((T_I64 if k == "i" else T_D), self.ident(False), 0) for k in kinds]
            f.res = [self.choice([T_I64, T_D])] if self.chance(3, 4) else [T_I64, T_D]
            ir = [n for (ty, n, _), k in zip(f.args, kinds) if k == "i"]
            dr = [n for (ty, n, _), k in zip(f.args, kinds) if k == "d"]
            body = []
            for _ in range(2 + self.below(3)):
                n = self.ident(False)
                f.locals.append((T_I64, n))
                body.append("insn %d 2 r:%s i:%d" % (C["MOV"], xs(n), self.u64()))
                ir.append(n)
            for _ in range(1 + self.below(2)):
                n = self.ident(False)
                f.locals.append((T_D, n))
                body.append("insn %d 2 r:%s d:%d" % (C["DMOV"], xs(n), self.dbits()))
                dr.append(n)
            fr = self.ident(False)
            f.locals.append((T_F, fr))
            body.append("insn %d 2 r:%s f:%d" % (C["FMOV"], xs(fr), self.fbits()))
            lr = self.ident(False)
            f.locals.append((T_LD, lr))
            lo, hi = self.choice(LD_BITS[:5])
            body.append("insn %d 2 r:%s L:%d_%d" % (C["LDMOV"], xs(lr), lo, hi))
            ptr = self.ident(False)
            f.locals.append((T_I64, ptr))
            body.append("insn %d 2 r:%s R:%s" % (C["MOV"], xs(ptr), xs(dname)))
            lab = 0
            pending = []     # (label, bind_at_index)
            n_i = self.below(ninsns + 1)
            for i in range(n_i):
                for l, at in list(pending):
                    if at <= i:
                        body.append("label %d" % l)
                        pending.remove((l, at))
                k = self.below(12)
                d = "r:" + xs(self.choice(ir))
                a = self.choice(["r:" + xs(self.choice(ir)), "i:%d" % self.u64(), "u:%d" % self.u64()])
                b = self.choice(["r:" + xs(self.choice(ir)), "i:%d" % self.u64()])
                if k < 4:
                    op = self.choice(["ADD", "SUB", "MUL", "AND", "OR", "XOR", "ADDS", "SUBS", "MULS", "EQ", "NE", "LT",
                                      "ULT", "GE", "UGTS", "LES"])
                    body.append("insn %d 3 %s %s %s" % (C[op], d, a, b))
                elif k == 4:
                    op = self.choice(["DIV", "UDIV", "MOD", "UMOD", "DIVS", "UMODS"])
                    body.append("insn %d 3 %s %s i:%d" % (C[op], d, a, self.choice([1, 2, 3, 7, 10, 255, 65537])))
                elif k == 5:
                    op = self.choice(["LSH", "RSH", "URSH", "LSHS", "URSHS"])
                    body.append("insn %d 3 %s %s i:%d" % (C[op], d, a, self.below(31)))
                elif k == 6:
                    op = self.choice(["EXT8", "EXT16", "EXT32", "UEXT8", "UEXT16", "UEXT32", "NEG", "NEGS", "MOV"])
                    body.append("insn %d 2 %s %s" % (C[op], d, a))
                elif k == 7:
                    ty = self.choice([T_I8, T_U8, T_I16, T_U16, T_I32, T_U32, T_I64, T_U64])
                    off = self.below(nel * 8 - 8)
                    body.append("insn %d 2 %s m:%d:%d:%s:-:0:x:x" % (C["MOV"], d, ty, off, xs(ptr)))
                elif k == 8 and dr:
                    dd = "r:" + xs(self.choice(dr))
                    da = self.choice(["r:" + xs(self.choice(dr)), "d:%d" % self.dbits()])
                    db = self.choice(["r:" + xs(self.choice(dr)), "d:%d" % self.dbits()])
                    op = self.choice(["DADD", "DSUB", "DMUL", "DDIV"])
                    body.append("insn %d 3 %s %s %s" % (C[op], dd, da, db))
                elif k == 9 and dr:
                    op = self.choice(["DEQ", "DNE", "DLT", "DGE"])
                    body.append("insn %d 3 %s r:%s %s" % (C[op], d, xs(self.choice(dr)),
                                                         self.choice(["r:" + xs(self.choice(dr)), "d:%d" % self.dbits()])))
                elif k == 10:
                    lab += 1
                    pending.append((lab, i + 1 + self.below(4)))
                    op = self.choice(["BT", "BF", "BEQ", "BNE", "BLT", "UBGE", "JMP"])
                    if op == "JMP":
                        body.append("insn %d 1 l:%d" % (C[op], lab))
                    elif op in ("BT", "BF"):
                        body.append("insn %d 2 l:%d %s" % (C[op], lab, a))
                    else:
                        body.append("insn %d 3 l:%d %s %s" % (C[op], lab, a, b))
                elif k == 11 and funcs:
                    callee = self.choice(funcs)
                    ops = ["R:" + xs(callee["proto"]), "R:" + xs(callee["name"])]
                    for ty in callee["res"]:
                        ops.append("r:" + xs(self.choice(ir if ty == T_I64 else dr)) if (ty == T_I64 or dr) else None)
                    if None in ops:
                        continue
                    for kk in callee["kinds"]:
                        if kk == "i":
                            ops.append(self.choice(["r:" + xs(self.choice(ir)), "i:%d" % self.u64()]))
                        else:
                            ops.append("d:%d" % self.dbits())
                    body.append("insn %d %d %s" % (C["CALL"], len(ops), " ".join(ops)))
                else:
                    body.append("insn %d 3 %s %s %s" % (C["ADD"], d, a, b))
            for l, at in pending:
                body.append("label %d" % l)
            rops = []
            for ty in f.res:
                if ty == T_I64:
                    rops.append("r:" + xs(self.choice(ir)))
                else:
                    rops.append("r:" + xs(self.choice(dr)) if dr else "d:%d" % self.dbits())
            body.append("insn %d %d %s" % (C["RET"], len(rops), " ".join(rops)))
            f.body = body
            pn = self.ident(False)
            L.append(self.proto_line("proto", pn, False, f.res, f.args))
            L += self.func_lines(f)
            funcs.append({"name": f.name, "proto": pn, "res": f.res, "kinds": kinds})
            for _ in range(2):
                av = []
                for kk in kinds:
                    av.append(("i:%d" % self.u64()) if kk == "i" else ("d:%d" % self.dbits()))
                calls.append("call %s %d %s" % (xs(f.name), len(av), " ".join(av)))
        L.append("endmodule")
        return L, calls
