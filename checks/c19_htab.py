"""C19, HTAB part: the tie between /repo/mir-htab.h and the Lean model MirVerif.Model.Htab.

`run(ck)` (called by checks/c19.py) compiles harness/c19_htab.c against the current tree in two
flavours (ASan+UBSan with HTAB_ENABLE_CHECKING asserts, and -O2 -DNDEBUG), then

 * replays corpus/C19/htab*.json (and `--replay` files written by this stage),
 * EXHAUSTIVE: for several hash modes compares, per prefix block, the digest of *all* operation
   sequences of a given length over a small key universe between the real code (both flavours) and
   the Lean driver `mirdrv_c19 enum`,
 * RANDOM: long random operation streams, fed textually to both flavours, to `mirdrv_c19 stream` and
   to an independent pure-python reference map (4-way comparison).

A difference is located, shrunk and classified with the python reference map: real code != reference
(or hang / sanitizer report) -> ck.violation; real code == reference != Lean model -> broken tie.
"""
import glob
import hashlib
import json
import os
import shutil
import subprocess
import threading
import time
from concurrent.futures import ProcessPoolExecutor, ThreadPoolExecutor

import vf

SUPPORT = ["MirVerif.Model.Htab", "MirVerif.Model.HtabSpec", "MirVerif.Model.HtabArr",
           "MirVerif.Lemmas.HtabScan", "MirVerif.Lemmas.HtabList", "MirVerif.Lemmas.HtabWF",
           "MirVerif.Lemmas.HtabUpdate", "MirVerif.Lemmas.HtabTerm", "MirVerif.Lemmas.HtabRefine",
           "MirVerif.Lemmas.HtabConserve", "MirVerif.Lemmas.HtabArr", "MirVerif.Lemmas.Lcg"]
BRIDGE = []

STAGE = "tie"
CORR = "htab"
DRV = os.path.join(vf.LEAN, ".lake/build/bin/mirdrv_c19")
FLAGS_ASAN = ["-O1", "-g", "-fsanitize=address,undefined", "-fno-sanitize-recover=all", "-DHTAB_ENABLE_CHECKING"]
FLAGS_NDEBUG = ["-O2", "-DNDEBUG"]
WORKERS = 16
MAX_VIOLATIONS = 3
BULK_WATCHDOG_MS = 2000   # CPU time per stream line / per 1024 leaves in the bulk runs; confirmations use the harness default (5 s)
FLAVOURS = ("ndebug", "asan")
ACTS = ("f", "i", "r", "d")


# ---------------------------------------------------------------------------- subprocess helpers
def _env(wd_ms=None):
    e = dict(os.environ)
    e["ASAN_OPTIONS"] = "detect_leaks=1:abort_on_error=0"
    e["UBSAN_OPTIONS"] = "print_stacktrace=1:halt_on_error=1"
    if wd_ms:
        e["C19_WATCHDOG_MS"] = str(int(wd_ms))
    else:
        e.pop("C19_WATCHDOG_MS", None)
    return e


def _txt(x):
    if x is None:
        return ""
    return x.decode("utf-8", "replace") if isinstance(x, bytes) else x


def _run(cmd, inp=None, timeout=300, wd_ms=None):
    t = time.time()
    try:
        p = subprocess.run(cmd, input=inp, stdout=subprocess.PIPE, stderr=subprocess.PIPE, text=True,
                           timeout=timeout, env=_env(wd_ms))
        return {"rc": p.returncode, "out": p.stdout, "err": p.stderr, "killed": False, "t": time.time() - t}
    except subprocess.TimeoutExpired as e:
        return {"rc": -9, "out": _txt(e.stdout), "err": _txt(e.stderr), "killed": True, "t": time.time() - t}
    except OSError as e:
        return {"rc": -1, "out": "", "err": str(e), "killed": False, "noexec": True, "t": time.time() - t}


def _status(r):
    """(lines, status, detail) of one harness/driver run; status in ok|timeout|crash"""
    lines = r["out"].split("\n")
    if lines and lines[-1] == "":
        lines.pop()
    detail = ""
    status = "ok"
    tmo = [i for i, l in enumerate(lines) if l.startswith("TIMEOUT")]
    if tmo:
        detail = lines[tmo[0]]
        lines = lines[:tmo[0]]
        status = "timeout"
    elif r.get("noexec"):
        status, detail = "noexec", r["err"]      # binary vanished (cache clobbered by a concurrent run): infrastructure
    elif r["killed"]:
        status, detail = "timeout", "killed by the check after %.0fs" % r["t"]
    elif r["rc"] != 0:
        status = "crash"
        detail = "rc=%s %s" % (r["rc"], r["err"][-1500:])
    return lines, status, detail


def run_stream(exe, text, timeout=300, wd_ms=None):
    lines, status, detail = _status(_run([exe, "stream"], inp=text, timeout=timeout, wd_ms=wd_ms))
    return {"lines": lines, "status": status, "detail": detail}


# ---------------------------------------------------------------------------- python reference map
def _fmt(items):
    return ",".join("%d:%d" % kv for kv in sorted(items)) if items else "-"


def ref_stream(lines):
    """Independent reference written from the property text: an abstract map key -> stored element.
    find: reports the stored element; insert: stores only when the key is absent and reports the stored
    element; replace: stores always, the dropped old element is freed once; delete: removes and frees the
    stored element; clear/destroy free every stored element once.  `s` lines are layout statistics
    (None = not compared)."""
    out = []
    tab = None
    for ln in lines:
        w = ln.split()
        if not w:
            continue
        if w[0] == "new" and len(w) == 3:
            tab = {}
            out.append("ok")
        elif tab is None:
            out.append("error")
        elif w[0] in ACTS and len(w) == 3:
            k, v = int(w[1]), int(w[2])
            old = tab.get(k)
            found, res, freed = (0 if old is None else 1), None, []
            if w[0] == "f":
                res = None if old is None else (k, old)
            elif w[0] == "i":
                if old is None:
                    tab[k] = v
                    res = (k, v)
                else:
                    res = (k, old)
            elif w[0] == "r":
                if old is not None:
                    freed = [(k, old)]
                tab[k] = v
                res = (k, v)
            else:
                if old is not None:
                    freed = [(k, old)]
                    del tab[k]
            out.append("%d %s n=%d fr=%s" % (found, "-" if res is None else "%d:%d" % res, len(tab), _fmt(freed)))
        elif w == ["c"]:
            freed = list(tab.items())
            tab.clear()
            out.append("0 - n=0 fr=%s" % _fmt(freed))
        elif w == ["e"]:
            out.append("all=%s" % _fmt(list(tab.items())))
        elif w == ["s"]:
            out.append(None)
        elif w == ["x"]:
            out.append("fr=%s" % _fmt(list(tab.items())))
            tab = None
        else:
            out.append("error")
    return out


# ---------------------------------------------------------------------------- one case = new + ops
def case_lines(case):
    return ["new %d %d" % (case["mode"], case["minsize"])] + list(case["ops"])


def run_case(exes, case, flavours=FLAVOURS, model=True, wd_ms=None, timeout=300):
    L = case_lines(case)
    text = "\n".join(L) + "\n"
    res = {"L": L, "impl": {}, "model": None, "ref": None}
    with ThreadPoolExecutor(max_workers=3) as ex:
        futs = {fl: ex.submit(run_stream, exes[fl], text, timeout, wd_ms) for fl in flavours}
        fm = ex.submit(run_stream, DRV, text, max(timeout, 600)) if model else None
        res["ref"] = ref_stream(L)
        for fl in flavours:
            res["impl"][fl] = futs[fl].result()
        if fm is not None:
            res["model"] = fm.result()
    return res


def _parse_do(line):
    w = line.split(" ")
    if len(w) == 4 and w[2].startswith("n=") and w[3].startswith("fr="):
        return w[0], w[1], w[2], w[3]
    return None


def _slug_for(op, got, want):
    if op == "e":
        return "wrong-contents"
    if op == "x":
        return "wrong-free"
    if op in ACTS or op == "c":
        a, b = _parse_do(got or ""), _parse_do(want or "")
        if a is None or b is None or a[0] != b[0] or a[1] != b[1]:
            return "wrong-result"
        if a[3] != b[3]:
            return "wrong-free"
        if a[2] != b[2]:
            return "wrong-count"
    return "wrong-result"


def _first_diff(L, lines, ref):
    """index of the first line where `lines` disagrees with the reference (None: agree on all lines)"""
    for i in range(len(L)):
        if i >= len(lines):
            return i, "missing"
        if ref[i] is None:
            if not lines[i].startswith("coll="):
                return i, "diff"
            continue
        if lines[i] != ref[i]:
            return i, "diff"
    if len(lines) > len(L):
        return len(L), "extra"
    return None


def classify(res):
    """None when everything agrees; else {"kind": "violation"|"model", "slug", "line", ...}"""
    L, ref = res["L"], res["ref"]
    best = None
    for fl in FLAVOURS:
        r = res["impl"].get(fl)
        if r is None:
            continue
        if r["status"] == "noexec":
            return {"kind": "infra", "slug": "harness-not-executable", "line": 0, "flavour": fl, "op": L[0],
                    "impl": r["detail"], "reference": ref[0]}
        d = _first_diff(L, r["lines"], ref)
        if d is None and r["status"] != "ok":
            d = (len(L), "exit")
        if d is None:
            continue
        i, how = d
        if how in ("missing", "exit") and r["status"] == "timeout":
            slug = "nontermination"
        elif how in ("missing", "exit") and r["status"] == "crash":
            slug = "sanitizer"
        elif how == "diff":
            slug = _slug_for(L[i].split()[0], r["lines"][i], ref[i])
        else:
            slug = "wrong-result"
        c = {"kind": "violation", "slug": slug, "line": i, "flavour": fl,
             "op": L[i] if i < len(L) else "<exit>",
             "impl": r["lines"][i] if i < len(r["lines"]) else "<%s> %s" % (r["status"], r["detail"][-600:]),
             "reference": ref[i] if i < len(ref) else "<clean exit>"}
        if best is None or c["line"] < best["line"]:
            best = c
    if best is not None:
        if res["model"] is not None and best["line"] < len(res["model"]["lines"]):
            best["model"] = res["model"]["lines"][best["line"]]
        return best
    m = res["model"]
    if m is not None:
        d = _first_diff(L, m["lines"], ref)
        if d is None and m["status"] != "ok":
            d = (len(L), "exit")
        if d is not None:
            i = d[0]
            some = next(iter(res["impl"].values()), None)
            return {"kind": "model", "slug": "model-" + (m["status"] if m["status"] != "ok" else "differs"),
                    "line": i, "flavour": "model", "op": L[i] if i < len(L) else "<exit>",
                    "model": m["lines"][i] if i < len(m["lines"]) else "<%s> %s" % (m["status"], m["detail"][-300:]),
                    "impl": some["lines"][i] if some and i < len(some["lines"]) else None,
                    "reference": ref[i] if i < len(ref) else None}
    return None


def shrink(ops, pred, budget_s=60.0, log=None):
    """ddmin-style: remove chunks of decreasing size, then single ops, while pred(ops) stays true"""
    t0 = time.time()
    n_eval = 0
    chunk = max(1, len(ops) // 2)
    while True:
        removed = False
        i = 0
        while i < len(ops) and len(ops) > 1:
            if time.time() - t0 > budget_s:
                return ops, n_eval
            cand = ops[:i] + ops[i + chunk:]
            n_eval += 1
            if cand and pred(cand):
                ops = cand
                removed = True
            else:
                i += chunk
        if chunk == 1:
            if not removed:
                break
        else:
            chunk = max(1, min(chunk // 2, max(1, len(ops) // 2)))
    return ops, n_eval


def _trim(lines, upto):
    out = []
    lo = max(0, upto + 1 - 200)
    for l in lines[lo:upto + 1]:
        l = "<none>" if l is None else l
        out.append(l if len(l) <= 400 else l[:400] + "...")
    return out


def _canon(ops):
    """dedupe key of a shrunk op list: keys and vals renamed in order of first appearance"""
    km, vm, out = {}, {}, []
    for o in ops:
        w = o.split()
        if len(w) == 3 and w[0] in ACTS:
            out.append((w[0], km.setdefault(w[1], len(km)), vm.setdefault(w[2], len(vm))))
        else:
            out.append(tuple(w))
    return tuple(out)


class State:
    def __init__(self, ck, exes):
        self.ck = ck
        self.exes = exes
        self.reported = set()
        self.nviol = 0
        self.attempts = 0
        self.lock = threading.Lock()
        self.dist = {}
        self.hang_reported = False


def report(st, case, res, cl, origin):
    ck = st.ck
    if cl["kind"] == "infra":
        if not any(b.get("name") == "htab-harness-not-executable" for b in ck.broken_ties):
            ck.broken_ties.append({"kind": "harness-run", "name": "htab-harness-not-executable", "detail": cl["impl"]})
        return False
    key = (case["mode"], case["minsize"], _canon(case["ops"]))
    if key in st.reported:
        return False
    st.reported.add(key)
    upto = min(cl["line"], len(res["L"]) - 1)
    impl_fl = cl["flavour"] if cl["flavour"] in res["impl"] else next(iter(res["impl"]), None)
    impl_lines = res["impl"][impl_fl]["lines"] if impl_fl else []
    impl_out = _trim(impl_lines, upto)
    if impl_fl and res["impl"][impl_fl]["status"] != "ok":
        impl_out.append("<%s> %s" % (res["impl"][impl_fl]["status"], res["impl"][impl_fl]["detail"][-1200:]))
    model_out = _trim(res["model"]["lines"], upto) if res["model"] else []
    first = {k: (cl.get(k) if not isinstance(cl.get(k), str) or len(cl.get(k)) <= 600 else cl.get(k)[:600] + "...")
             for k in ("line", "op", "impl", "model", "reference", "flavour")}
    if cl["kind"] == "violation":
        if st.nviol >= MAX_VIOLATIONS:
            return False
        st.nviol += 1
        if cl["slug"] == "nontermination":
            st.hang_reported = True
        path = ck._next_replay()
        short = "%s after %d ops (hash mode %d, min size %d, %s build): op `%s` gives `%s`, expected `%s`" % (
            cl["slug"], len(case["ops"]), case["mode"], case["minsize"], cl["flavour"], cl["op"],
            (cl["impl"] or "")[:160], (cl["reference"] or "")[:160])
        ck.violation({"stage": STAGE, "correspondence": CORR, "origin": origin,
                      "input": {"mode": case["mode"], "minsize": case["minsize"], "ops": list(case["ops"])},
                      "first_diff": first,
                      "model_output": model_out, "impl_output": impl_out,
                      "impl_outputs_other": {fl: _trim(r["lines"], upto) for fl, r in res["impl"].items() if fl != impl_fl},
                      "reference_output": _trim(res["ref"], upto),
                      "how_to_rerun": "./check C19 --replay %s" % path},
                     what="HTAB " + short, signature="C19:htab-" + cl["slug"])
        return True
    ck.broken_ties.append({"kind": "correspondence", "name": "htab-model", "origin": origin,
                           "input": {"mode": case["mode"], "minsize": case["minsize"], "ops": list(case["ops"])},
                           "first_diff": first})
    ck.log("HTAB model/code tie broken (real code agrees with the reference map, Lean model does not): %s" % first)
    return True


def investigate(st, case, origin, res=None, do_shrink=True):
    """run, locate, shrink, classify, report.  Returns the classification (None: case passes)."""
    exes = st.exes
    if res is None:
        res = run_case(exes, case)
    cl = classify(res)
    if cl is None:
        return None
    if cl["kind"] == "infra":
        report(st, case, res, cl, origin)
        return cl
    st.attempts += 1
    ops = list(case["ops"])
    if cl["line"] < len(res["L"]):
        ops = ops[:cl["line"]]           # L[0] is the `new` line, so L[line] == ops[line-1]
    cur = dict(case, ops=ops)
    if do_shrink and len(ops) > 1:
        kind, slug = cl["kind"], cl["slug"]
        fls = (cl["flavour"],) if kind == "violation" else ("ndebug",)
        wd = 400 if slug == "nontermination" else None

        def pred(cand):
            r = run_case(exes, dict(case, ops=cand), flavours=fls, model=(kind == "model"), wd_ms=wd, timeout=120)
            c = classify(r)
            return c is not None and c["kind"] == kind and c["slug"] == slug
        t = time.time()
        small, n_eval = shrink(ops, pred, budget_s=60.0)
        st.ck.log("HTAB shrink: %d -> %d ops in %d runs, %.1fs" % (len(ops), len(small), n_eval, time.time() - t))
        cand = dict(case, ops=small)
        r2 = run_case(exes, cand)
        c2 = classify(r2)
        if c2 is not None and c2["kind"] == kind:
            cur, res, cl = cand, r2, c2
        else:
            res = run_case(exes, cur)
            cl = classify(res) or cl
    elif len(ops) != len(case["ops"]):
        res = run_case(exes, cur)
        cl = classify(res) or cl
    report(st, cur, res, cl, origin)
    return cl


# ---------------------------------------------------------------------------- corpus / replay
def replay_file(st, path, origin):
    try:
        with open(path) as f:
            j = json.load(f)
    except (OSError, ValueError) as e:
        st.ck.log("HTAB: cannot read %s: %s" % (path, e))
        return None
    if "input" in j:
        if j.get("stage") != STAGE or j.get("correspondence") != CORR:
            return None
        j = j["input"]
    if not isinstance(j, dict) or "ops" not in j:
        return None
    case = {"mode": int(j.get("mode", 1)), "minsize": int(j.get("minsize", 2)), "ops": [str(x) for x in j["ops"]]}
    cl = investigate(st, case, origin, do_shrink=False)
    st.ck.cov["evaluations"] += 2
    st.ck.log("HTAB %s %s: %s" % (origin, os.path.basename(path), "passes" if cl is None else cl["kind"] + " " + cl["slug"]))
    return case, cl


# ---------------------------------------------------------------------------- exhaustive part
def enum_configs(tier):
    """`who`: the harness flavours that run the configuration (the Lean driver always does).  In the thorough tier
    the ASan+asserts build (8x slower) covers sequences one shorter than the NDEBUG build; the quick tier runs both
    builds on everything."""
    cfgs = []
    both = ("ndebug", "asan")

    def add(mode, minsize, nkeys, ln, plen, who=both):
        cfgs.append({"mode": mode, "minsize": minsize, "nkeys": nkeys, "len": ln, "plen": plen, "who": list(who)})
    if tier == "quick":
        for m in range(8):
            add(m, 2, 3, 5, 1)
        for m in (0, 2):
            add(m, 2, 4, 4, 1)
        add(0, 2, 3, 6, 2)
        add(7, 4, 3, 6, 2)
    else:
        for m in range(8):
            add(m, 2, 3, 7, 2, ("ndebug",))
            add(m, 2, 3, 6, 2, ("asan",))
        for m in (0, 2, 7):
            add(m, 2, 4, 6, 2, ("ndebug",))
            add(m, 2, 4, 5, 2, ("asan",))
        for m in (0, 1):
            add(m, 4, 3, 7, 2, ("ndebug",))
            add(m, 4, 3, 6, 2, ("asan",))
        add(2, 4, 4, 6, 2, ("ndebug",))
        add(2, 4, 4, 5, 2, ("asan",))
        add(4, 8, 3, 6, 2)
    return cfgs


def decode_seq(cfg, seqno):
    A = 4 * cfg["nkeys"] + 1
    codes = []
    x = seqno
    for _ in range(cfg["len"]):
        codes.append(x % A)
        x //= A
    codes.reverse()
    ops = []
    for pos, c in enumerate(codes):
        if c < 4 * cfg["nkeys"]:
            ops.append("%s %d %d" % (ACTS[c // cfg["nkeys"]], c % cfg["nkeys"], pos + 1))
        else:
            ops.append("c")
    return ops


def _enum_cmd(exe, cfg, lo, hi, verbose=False):
    return [exe, "enum"] + [str(x) for x in (cfg["mode"], cfg["minsize"], cfg["nkeys"], cfg["len"], cfg["plen"], lo, hi)] + \
        (["v"] if verbose else [])


def _parse_enum(out):
    blk, cnt, leaf = {}, {}, []
    for l in out.split("\n"):
        w = l.split()
        if len(w) == 3 and w[0] == "blk":
            blk[int(w[1])] = w[2]
        elif len(w) == 7 and w[0] == "cnt":
            cnt[int(w[1])] = [int(x) for x in w[2:]]
        elif len(w) == 3 and w[0] == "leaf":
            leaf.append((int(w[1]), w[2]))
    return blk, cnt, leaf


def enum_part(st):
    ck, exes = st.ck, st.exes
    cfgs = enum_configs(ck.tier)
    who_order = ("asan", "model", "ndebug")
    tasks = []
    for ci, c in enumerate(cfgs):
        A = 4 * c["nkeys"] + 1
        npfx = A ** c["plen"]
        nchunks = min(npfx, 48)
        bounds = [npfx * k // nchunks for k in range(nchunks + 1)]
        for k in range(nchunks):
            for who in who_order:
                if who != "model" and who not in c["who"]:
                    continue
                tasks.append((ci, bounds[k], bounds[k + 1], who))
    tasks.sort(key=lambda t: (who_order.index(t[3]), t[0], t[1]))
    failed_chunks = [0]

    def work(t):
        ci, lo, hi, who = t
        if who != "model" and failed_chunks[0] >= 12:
            return t, None
        exe = DRV if who == "model" else exes[who]
        r = _run(_enum_cmd(exe, cfgs[ci], lo, hi), timeout=3000, wd_ms=BULK_WATCHDOG_MS)
        lines, status, detail = _status(r)
        blk, cnt, _ = _parse_enum(r["out"])
        if status != "ok" and who != "model":
            with st.lock:
                failed_chunks[0] += 1
        return t, {"blk": blk, "cnt": cnt, "status": status, "detail": detail, "t": r["t"]}

    t0 = time.time()
    with ThreadPoolExecutor(max_workers=WORKERS) as ex:
        results = list(ex.map(work, tasks))
    ck.log("HTAB enum: %d chunks of %d configurations in %.1fs" % (len(tasks), len(cfgs), time.time() - t0))

    # ---- a few isolated dead chunks (e.g. the process was killed from outside): run their rest once more;
    #      a systematic failure (many chunks) goes straight to the investigation
    died = [k for k, (t, r) in enumerate(results) if t[3] != "model" and r is not None and r["status"] != "ok"]
    retried_ok = 0
    if 0 < len(died) <= 8:
        def retry(k):
            (ci, lo, hi, who), r = results[k]
            p0 = next((p for p in range(lo, hi) if p not in r["blk"]), lo)
            return k, work((ci, p0, hi, who))[1]
        with ThreadPoolExecutor(max_workers=8) as ex:
            for k, r2 in ex.map(retry, died):
                r = results[k][1]
                if r2 is not None and r2["status"] == "ok":
                    ck.log("HTAB enum: chunk %s died (%s %s) but its re-run completed" % (
                        results[k][0], r["status"], r["detail"][:200]))
                    r["blk"].update(r2["blk"])
                    r["cnt"].update(r2["cnt"])
                    r["detail"] = "re-run ok after: %s %s" % (r["status"], r["detail"][:300])
                    r["status"] = "ok"
                    retried_ok += 1

    # ---- compare
    per = {}   # (ci, who) -> list of (lo, hi, result)
    for (ci, lo, hi, who), r in results:
        per.setdefault((ci, who), []).append((lo, hi, r))
    failures = []     # (ci, pfx, flavour, known_seqno or None, detail)
    skipped = 0
    leaves = {"asan": 0, "ndebug": 0}
    sums = [0, 0, 0, 0, 0]    # leaves growth delhit tombins nontrivial (ndebug flavour)
    cfg_stats = []
    for ci, c in enumerate(cfgs):
        mblk = {}
        for lo, hi, r in per[(ci, "model")]:
            if r is None or r["status"] != "ok" or any(p not in r["blk"] for p in range(lo, hi)):
                ck.broken_ties.append({"kind": "driver", "name": "mirdrv_c19 enum", "config": c, "range": [lo, hi],
                                       "detail": (r or {}).get("detail", "")[-500:]})
            if r is not None:
                mblk.update(r["blk"])
        n_ok = 0
        for fl in ("ndebug", "asan"):
            for lo, hi, r in sorted(per.get((ci, fl), []), key=lambda x: x[0]):
                if r is None:
                    skipped += 1
                    continue
                for p in range(lo, hi):
                    if p in r["cnt"]:
                        leaves[fl] += r["cnt"][p][0]
                        if fl == c["who"][0]:       # count each configuration's sequences once
                            for k in range(5):
                                sums[k] += r["cnt"][p][k]
                    if p not in r["blk"]:
                        seq = None
                        if r["status"] == "timeout" and r["detail"].startswith("TIMEOUT "):
                            try:
                                seq = int(r["detail"].split()[1])
                            except ValueError:
                                seq = None
                        failures.append((ci, p, fl, seq, "%s %s" % (r["status"], r["detail"][-800:])))
                        break      # later prefixes of the chunk were never reached
                    if p in mblk and r["blk"][p] != mblk[p]:
                        failures.append((ci, p, fl, None, "digest %s != model %s" % (r["blk"][p], mblk[p])))
                    else:
                        n_ok += 1
        cfg_stats.append(dict(c, prefixes=(4 * c["nkeys"] + 1) ** c["plen"], agreeing_blocks=n_ok))
    failures.sort(key=lambda f: (f[0], f[1], FLAVOURS.index(f[2])))
    if failures:
        ck.log("HTAB enum: %d failing blocks (first: cfg=%s pfx=%d %s: %s)" % (
            len(failures), cfgs[failures[0][0]], failures[0][1], failures[0][2], failures[0][4][:300]))
    tried = set()
    for ci, pfx, fl, seq, detail in failures:
        if st.nviol >= MAX_VIOLATIONS or len(tried) >= 5:
            break
        if (ci, pfx) in tried:
            continue
        if detail.startswith("timeout") and st.hang_reported:
            continue
        tried.add((ci, pfx))
        c = cfgs[ci]
        if seq is None:
            seq = locate_leaf(st, c, pfx, fl)
        if seq is None:
            ck.broken_ties.append({"kind": "correspondence", "name": "htab-enum-digest", "config": c, "prefix": pfx,
                                   "flavour": fl, "first_diff": detail, "note": "block digest differs but no differing leaf found"})
            continue
        ops = []
        for o in decode_seq(c, seq):
            ops += [o, "e"]
        ops.append("x")
        case = {"mode": c["mode"], "minsize": c["minsize"], "ops": ops}
        cl = investigate(st, case, "enum cfg=%s seqno=%d" % (json.dumps(c, sort_keys=True), seq))
        if cl is None:
            ck.broken_ties.append({"kind": "correspondence", "name": "htab-enum-vs-stream", "config": c, "seqno": seq,
                                   "ops": ops, "first_diff": detail,
                                   "note": "enum digests differ for this sequence but its stream replay agrees everywhere"})
    n_leaves = leaves["asan"] + leaves["ndebug"]
    ck.cov["evaluations"] += n_leaves
    ck.cov["distinct_nontrivial"] += sums[4]
    st.dist["enum"] = {"configs": cfg_stats, "leaves_asan": leaves["asan"], "leaves_ndebug": leaves["ndebug"],
                       "leaves_with_growth": sums[1], "leaves_with_delete_hit": sums[2],
                       "leaves_with_tombstone_then_new_insert": sums[3], "leaves_nontrivial": sums[4],
                       "failing_blocks": len(failures), "chunks_skipped_after_failures": skipped,
                       "chunks_rerun_ok": retried_ok}
    ck.stage("htab-enum", configs=len(cfgs), leaves=n_leaves, failing_blocks=len(failures), wall=round(time.time() - t0, 1))
    return cfgs


def locate_leaf(st, cfg, pfx, fl):
    """first leaf (sequence number) of the prefix block on which harness and driver disagree"""
    rh = _run(_enum_cmd(st.exes[fl], cfg, pfx, pfx + 1, True), timeout=3000)
    rm = _run(_enum_cmd(DRV, cfg, pfx, pfx + 1, True), timeout=3000)
    lines, status, detail = _status(rh)
    if status == "timeout" and detail.startswith("TIMEOUT "):
        try:
            return int(detail.split()[1])
        except ValueError:
            pass
    _, _, lh = _parse_enum(rh["out"])
    _, _, lm = _parse_enum(rm["out"])
    for i, (s, h) in enumerate(lm):
        if i >= len(lh):
            return s                      # harness died while executing this leaf
        if lh[i] != (s, h):
            return s
    return None


# ---------------------------------------------------------------------------- random part
MIXES = {"insert-heavy": (2, 5, 1, 2), "delete-heavy": (2, 3, 1, 4), "balanced": (3, 3, 2, 2), "replace-heavy": (1, 2, 5, 2)}
MINSIZES = (0, 1, 2, 3, 4, 5, 8, 100)
UNIVERSES = (4, 16, 64, 1000, 5000)


def gen_segment(rng, n, universe, mix, clear_den, e_lo, e_hi, counter):
    w = MIXES[mix]
    ops = []
    next_e = e_lo + rng.below(e_hi - e_lo + 1)
    for _ in range(n):
        if clear_den and rng.below(clear_den) == 0:
            ops.append("c")
        else:
            x = rng.below(10)
            a = 0 if x < w[0] else 1 if x < w[0] + w[1] else 2 if x < w[0] + w[1] + w[2] else 3
            counter[0] += 1
            ops.append("%s %d %d" % (ACTS[a], rng.below(universe), counter[0]))
        next_e -= 1
        if next_e <= 0:
            ops.append("e")
            next_e = e_lo + rng.below(e_hi - e_lo + 1)
    return ops


def gen_stream(rng, tier, idx):
    mode = idx % 8
    minsize = rng.choice(MINSIZES)
    universe = rng.choice(UNIVERSES)
    mix = rng.choice(sorted(MIXES))
    clear_den = rng.choice((0, 400, 2000, 5000))
    if tier == "quick":
        n = rng.choice((20000, 50000, 100000))
    elif idx < 6:
        n = 1000000
    else:
        n = rng.choice((20000, 50000, 100000, 200000))
    if mode in (0, 2):
        # constant / two-valued hash: every probe walks the whole chain, cost ~ n * universe
        while universe > 64 and n * universe > 300000000:
            universe = UNIVERSES[UNIVERSES.index(universe) - 1]
    e_lo = max(50, universe // 4)       # FOREACH dumps are O(universe): keep them sparse for big universes
    e_hi = 2 * e_lo
    counter = [0]
    ops = gen_segment(rng, n, universe, mix, clear_den, e_lo, e_hi, counter)
    ops += ["e", "s"]
    second = rng.below(3) == 0
    if not (second and rng.below(2) == 0):
        ops.append("x")                 # else: the second `new` destroys the live table silently
    if second:
        m2, s2 = rng.below(8), rng.choice(MINSIZES)
        ops.append("new %d %d" % (m2, s2))
        ops += gen_segment(rng, 200 + rng.below(800), rng.choice((4, 16, 64)), rng.choice(sorted(MIXES)), 300, 20, 60, counter)
        ops += ["e", "s", "x"]
        if rng.below(4) == 0:
            ops.append("x")             # destroy of a destroyed table: every side answers `error`
    return {"mode": mode, "minsize": minsize, "ops": ops,
            "meta": {"universe": universe, "mix": mix, "clear_1_in": clear_den, "ops": len(ops), "second_new": second}}


def _pow2ceil(minsize):
    s = 2
    while minsize > s:
        s *= 2
    return s


def _stream_job(args):
    """one random stream on all four sides (runs in a worker process); returns only small summaries"""
    exes, i, case = args
    L = case_lines(case)
    text = "\n".join(L) + "\n"
    times = {}
    out = {}
    for who in ("asan", "ndebug", "model"):
        t = time.time()
        out[who] = run_stream(DRV if who == "model" else exes[who], text, timeout=900, wd_ms=BULK_WATCHDOG_MS)
        times[who] = time.time() - t
    t = time.time()
    ref = ref_stream(L)
    times["ref"] = time.time() - t
    res = {"L": L, "impl": {"asan": out["asan"], "ndebug": out["ndebug"]}, "model": out["model"], "ref": ref}
    s = {"kinds": {}, "branches": {}, "layout_yes": 0, "layout_n": 0, "layout_diffs": [], "max_size": 0,
         "growth": 0, "d_hit": 0, "timeouts": sum(1 for w in out if out[w]["status"] == "timeout")}
    cur_min = case["minsize"]
    for j, ln in enumerate(L):
        w = ln.split()
        s["kinds"][w[0]] = s["kinds"].get(w[0], 0) + 1
        if w[0] == "new":
            cur_min = int(w[2])
        elif w[0] in ACTS and ref[j]:
            hit = ref[j][0] == "1"
            b = w[0] + ("_hit" if hit else "_miss")
            s["branches"][b] = s["branches"].get(b, 0) + 1
            if w[0] == "d" and hit:
                s["d_hit"] += 1
        elif w[0] == "s":
            trio = [out[x]["lines"][j] if j < len(out[x]["lines"]) else None for x in ("asan", "ndebug", "model")]
            s["layout_n"] += 1
            if trio[0] is not None and trio[0] == trio[1] == trio[2]:
                s["layout_yes"] += 1
            elif len(s["layout_diffs"]) < 2:
                s["layout_diffs"].append({"stream": i, "line": j, "asan": trio[0], "ndebug": trio[1], "model": trio[2]})
            for x in trio[:2]:
                if x and x.startswith("coll="):
                    try:
                        size = int(x.split()[1].split("=")[1])
                    except (IndexError, ValueError):
                        continue
                    s["max_size"] = max(s["max_size"], size)
                    g, base = 0, 2 * _pow2ceil(cur_min)
                    while base < size:
                        base *= 2
                        g += 1
                    s["growth"] += g
                    break
    s["digest"] = hashlib.sha256(text.encode()).hexdigest()
    sample = {"mode": case["mode"], "minsize": case["minsize"], "meta": case["meta"], "first_ops": L[:10],
              "real_code_output": out["ndebug"]["lines"][:10], "model_output": out["model"]["lines"][:10]}
    return {"i": i, "stats": s, "cl": classify(res), "times": times, "sample": sample}


def random_part(st):
    ck, exes = st.ck, st.exes
    nstreams = 16 if ck.tier == "quick" else 48
    cases = [gen_stream(ck.rng, ck.tier, i) for i in range(nstreams)]
    order = sorted(range(nstreams), key=lambda i: (-len(cases[i]["ops"]), i))      # longest first
    t0 = time.time()
    with ProcessPoolExecutor(max_workers=WORKERS) as ex:
        results = list(ex.map(_stream_job, [(exes, i, cases[i]) for i in order]))
    results.sort(key=lambda r: r["i"])
    tmax = {}
    for r in results:
        for who, dt in r["times"].items():
            tmax[who] = max(tmax.get(who, 0.0), dt)
    ck.log("HTAB random: %d streams, %d lines, %.1fs (slowest: %s)" % (
        nstreams, sum(len(c["ops"]) + 1 for c in cases), time.time() - t0,
        " ".join("%s=%.1fs" % kv for kv in sorted(tmax.items()))))

    kinds, branches = {}, {}
    layout_yes = layout_n = growth_events = max_size = timeouts = failing = 0
    nontrivial = set()
    layout_diffs = []
    n_invest = 0
    for r in results:
        i, s, cl = r["i"], r["stats"], r["cl"]
        case = cases[i]
        for k, v in s["kinds"].items():
            kinds[k] = kinds.get(k, 0) + v
        for k, v in s["branches"].items():
            branches[k] = branches.get(k, 0) + v
        layout_yes += s["layout_yes"]
        layout_n += s["layout_n"]
        layout_diffs += s["layout_diffs"][:max(0, 4 - len(layout_diffs))]
        growth_events += s["growth"]
        max_size = max(max_size, s["max_size"])
        timeouts += s["timeouts"]
        if s["growth"] > 0 and s["d_hit"] > 0:
            nontrivial.add(s["digest"])
        if cl is not None:
            failing += 1
            ck.log("HTAB random stream %d (%s, mode %d, minsize %d): %s %s at line %d `%s`" % (
                i, case["meta"], case["mode"], case["minsize"], cl["kind"], cl["slug"], cl["line"], cl["op"]))
            if cl["kind"] == "infra":
                report(st, case, None, cl, "random")
            elif st.nviol < MAX_VIOLATIONS and n_invest < 3 and not (cl["slug"] == "nontermination" and st.hang_reported):
                n_invest += 1
                ops = case["ops"]
                if cl["line"] < len(ops) + 1:
                    ops = ops[:cl["line"]]      # nothing after the first differing line is needed
                c2 = investigate(st, {"mode": case["mode"], "minsize": case["minsize"], "ops": ops},
                                 "random stream %d seed %d tier %s %s" % (i, ck.seed, ck.tier, json.dumps(case["meta"], sort_keys=True)))
                if c2 is None:
                    ck.broken_ties.append({"kind": "correspondence", "name": "htab-random-unreproducible", "stream": i,
                                           "first_diff": {k: str(cl.get(k))[:600] for k in ("line", "op", "impl", "model", "reference", "flavour")}})
        if i < 2:
            ck.sample({"htab_stream": r["sample"]})
    ck.cov["evaluations"] += 2 * nstreams
    ck.cov["distinct_nontrivial"] += len(nontrivial)
    st.dist["random"] = {"streams": nstreams, "stream_lengths": sorted(len(c["ops"]) for c in cases),
                         "modes": sorted({c["mode"] for c in cases}), "minsizes": sorted({c["minsize"] for c in cases}),
                         "universes": sorted({c["meta"]["universe"] for c in cases}),
                         "mixes": sorted({c["meta"]["mix"] for c in cases}),
                         "second_new": sum(1 for c in cases if c["meta"]["second_new"]),
                         "op_kinds": kinds, "branches": branches, "growth_events": growth_events,
                         "max_entries_size": max_size, "layout_agree": "%d/%d" % (layout_yes, layout_n),
                         "layout_diffs": layout_diffs, "timeouts": timeouts, "failing_streams": failing,
                         "streams_nontrivial": len(nontrivial)}
    ck.log("HTAB random: failing=%d layout_agree=%d/%d growth_events=%d max_entries=%d nontrivial=%d%s" % (
        failing, layout_yes, layout_n, growth_events, max_size, len(nontrivial),
        (" first layout diff: %s" % layout_diffs[0]) if layout_diffs else ""))
    ck.stage("htab-random", streams=nstreams, failing=failing, layout_agree="%d/%d" % (layout_yes, layout_n),
             wall=round(time.time() - t0, 1))


# ---------------------------------------------------------------------------- entry
def _private_copies(ck, exes):
    """vf.Check.cc drops same-name binaries built for another tree, so a concurrent run of this check with a
    different VERIF_REPO would delete ours mid-run: work on private copies (.cache/c19_htab/<pid>/)."""
    root = os.path.join(vf.CACHE, "c19_htab")
    os.makedirs(root, exist_ok=True)
    for d in os.listdir(root):                       # directories of dead runs
        if d.isdigit() and not os.path.exists("/proc/" + d):
            shutil.rmtree(os.path.join(root, d), ignore_errors=True)
    mine = os.path.join(root, str(os.getpid()))
    os.makedirs(mine, exist_ok=True)
    out = {}
    for k, v in exes.items():
        out[k] = os.path.join(mine, os.path.basename(v))
        shutil.copy2(v, out[k])
    return mine, out


def run(ck):
    t0 = time.time()
    exes = ck.cc_par([("c19_htab_asan", ["harness/c19_htab.c"], FLAGS_ASAN),
                      ("c19_htab_ndebug", ["harness/c19_htab.c"], FLAGS_NDEBUG)])
    exes = {"asan": exes.get("c19_htab_asan"), "ndebug": exes.get("c19_htab_ndebug")}
    bad = [k for k, v in exes.items() if v is None]
    if bad:
        for k in bad:
            ck.broken_ties.append({"kind": "harness-compile", "name": "c19_htab_" + k,
                                   "log": (getattr(ck, "last_cc_log", "") or "")[-1500:]})
        return
    if not os.path.exists(DRV):
        ck.broken_ties.append({"kind": "driver", "name": "mirdrv_c19", "log": "missing " + DRV})
        return
    try:
        mine, exes = _private_copies(ck, exes)
    except OSError as e:
        ck.broken_ties.append({"kind": "harness-run", "name": "htab-harness-not-executable", "detail": str(e)})
        return
    try:
        _run_stages(ck, exes, t0)
    finally:
        shutil.rmtree(mine, ignore_errors=True)


def _run_stages(ck, exes, t0):
    st = State(ck, exes)

    if ck.replay:
        r = replay_file(st, ck.replay if os.path.isabs(ck.replay) else os.path.join(vf.VERIF, ck.replay), "replay")
        if r is None:
            ck.log("HTAB: replay file is not an HTAB tie case; ignored")
        return
    for p in sorted(glob.glob(os.path.join(vf.VERIF, "corpus", "C19", "htab*.json"))):
        replay_file(st, p, "corpus")

    cfgs = enum_part(st)
    random_part(st)

    modes = sorted({c["mode"] for c in cfgs})
    ck.cov["rule"] = (ck.cov.get("rule") or "") + (
        " | HTAB: (a) every operation sequence (find/insert/replace/delete on each key, clear) of the listed length over "
        "the listed key universe, per hash mode, executed on mir-htab.h (ASan+asserts and NDEBUG builds) and on the Lean "
        "model, digests of all observations (flag, *res, els_num, freed elements, FOREACH contents after every op, elements "
        "freed by destroy) compared per prefix block; a sequence counts as non-trivial when the harness observed a rebuild "
        "(entries size changed), a successful delete, or a new-key insert while tombstones existed (counted by the harness, "
        "NDEBUG build, sequences are distinct by construction per configuration); (b) random streams from VERIF_SEED "
        "compared line by line between both builds, the Lean model and a python reference map; a stream counts when it had "
        "at least one rebuild and one successful delete (distinct by text hash)")
    ck.cov.setdefault("distribution", {})["htab"] = dict(st.dist, violations_reported=st.nviol,
                                                         wall_s=round(time.time() - t0, 1))
    L = max(c["len"] for c in cfgs)
    ck.cov.setdefault("exhaustive_parts", {})["htab"] = (
        "all op sequences of length %s over %s keys (find/insert/replace/delete per key + clear), hash modes %s; %s" % (
            "/".join(str(x) for x in sorted({c["len"] for c in cfgs})),
            "/".join(str(x) for x in sorted({c["nkeys"] for c in cfgs})), modes,
            "; ".join("mode %d minsize %d: %d keys len %d (%s)" % (c["mode"], c["minsize"], c["nkeys"], c["len"], "+".join(c["who"]))
                      for c in cfgs)))
    ck.sample({"htab_enum": st.dist.get("enum", {}).get("configs", [])[:2], "max_len": L})
    ck.assumptions += [
        "HTAB: min_size <= 2^31 and the table stays below 2^32 entries (htab_size_t is unsigned; size doubling is not checked for overflow)",
        "HTAB: eq_func is an equivalence relation and hash_func is compatible with it (eq elements have equal hashes); "
        "the tie uses eq = same key, hash = function of the key (8 functions incl. constant, shifted, multiplicative, ~key)",
        "HTAB: free_func/eq_func/hash_func do not call back into the table; allocation never fails",
        "HTAB: the Lean model is compared with the code on observations (results, counts, freed elements, contents) exhaustively "
        "only up to the stated length/universe; layout statistics (collisions, sizes) are compared softly (layout_agree)",
    ]
