"""C17 — all memory goes through the user's allocators and is released at finish.

Stages
  1. inventory translator (translate/c17_sites.py) + proof gate (MirVerif.Props.C17, mirdrv_c17)
  2. harness build: harness/c17_harness.c (+ mir.c) | mir-gen.c | c2mir/c2mir.c of $VERIF_REPO
  3. inventory verdict: every raw libc-allocator site is a finding keyed "C17:raw-<callee>:<file>:<func>"
  4. correspondences model <-> code: VARR op histories, code-page op histories (events must be equal),
     HTAB histories (ledger acceptance)
  5. monitored API histories: scan / read / c2mir / API-built modules, output, binary round trip, load,
     link with every interface, generate at levels 0-3, run, finish — trace judged by `mirdrv_c17 ledger`
"""
import json, os, re, subprocess, sys, time, shutil, tempfile, hashlib
from concurrent.futures import ThreadPoolExecutor
import vf
from vf import Check, VERIF, REPO

ck = Check("C17")
QUICK = ck.tier == "quick"
WORK = os.path.join(vf.CACHE, f"c17_work_{os.getpid()}")
DRV = os.path.join(vf.LEAN, ".lake", "build", "bin", "mirdrv_c17")

# ------------------------------------------------------------------ 1. proof gate
proof_ok = ck.proof_gate(["MirVerif.Props.C17"],
                         support_modules=["MirVerif.Model.Alloc", "MirVerif.Model.VarrAlloc",
                                          "MirVerif.Model.AllocCode", "MirVerif.Lemmas.Alloc",
                                          "MirVerif.Lemmas.AllocVarr", "MirVerif.Lemmas.AllocCode"],
                         exes=["mirdrv_c17"], translators=["c17_sites.py"])
ck.cov["trusted_base"] += ["translate/c17_sites.py (tokenizer + enclosing-function heuristic)",
                           "harness/c17_harness.c (checking allocators, libc interposition by return address)",
                           "gcc, glibc __libc_malloc/__libc_free, addr2line"]

# ------------------------------------------------------------------ 2. harness
CFLAGS = ["-O1", "-g", "-fno-omit-frame-pointer", "-DNDEBUG", "-I" + REPO, "-I" + os.path.join(VERIF, "harness"),
          "-DMIR_VERIF", "-w"]


def build_harness(name="c17_harness", CFLAGS=CFLAGS, LDFLAGS=()):
    hsrc = os.path.join(VERIF, "harness", "c17_harness.c")
    units = [("h", hsrc), ("gen", os.path.join(REPO, "mir-gen.c")), ("c2m", os.path.join(REPO, "c2mir", "c2mir.c"))]
    key = vf.file_hash(vf.repo_sources() + [hsrc], " ".join(CFLAGS))
    d = os.path.join(vf.CACHE, "bin")
    os.makedirs(d, exist_ok=True)
    exe = os.path.join(d, f"{name}-{key}")
    if os.path.exists(exe):
        return exe, ""
    for f in os.listdir(d):
        if f.startswith(name + "-"):
            try:
                os.remove(os.path.join(d, f))
            except OSError:
                pass
    t = time.time()
    objs = [exe + f".{n}.o" for n, _ in units]

    def cc(i):
        return vf.sh(["gcc", *CFLAGS, "-c", units[i][1], "-o", objs[i]])
    with ThreadPoolExecutor(max_workers=3) as ex:
        res = list(ex.map(cc, range(len(units))))
    log = "".join(o for _, o in res)
    if any(rc != 0 for rc, _ in res):
        return None, log
    rc, out = vf.sh(["gcc", "-no-pie", *LDFLAGS, "-o", exe + ".tmp", *objs, "-lm", "-ldl", "-lpthread"])
    for o in objs:
        try:
            os.remove(o)
        except OSError:
            pass
    if rc != 0:
        return None, log + out
    os.replace(exe + ".tmp", exe)
    ck.log(f"harness built in {time.time() - t:.1f}s")
    return exe, log


with ThreadPoolExecutor(max_workers=3) as _ex:
    _f1 = _ex.submit(build_harness)
    # AddressSanitizer flavour (no libc interposition; freed blocks go straight back to ASan)
    _f3 = _ex.submit(build_harness, "c17_harnessasan", CFLAGS + ["-DH_ASAN", "-fsanitize=address"], ["-fsanitize=address"])
    # assert-enabled flavour (no -DNDEBUG): used for the tiered histories only
    _f2 = _ex.submit(build_harness, "c17_harnessdbg", [f for f in CFLAGS if f != "-DNDEBUG"])
    EXE, build_log = _f1.result()
    EXE_DBG, _dbg_log = _f2.result()
    EXE_ASAN, _asan_log = _f3.result()
if EXE is not None and EXE_ASAN is None:
    ck.broken_ties.append({"kind": "harness-compile", "name": "c17_harness (ASan flavour)", "log": _asan_log[-1500:]})
if EXE is not None and EXE_DBG is None:
    ck.broken_ties.append({"kind": "harness-compile", "name": "c17_harness (assert flavour)", "log": _dbg_log[-1500:]})
if EXE is None:
    ck.log("HARNESS BUILD FAILED\n" + build_log[-3000:])
    ck.broken_ties.append({"kind": "harness-compile", "name": "c17_harness", "log": build_log[-1500:]})
ck.stage("build", ok=EXE is not None)

# ------------------------------------------------------------------ findings (one per signature)
findings = {}     # signature -> {"what", "replay"}


def finding(sig, what, replay):
    if sig not in findings:
        findings[sig] = {"what": what, "replay": replay}
    else:
        cur = findings[sig]["replay"]
        if cur.get("stage") == "inventory" and replay.get("stage") == "tie":
            # the site was also observed on the real code: the history is the failing input
            for k in ("stage", "input", "impl", "spec_verdict", "how_to_rerun", "theorem_or_correspondence"):
                if k in replay:
                    cur[k] = replay[k]
        for k, v in replay.items():
            cur.setdefault(k, v)


# ------------------------------------------------------------------ 3. inventory verdict
inv = {}
try:
    inv = json.load(open(os.path.join(vf.CACHE, "c17_sites.json")))
except (OSError, ValueError):
    ck.broken_ties.append({"kind": "translator", "name": "c17_sites.py", "log": "no inventory json"})
raw_sites = [s for s in inv.get("sites", []) if s["kind"] in ("raw", "rawref")]
for s in raw_sites:
    finding(s["signature"],
            f"library source uses the libc allocator directly: {s['callee']} in {s['file']}:{s['func']} (line {s['line']})",
            {"stage": "inventory", "site": s,
             "input": f"{s['file']}: function {s['func']} calls {s['callee']}",
             "how_to_rerun": f"VERIF_REPO={REPO} python3 /verif/translate/c17_sites.py; grep -n '{s['callee']} (' {REPO}/{s['file']}"})
wr = [s for s in inv.get("sites", []) if s["kind"] == "wrapper"]
ck.cov["inventory"] = {"files": len(inv.get("files", [])), "wrapper_sites": len(wr), "raw_sites": len(raw_sites),
                       "realloc_sites": [f"{s['file']}:{s['func']}" for s in wr if s["callee"] == "MIR_realloc"],
                       "code_alloc_sites": [f"{s['callee']}@{s['file']}:{s['func']}" for s in wr if "mem_" in s["callee"]]}
# if the proof gate broke because of the inventory, name the offending sites (that is the failing input)
if not proof_ok:
    for s in wr:
        bad = None
        if s["callee"] == "MIR_realloc" and not (s["file"] == "mir-varr.h" and s["func"] in ("DEF_VARR:expand", "DEF_VARR:tailor")):
            bad = "MIR_realloc called outside VARR_EXPAND/VARR_TAILOR: the old-size proof does not cover it"
        if s["callee"] == "MIR_mem_map" and (s["file"], s["func"]) != ("mir.c", "get_last_code_holder"):
            bad = "MIR_mem_map called outside get_last_code_holder"
        if s["callee"] == "MIR_mem_unmap" and (s["file"], s["func"]) != ("mir.c", "code_finish"):
            bad = "MIR_mem_unmap called outside code_finish"
        if s["callee"] == "MIR_mem_protect" and (s["file"], s["func"]) != ("mir.c", "_MIR_set_code"):
            bad = "MIR_mem_protect called outside _MIR_set_code"
        if bad:
            finding(f"C17:unmodelled-site:{s['callee']}:{os.path.basename(s['file'])}:{s['func']}", bad,
                    {"stage": "inventory", "site": s, "input": f"{s['file']}:{s['line']}",
                     "how_to_rerun": "python3 /verif/translate/c17_sites.py && cd /verif/lean && lake build MirVerif.Props.C17"})

# ------------------------------------------------------------------ helpers: running harness + ledger
os.makedirs(WORK, exist_ok=True)


def run_harness(steps, tag, timeout=60, exe=None):
    """-> dict(rc, trace (path), stderr)"""
    tr = os.path.join(WORK, tag + ".tr")
    try:
        p = subprocess.run([exe or EXE, tr, *steps], stdout=subprocess.DEVNULL, stderr=subprocess.PIPE, text=True,
                           timeout=timeout, cwd=WORK, errors="replace",
                           env=dict(os.environ, ASAN_OPTIONS="detect_leaks=0:exitcode=11:allocator_may_return_null=1"))
        rc, err = p.returncode, p.stderr
    except subprocess.TimeoutExpired:
        rc, err = -99, "timeout"
    return {"rc": rc, "trace": tr, "stderr": err[-2000:]}


def run_ledger(trace):
    with open(trace, "rb") as f:
        p = subprocess.run([DRV, "ledger"], stdin=f, stdout=subprocess.PIPE, stderr=subprocess.PIPE, text=True)
    return p.stdout


_sym_cache = {}


def symbolize(addrs):
    """return-address -> (function, file) of the *call site* (innermost inline frame)"""
    todo = sorted({a for a in addrs if a not in _sym_cache and a})
    for i in range(0, len(todo), 500):
        chunk = todo[i:i + 500]
        rc, out = vf.sh(["addr2line", "-a", "-f", "-i", "-e", EXE, *[hex(a - 1) for a in chunk]])
        cur, rows = None, {}
        lines = out.split("\n")
        j = 0
        while j < len(lines):
            ln = lines[j]
            if ln.startswith("0x"):
                cur = int(ln, 16) + 1
                rows[cur] = []
                j += 1
            elif cur is not None and j + 1 < len(lines):
                rows[cur].append((ln.strip(), lines[j + 1].split(":")[0].strip()))
                j += 2
            else:
                j += 1
        for a in chunk:
            fr = rows.get(a) or [("??", "??")]
            _sym_cache[a] = (fr[0][0], os.path.basename(fr[0][1]), [f for f, _ in fr])
    return {a: _sym_cache.get(a, ("??", "??", ["??"])) for a in addrs}


RAWFN = {"malloc": "malloc", "calloc": "calloc", "realloc": "realloc", "free": "free"}
ALLOC_WRAPPERS = {"MIR_malloc", "MIR_calloc", "MIR_realloc", "MIR_free", "h_chk_malloc", "h_chk_calloc",
                  "h_chk_realloc", "reg_malloc", "c2mir_calloc", "gen_malloc", "VARR_"}


def judge(res, steps):
    """run the ledger over a harness result; return (list of (signature, what, detail)), stats"""
    out = run_ledger(res["trace"])
    viol, stats = [], {"events": 0, "violations": 0}
    m = re.search(r"END events=(\d+) live=(\d+) maps=(\d+) wr=(\d+) violations=(\d+)", out)
    if m:
        stats["events"] = int(m.group(1))
        stats["violations"] = int(m.group(5))
    else:
        viol.append(("C17:monitor-no-verdict", "ledger produced no END line", out[-300:]))
    vlines = [l for l in out.split("\n") if l.startswith("V ")]
    callers = set()
    for l in vlines:
        mm = re.search(r"caller=(\d+)", l)
        if mm:
            callers.add(int(mm.group(1)))
    # leaked blocks with their allocation stacks
    leaks = []
    try:
        for l in open(res["trace"] + ".leaks"):
            w = l.split()
            if w and w[0] == "K":
                leaks.append((int(w[1]), int(w[2]), [int(x) for x in w[3:]]))
                callers.update(int(x) for x in w[3:] if int(x))
    except OSError:
        pass
    sym = symbolize(callers) if callers else {}
    leak_lines = {int(l.split()[1]) for l in out.split("\n") if l.startswith("LEAK ")}
    for l in vlines:
        w = l.split()
        line_no, label, kind = w[1], w[2], w[3]
        if kind in ("rawUse", "rawOnLedgerBlock"):
            c = int(re.search(r"caller=(\d+)", l).group(1))
            fn, fl, _ = sym[c]
            sig = f"C17:raw-{w[4]}:{fl}:{fn}"
            what = (f"libc {w[4]} called directly by library code in {fl}:{fn}"
                    + (" on a block obtained from the user allocator" if kind == "rawOnLedgerBlock" else ""))
        elif kind == "reallocOldSize":
            sig, what = "C17:realloc-old-size", "MIR_realloc reported an old size different from the block's size: " + " ".join(w[4:])
        elif kind == "reallocNullOld" or kind == "reallocNotLive":
            sig, what = "C17:realloc-not-live", "MIR_realloc of a block that is not live: " + " ".join(w[4:])
        elif kind == "freeNotLive":
            sig, what = "C17:free-not-live", "MIR_free of a block that is not live (double free or foreign pointer)"
        elif kind in ("windowLeftOpen", "unmapWritable"):
            sig, what = "C17:code-window-left-open", "write access to code pages not followed by a request for execute access"
        elif kind == "writeOutsideWindow":
            sig, what = "C17:code-write-outside-window", "code memory written without a preceding request for write access"
        elif kind in ("protectUnaligned", "protectOutside", "unmapMismatch"):
            sig, what = "C17:code-" + kind, "mem_protect/mem_unmap request outside the contract: " + " ".join(w[3:])
        elif kind in ("leak", "mapLeak"):
            continue        # judged per block below
        else:
            sig, what = "C17:monitor-" + kind, " ".join(w[3:])
        viol.append((sig, what, f"trace line {line_no} during step {label}: {' '.join(w[3:])}"))
    if any(l.startswith("MAPLEAK ") for l in out.split("\n")):
        viol.append(("C17:code-map-leak", "mapped code region not unmapped after the finish calls",
                     "; ".join(l for l in out.split("\n") if l.startswith("MAPLEAK "))[:300]))
    for addr, size, stack in leaks:
        if addr not in leak_lines:
            continue
        names = []
        for a in stack:
            if a and a in sym:
                names += sym[a][2]
        lib = [n for n in names if n not in ALLOC_WRAPPERS and not n.startswith(("VARR_", "h_", "??"))]
        if "create_label" in names and any(n in names for n in ("MIR_read_with_func", "MIR_read", "read_item", "h_step_readbuf", "h_step_roundtrip")):
            sig = "C17:lref-orphan-label-leak"
        else:
            sig = "C17:leak:" + (lib[0] if lib else (names[0] if names else "unknown"))
        viol.append((sig, f"{size}-byte block still live after the finish calls (allocated via {' <- '.join(names[:5])})",
                     f"block {addr} size {size}"))
    tr_txt = None
    # guard / quarantine / crash lines are not ledger events
    with open(res["trace"], errors="replace") as f:
        for l in f:
            if l.startswith("G "):
                viol.append(("C17:guard-clobbered", "bytes behind a user-allocator block were overwritten", l.strip()))
            elif l.startswith("Q "):
                viol.append(("C17:write-after-free", "a freed user-allocator block was written", l.strip()))
            elif l.startswith("D "):
                w = l.split()
                if w[1] != "0" and int(w[2]) >= 10:
                    what_ = ["module", "item", "proto argument", "function variable", "global (hard register) variable",
                             "register", "hard register", "string operand"][min(int(w[2]) - 10, 7)]
                    viol.append(("C17:name-in-freed-block",
                                 f"a {what_} name of a module that was moved with MIR_change_module_ctx still points into a block the "
                                 "finished source context has returned to the user allocator (use after free when the name is read)",
                                 l.strip()))
                elif w[1] != "0":
                    viol.append(("C17:freed-block-still-referenced",
                                 f"an lref data item still points to label insn {w[1]} (label #{w[2]} of the item) which the library has "
                                 "already released through the user allocator; interpreter/generator read it afterwards (use after free)", l.strip()))
                else:
                    viol.append(("C17:lref-value-wrong", f"loaded lref values p{w[3]}/q{w[3]} do not add up to the expected constant "
                                 "(a label address was computed from released memory)", l.strip()))
    return viol, stats, out


import itertools
_tagno = itertools.count()
REJECT = {5: "unresolved-import", 6: "c2m-compile-error", 7: "mir-error", -99: "timeout"}


def run_history(h):
    """h = {"steps": [...], "kind": ...} -> result dict"""
    tag = hashlib.sha1(" ".join(h["steps"]).encode()).hexdigest()[:12] + f"_{next(_tagno)}"   # unique: equal histories may run concurrently
    steps = h["steps"]
    tmpf = []
    for name, content in (h.get("files") or {}).items():       # inputs generated for this history
        fp = os.path.join(WORK, tag + "_" + name)
        with open(fp, "w") as f:
            f.write(content)
        tmpf.append(fp)
        steps = [x.replace("$WORK/" + name, fp) for x in steps]
    dbg = bool(h.get("assert_build")) and EXE_DBG is not None
    asan = bool(h.get("asan_build")) and EXE_ASAN is not None and not dbg
    res = run_harness(steps, tag, timeout=60 if QUICK else 180, exe=EXE_DBG if dbg else EXE_ASAN if asan else None)
    r = {"h": h, "rc": res["rc"], "stderr": res["stderr"], "viol": [], "stats": {}, "status": "ok"}
    if res["rc"] in REJECT:
        r["status"] = "rejected:" + REJECT[res["rc"]]
    elif res["rc"] == 9:
        r["status"] = "fault"
        r["viol"].append(("C17:code-write-without-access", "store to a code page that was not write-enabled (SIGSEGV under the checking code allocator)", res["stderr"][-300:]))
    elif res["rc"] == 11 and asan:
        m_ = re.search(r"SUMMARY: AddressSanitizer: (\S+) (\S+) in (\w+)", res["stderr"])
        kind_ = m_.group(1) if m_ else "error"
        r["status"] = "asan:" + kind_
        r["crashed"] = True
        r["viol"].append(("C17:use-after-free" if kind_ == "heap-use-after-free" else "C17:asan-" + kind_,
                          f"AddressSanitizer: {kind_}" + (f" in {m_.group(3)} ({os.path.basename(m_.group(2))})" if m_ else "")
                          + " — the library touched a block it had already returned to the user allocator"
                          if kind_ == "heap-use-after-free" else f"AddressSanitizer: {kind_}" + (f" in {m_.group(3)}" if m_ else ""),
                          "\n".join(l for l in res["stderr"].split("\n") if l.startswith(("==", "    #0", "    #1", "    #2", "SUMMARY")))[:600]))
    elif res["rc"] == 10:
        r["status"] = "fault-poison"
        r["viol"].append(("C17:use-after-free", "the library dereferenced a pointer it read from a block it had already freed "
                          "(0xDD poison of the checking allocator; general protection fault)", res["stderr"][-300:]))
    elif res["rc"] == 2:
        r["status"] = "harness-abort"
        r["viol"].append(("C17:allocator-request-unservable", "the checking allocator could not serve a request of the library: " + res["stderr"][-200:], res["stderr"][-300:]))
    elif res["rc"] == 8 and dbg and "Assertion" in res["stderr"]:
        m_ = re.search(r"([\w./-]+):(\d+): (\w+): Assertion `([^']*)' failed", res["stderr"])
        r["status"] = "assert-failed"
        r["crashed"] = True
        where = f"{os.path.basename(m_.group(1))}:{m_.group(3)}" if m_ else "unknown"
        r["viol"].append((f"C17:tiered-assert:{where}",
                          "assert-enabled library aborts in a tiered (interpret + generate) history: "
                          + (f"{m_.group(3)}: `{m_.group(4)}'" if m_ else res["stderr"][-200:]), res["stderr"][-300:]))
    elif res["rc"] != 0:
        # a crash elsewhere (e.g. DESIGN #3: MIR_output on an expr item) is not a statement about the
        # allocators; the partial trace is still judged, the history is counted as rejected
        r["status"] = f"rejected:crash({res['rc']})"
        r["crashed"] = True
    # a history that ended early (MIR error, crash, …) is not judged at `fin`, but what its partial trace
    # shows (wrong realloc sizes, freed blocks still referenced, raw allocator use, …) still counts
    if os.path.exists(res["trace"]):
        v, st, out = judge(res, h["steps"])
        r["viol"] += v
        r["stats"] = st
        if r["status"] == "ok":
            try:
                with open(res["trace"], errors="replace") as f:
                    txt = f.read()
                r["counts"] = {k: len(re.findall(rf"^{k} ", txt, flags=re.M)) for k in "mcrfRMUPW"}
                r["fin"] = "\nF\n" in txt
            except OSError:
                pass
    for p in [res["trace"], res["trace"] + ".leaks"] + tmpf:
        try:
            os.remove(p)
        except OSError:
            pass
    return r


def steps_cmd(steps):
    return f"{EXE} /tmp/c17.tr " + " ".join(steps) + f" && {DRV} ledger < /tmp/c17.tr"


# ------------------------------------------------------------------ 4a. VARR correspondence
ELEM = [1, 2, 3, 8, 24, 56]
OPLINE = re.compile(r"^(vcreate|vop|vdestroy|omalloc|ofree) ")


def gen_varr_ops(rng, n):
    ops, live = [], {}          # handle -> els_num
    n_other = 0
    for _ in range(n):
        r = rng.below(100)
        hs = sorted(live)
        if (r < 8 and len(live) < 16) or not live:
            hd = rng.choice([h for h in range(16) if h not in live])
            size = rng.choice([0, 0, 1, 2, 3, 7, 64, 100, rng.below(600)])
            ops.append(f"create {hd} {rng.below(len(ELEM))} {size}")
            live[hd] = 0
        elif r < 12:
            hd = rng.choice(hs)
            ops.append(f"destroy {hd} 0 0")
            del live[hd]
        elif r < 45:
            hd = rng.choice(hs)
            ops.append(f"push {hd} 0 0")
            live[hd] += 1
        elif r < 58:
            hd = rng.choice(hs)
            k = rng.choice([0, 1, 2, 5, 63, 64, 65, rng.below(700), rng.below(4000)])
            ops.append(f"pusharr {hd} 0 {k}")
            live[hd] += min(k, 4096)
        elif r < 66:
            hd = rng.choice(hs)
            k = rng.choice([0, 1, live[hd], live[hd] + 1, rng.below(300), rng.below(5000)])
            ops.append(f"expand {hd} 0 {k}")
        elif r < 74:
            hd = rng.choice(hs)
            k = rng.choice([1, live[hd] if live[hd] else 1, rng.below(200) + 1, rng.below(3000) + 1])
            ops.append(f"tailor {hd} 0 {k}")
            live[hd] = k
        elif r < 82:
            hd = rng.choice(hs)
            if live[hd] > 0:
                ops.append(f"pop {hd} 0 0")
                live[hd] -= 1
        elif r < 88:
            hd = rng.choice(hs)
            k = rng.below(live[hd] + 1)
            ops.append(f"trunc {hd} 0 {k}")
            live[hd] = k
        elif r < 95:
            ops.append(f"omalloc 0 0 {rng.below(500)}")
            n_other += 1
        else:
            ops.append(f"ofree 0 0 {rng.below(256)}")
    for hd in sorted(live):
        ops.append(f"destroy {hd} 0 0")
    return ops


def canon_chunks(lines, is_op, extra_ok=lambda l: True):
    """group a harness trace (events, then op line, then S/R line) into canonical chunks
    (op, [events], result-lines)"""
    chunks, ev = [], []
    i = 0
    while i < len(lines):
        l = lines[i]
        if is_op(l):
            tail = []
            while i + 1 < len(lines) and re.match(r"^(S|R) ", lines[i + 1]) and not re.match(r"^R \d+ \d+ \d+ \d+$", lines[i + 1]):
                tail.append(lines[i + 1])
                i += 1
            chunks.append((l, ev, tail))
            ev = []
        elif re.match(r"^[mcrfRMUPW] ", l):
            ev.append(l)
        i += 1
    return chunks, ev


def model_chunks(text, is_op):
    chunks, cur = [], None
    for l in text.split("\n"):
        if not l:
            continue
        if is_op(l):
            cur = [l, [], []]
            chunks.append(cur)
        elif cur is not None:
            if re.match(r"^(S|R) ", l) and not re.match(r"^R (malloc|free|calloc|realloc)", l):
                cur[2].append(l)
            else:
                cur[1].append(l)
    return [tuple(c) for c in chunks]


def varr_case(ops, tag):
    """-> (ok, first_diff, ledger_violations)"""
    opf = os.path.join(WORK, tag + ".ops")
    with open(opf, "w") as f:
        f.write("\n".join(ops) + "\n")
    res = run_harness(["varr:" + opf, "fin"], tag)
    if res["rc"] != 0:
        return False, {"harness_rc": res["rc"], "stderr": res["stderr"][-500:]}, [("C17:crash", "VARR history crashed", res["stderr"][-300:])], 0, 0
    lines = [l.rstrip("\n") for l in open(res["trace"], errors="replace")]
    lines = [l for l in lines if l and not l.startswith(("#", "ps ", "q", "F"))]
    hch, rest = canon_chunks(lines, lambda l: bool(OPLINE.match(l)))
    inp = "\n".join(c[0] for c in hch) + "\n"
    p = subprocess.run([DRV, "varr"], input=inp, stdout=subprocess.PIPE, text=True)
    mch = model_chunks(p.stdout, lambda l: bool(OPLINE.match(l)))
    viol, st, _ = judge(res, ["varr"])
    diff = None
    for k, (a, b) in enumerate(zip(hch, mch)):
        if (a[0], a[1], a[2]) != (b[0], b[1], b[2]):
            diff = {"op_index": k, "op": a[0], "impl_events": a[1], "impl_state": a[2], "model_events": b[1], "model_state": b[2]}
            break
    if diff is None and len(hch) != len(mch):
        diff = {"op_index": min(len(hch), len(mch)), "impl_ops": len(hch), "model_ops": len(mch)}
    for p_ in (opf, res["trace"], res["trace"] + ".leaks"):
        try:
            os.remove(p_)
        except OSError:
            pass
    return diff is None and not viol, diff, viol, len(hch), sum(1 for c in hch if any(e.startswith("r ") for e in c[1]))


def shrink_ops(ops, fails, budget=160):
    """shortest failing prefix, then delta debugging: drop chunks of halving size down to single ops"""
    best = list(ops)
    lo, hi = 1, len(best)
    while lo < hi and budget > 0:
        mid = (lo + hi) // 2
        budget -= 1
        if fails(best[:mid]):
            hi = mid
        else:
            lo = mid + 1
    best = best[:hi]
    chunk = max(1, len(best) // 2)
    while budget > 0:
        i, removed = 0, False
        while i < len(best) and budget > 0:
            cand = best[:i] + best[i + chunk:]
            budget -= 1
            if cand and fails(cand):
                best, removed = cand, True
            else:
                i += chunk
        if chunk == 1 and not removed:
            break
        chunk = max(1, chunk // 2)
    return best


def close_varr_ops(ops):
    """append the destroys a truncated history lacks (a shrunk case must not leak by construction)"""
    live = set()
    for o in ops:
        w = o.split()
        if w[0] == "create":
            live.add(w[1])
        elif w[0] == "destroy":
            live.discard(w[1])
    return list(ops) + [f"destroy {h} 0 0" for h in sorted(live, key=int)]


def pick(viol):
    """the violation to report: anything but a leak first"""
    nl = [v for v in viol if not v[0].startswith("C17:leak")]
    return (nl or viol)[0]


def report_varr(ops, diff, viol, how):
    target = pick(viol)[0] if viol else None

    def fails(o):
        r = varr_case(close_varr_ops(o), "shr")
        return any(v[0] == target for v in r[2]) if target else not r[0]     # keep the same violation while shrinking
    small = close_varr_ops(shrink_ops(ops, fails)) if len(ops) > 3 else ops
    r = varr_case(small, "shr2")
    diff2, viol2 = (r[1], r[2]) if not r[0] else (diff, viol)
    if viol2:
        viol2 = [pick(viol2)]
    opf = os.path.join(VERIF, "replays", "C17-varr-ops.txt")
    if viol2:
        sig, what, det = viol2[0]
        if sig == "C17:realloc-old-size":
            sig = "C17:varr-realloc-old-size"
        ck.violation({"stage": "tie", "theorem_or_correspondence": "varr_trace_ok / VARR correspondence",
                      "input": {"varr_ops": small, "format": "op handle elem_type_index arg"},
                      "model": diff2, "impl": det, "spec_verdict": what,
                      "how_to_rerun": f"printf '%s\\n' {' '.join(repr(o) for o in small)} > /tmp/ops.txt; {EXE} /tmp/c17.tr varr:/tmp/ops.txt fin; {DRV} ledger < /tmp/c17.tr"},
                     what="VARR operation history violates the allocator contract: " + what, signature=sig)
    else:
        ck.broken_ties.append({"kind": "correspondence", "name": "varr events model != mir-varr.h", "first_diff": diff2,
                               "input": small})


# ------------------------------------------------------------------ 4b. code page correspondence
CODEOP = re.compile(r"^(cpublish|cpublishat|cnewaddr|cchange|cupdate|cfinish)\b")


def gen_code_ops(rng, n):
    ops = []
    for _ in range(n):
        r = rng.below(100)
        if r < 35:
            ops.append(f"publish {rng.choice([1, 5, 16, 17, 100, 200, 1 + rng.below(3000), 4095, 4096, 4097, 1 + rng.below(20000), 1 + rng.below(70000)])} 0 0")
        elif r < 45:
            sz = rng.choice([0, 1, 30, 500, 4096, rng.below(9000)])
            ops.append(f"newaddr {sz} 0 0")
            if rng.chance(3, 4):
                ops.append(f"publishat {1 + rng.below(sz + 1) if rng.chance(4, 5) else sz + 1 + rng.below(5000)} {0 if rng.chance(5, 6) else 1} 0")
        elif r < 75:
            ops.append(f"change {rng.below(1000)} {rng.below(100000)} {rng.choice([0, 1, 4, 6, 8, rng.below(64), rng.below(9000)])}")
        elif r < 90:
            ops.append(f"update {rng.below(1000)} {rng.below(12)} {rng.below(1000000)}")
        else:
            # a relocation that starts exactly at / straddles a page boundary, unaligned base
            ops.append(f"updpb {rng.below(1000)} {rng.below(8)} {rng.below(64)}")
    if not any(o.startswith("publish") and int(o.split()[1]) > 9000 for o in ops):
        ops.insert(0, "publish 12000 0 0")
    # patches at page edges: ending exactly at a page end, starting exactly at a page start, ending at
    # the end of the mapping (after `fill`)
    for mode in (0, 1, 0, 1):
        ops.insert(1 + rng.below(len(ops)), f"chgpe {rng.below(1000)} {mode} {rng.below(64)}")
    ops += ["fill 0 0 0", f"chgpe 0 2 {rng.below(64)}", f"chgpe 0 2 0"]
    ops.append(f"updpb {rng.below(1000)} {rng.below(8)} {8 * rng.below(8)}")      # exactly at the boundary
    ops.append(f"updpb {rng.below(1000)} {rng.below(8)} {1 + rng.below(7)}")      # straddling it
    return ops


def merge_writes(evs):
    """inside each W…X bracket: union of written byte intervals, sorted"""
    out, ws = [], []
    for e in evs:
        if e.startswith("W "):
            _, a, n = e.split()
            if int(n) > 0:
                ws.append((int(a), int(a) + int(n)))
        else:
            if ws:
                ws.sort()
                cur = list(ws[0])
                for a, b in ws[1:]:
                    if a <= cur[1]:
                        cur[1] = max(cur[1], b)
                    else:
                        out.append(f"W {cur[0]} {cur[1] - cur[0]}")
                        cur = [a, b]
                out.append(f"W {cur[0]} {cur[1] - cur[0]}")
                ws = []
            out.append(e)
    return out


def window_pages(evs, ps):
    """(first page, last page, text) of the PROT_WRITE_EXEC request of one operation, None if none/empty"""
    for e in evs:
        w = e.split()
        if w[0] == "P" and w[3] == "w":
            s_, l_ = int(w[1]), int(w[2])
            if l_ == 0:
                return None
            return (s_ // ps, (s_ + l_ - 1) // ps, f"mem_protect({s_}, {l_})")
    return None


def code_case(ops, tag):
    opf = os.path.join(WORK, tag + ".cops")
    with open(opf, "w") as f:
        f.write("\n".join(ops) + "\n")
    res = run_harness(["init", "code:" + opf, "finish", "fin"], tag)
    if res["rc"] != 0:
        v = [("C17:code-write-without-access" if res["rc"] == 9 else "C17:crash", "code page history faulted", res["stderr"][-300:])]
        return False, {"harness_rc": res["rc"], "stderr": res["stderr"][-500:]}, v, 0, 0
    lines = [l.rstrip("\n") for l in open(res["trace"], errors="replace")]
    start = next(i for i, l in enumerate(lines) if l.startswith("# code:"))
    end = next(i for i, l in enumerate(lines) if l.startswith("# finish"))
    seg = [l for l in lines[start + 1:end] if l and l != "q"]
    setup = [l for l in seg if l.startswith(("ps ", "cholder "))]
    body = [l for l in seg if not l.startswith(("ps ", "cholder ", "#"))]
    hch, _ = canon_chunks(body, lambda l: bool(CODEOP.match(l)))
    inp = "\n".join(setup + [c[0] for c in hch]) + "\n"
    p = subprocess.run([DRV, "code"], input=inp, stdout=subprocess.PIPE, text=True)
    mch = model_chunks(p.stdout, lambda l: bool(CODEOP.match(l)))
    viol, st, _ = judge(res, ["code"])
    ps = next((int(l.split()[1]) for l in setup if l.startswith("ps ")), 4096)
    diff = None
    # search stage: a write window that is not the page span the (proved) model requests — wider means
    # write access to pages nobody writes, possibly pages outside this context's mappings
    for k, (a, b) in enumerate(zip(hch, mch)):
        wi, wm = window_pages(a[1], ps), window_pages(b[1], ps)
        if a[0] == b[0] and wi is not None and wm is not None and wi != wm:
            kind = "wider than" if (wi[0] <= wm[0] and wi[1] >= wm[1]) else "different from"
            viol.append(("C17:code-window-not-minimal",
                         f"`{a[0]}`: write access requested for pages {wi[0]}..{wi[1]} ({wi[2]}), {kind} the minimal page span "
                         f"{wm[0]}..{wm[1]} of the written bytes ({wm[2]})", f"op #{k} {a[0]}: impl {wi[2]} model {wm[2]}"))
            break
    for k, (a, b) in enumerate(zip(hch, mch)):
        if (a[0], merge_writes(a[1]), a[2]) != (b[0], merge_writes(b[1]), b[2]):
            diff = {"op_index": k, "op": a[0], "impl_events": merge_writes(a[1]), "impl_result": a[2],
                    "model_events": merge_writes(b[1]), "model_result": b[2]}
            break
    if diff is None and len(hch) != len(mch):
        diff = {"impl_ops": len(hch), "model_ops": len(mch)}
    # code_finish: the unmap events of `finish` must be the model's
    for p_ in (opf, res["trace"], res["trace"] + ".leaks"):
        try:
            os.remove(p_)
        except OSError:
            pass
    nw = sum(1 for c in hch for e in c[1] if e.startswith("W "))
    return diff is None and not viol, diff, viol, len(hch), nw


def report_code(ops, diff, viol):
    target = pick(viol)[0] if viol else None

    def fails(o):
        r = code_case(o, "cshr")
        return any(v[0] == target for v in r[2]) if target else not r[0]      # keep the same violation while shrinking
    small = shrink_ops(ops, fails) if len(ops) > 2 else ops
    r = code_case(small, "cshr2")
    diff2, viol2 = (r[1], r[2]) if not r[0] else (diff, viol)
    if viol2:
        viol2 = [pick(viol2)]
    if viol2:
        sig, what, det = viol2[0]
        ck.violation({"stage": "tie", "theorem_or_correspondence": "protect_bracket / code page correspondence",
                      "input": {"code_ops": small, "format": "op a b c (see harness/c17_harness.c h_step_code)"},
                      "model": diff2, "impl": det, "spec_verdict": what,
                      "how_to_rerun": f"printf '%s\\n' {' '.join(repr(o) for o in small)} > /tmp/cops.txt; {EXE} /tmp/c17.tr init code:/tmp/cops.txt finish fin; {DRV} ledger < /tmp/c17.tr"},
                     what="code page operation history violates the code allocator contract: " + what, signature=sig)
    else:
        ck.broken_ties.append({"kind": "correspondence", "name": "code page events model != mir.c", "first_diff": diff2,
                               "input": small})


# ------------------------------------------------------------------ 5. API histories
def list_inputs():
    mirs = sorted(os.path.join(REPO, "mir-tests", f) for f in os.listdir(os.path.join(REPO, "mir-tests")) if f.endswith(".mir"))
    cs = []
    try:
        for l in open(os.path.join(VERIF, "corpus", "C17", "ctests.txt")):
            p = os.path.join(REPO, l.strip())
            if l.strip() and os.path.isfile(p):
                cs.append(p)
    except OSError:
        pass
    return mirs, cs


IFACES = ["interp", "gen", "lazy", "lazybb"]


def tail_steps(rng, gen, c2m):
    t = []
    fin = (["genfinish"] if gen else []) + (["c2mfinish"] if c2m else [])
    if len(fin) == 2 and rng.chance(1, 2):
        fin.reverse()
    return fin + ["finish", "fin"]


def gen_history(rng, mirs, cs, kind=None):
    kind = kind or rng.choice(["mir", "mir", "c", "c", "c", "api", "api", "cmisc", "cerr", "lrefmod", "tiered", "jcallmod", "movectx", "reload", "c2mopts", "switchmod", "cdecl", "faillink"])
    iface = rng.choice(IFACES)
    level = rng.below(4)
    link = f"link:{iface}@{level}"
    gen = iface != "interp"
    s = ["init"]
    if kind == "mir":
        f = rng.choice(mirs)
        s.append("scan:" + f)
        try:
            printable = re.search(r"^\s*(\w+:)?\s*expr\s", open(f, errors="replace").read(), flags=re.M) is None
        except OSError:
            printable = True           # MIR_output crashes on expr items (DESIGN #3, C10): never print those
        if printable and rng.chance(1, 3):
            s.append("output")
        r = rng.below(6)
        if r == 0 and printable:
            s.append("roundtrip")
        elif r == 1:
            s += ["write", "finish", "init", "readbuf"]
        s.append("load")
        if printable and rng.chance(1, 4):
            s.append("output")
        s.append(link)
        if gen and rng.chance(1, 4):
            s.append(f"genall:{rng.below(4)}")
        s.append("run")
        if printable and rng.chance(1, 5):
            s.append("output")
        return {"kind": kind, "input": os.path.relpath(f, REPO), "iface": iface, "level": level, "steps": s + tail_steps(rng, gen, False)}
    if kind == "c":
        f = rng.choice(cs)
        early_fin = rng.chance(1, 3)
        s.append("c2m:" + f)
        if early_fin:
            s.append("c2mfinish")
        if rng.chance(1, 5):
            s.append("output")
        r = rng.below(8)
        if r == 0:
            s.append("roundtrip")
        s += ["load", link, "run"]
        return {"kind": kind, "input": os.path.relpath(f, REPO), "iface": iface, "level": level, "steps": s + tail_steps(rng, gen, not early_fin)}
    if kind == "cmisc":
        f = rng.choice(cs)
        opt = rng.choice(["E", "S", "y"])
        s.append(f"c2m:{f}@{opt}")
        if rng.chance(1, 2):
            f2 = rng.choice(cs)
            s.append(f"c2m:{f2}@{rng.choice(['E', 'y'])}")
        if opt == "S" and rng.chance(1, 2):
            s.append("output")
        return {"kind": kind, "input": os.path.relpath(f, REPO) + "@" + opt, "iface": "-", "level": 0, "steps": s + tail_steps(rng, False, True)}
    if kind == "lrefmod":
        # -O2/-O3 with labels referenced only by lref data trip get_label_disp on the clean tree (C01's business)
        iface = rng.choice(["interp", "gen", "lazy"])
        level = rng.below(2)
        s += ["scan:$WORK/lref.mir"]
        if rng.chance(1, 3):
            s.append("output")
        s += ["load", f"link:{iface}@{level}", "lrefcheck", "run:f@4", "lrefcheck:v"]     # values exist only once the function has been prepared/generated
        if iface != "interp" and rng.chance(1, 3):
            s.append(f"genall:{rng.below(2)}")
        return {"kind": kind, "input": "generated lref module", "iface": iface, "level": level,
                "files": {"lref.mir": gen_lref_module(rng)}, "steps": s + tail_steps(rng, iface != "interp", False)}
    if kind == "faillink":
        txt, bad = gen_faillink_module(rng)
        iface = rng.choice(["interp", "gen", "lazy"])
        lv = rng.below(4)
        s += ["scan:$WORK/faillink.mir", "load", f"linkfail:{iface}@{lv}"]
        cont = rng.below(3) if bad != "forward" else rng.below(2)
        if cont == 1:                                   # reload and fail again
            s += ["load", f"linkfail:{iface}@{lv}"]
        elif cont == 2:                                 # supply the missing name, link again, run
            s += ["extern:nosuch", "load", f"link:{iface}@{lv}", "run:f@5"]
        return {"kind": kind, "input": f"failed link ({bad}), continuation {cont}", "iface": iface, "level": lv,
                "files": {"faillink.mir": txt}, "steps": s + tail_steps(rng, iface != "interp", False)}
    if kind == "switchmod":
        txt, n, mem = gen_switch_module(rng)
        iface = rng.choice(["gen", "gen", "lazy", "lazybb", "interp"])
        lv = rng.choice([2, 2, 3, 0, 1])
        s += ["scan:$WORK/switch.mir", "load", f"link:{iface}@{lv}"] + [f"{'run2' if mem else 'run'}:f@{i}" for i in range(n)]
        return {"kind": kind, "input": "generated switch module", "iface": iface, "level": lv, "asan_build": rng.chance(1, 2),
                "files": {"switch.mir": txt}, "steps": s + tail_steps(rng, iface != "interp", False)}
    if kind == "cdecl":
        if rng.chance(1, 4):
            s.append("c2m:" + os.path.join(VERIF, "corpus", "C17", "incomplete_decl.c"))
            files = None
        else:
            s.append("c2m:$WORK/incomplete.c")
            files = {"incomplete.c": gen_incomplete_c(rng)}
        s += ["load", link, "run"]
        return {"kind": kind, "input": "incomplete-type declarations", "iface": iface, "level": level, "files": files,
                "steps": s + tail_steps(rng, gen, True)}
    if kind == "reload":
        # MIR_load_module of the same module more than once: before the link, after it, twice in a row
        lv = rng.below(4)
        if iface == "lazybb":          # after lazy-bb generation the insns stay in generator form: a reload cannot re-simplify them
            iface = "lazy"
        lk = f"link:{iface}@{lv}"
        s.append("scan:$WORK/sections.mir")
        pat = rng.choice([["load", lk, "run:sum", "load", lk, "run:sum"], ["load", "load", lk, "run:sum"],
                          ["load", lk, "run:sum", "load", "load", lk, "run:sum", "load"], ["load", lk, "load", lk, "run:sum"],
                          ["load", "load", "load", lk, "run:sum", "load", lk, "run:sum"]])
        if rng.chance(1, 3):
            pat = pat[:1] + ["output"] + pat[1:]
        return {"kind": kind, "input": "generated sections module", "iface": iface, "level": lv,
                "files": {"sections.mir": gen_sections_module(rng)}, "steps": s + pat + tail_steps(rng, gen, False)}
    if kind == "c2mopts":
        # option counts at VARR growth boundaries: -I directories (header found only through the LAST one),
        # -D macros (the harness always adds 2 of its own)
        ni = rng.choice([1, 2, 63, 64, 65, 127, 128, 129, 64, 64])
        nd = rng.choice([0, 0, 1, 61, 62, 63, 125, 126, 127])
        src = os.path.join(VERIF, "corpus", "C17", "inc_src.c")
        s += [f"c2m:{src}@I{ni}" + (f"D{nd}" if nd else "")]
        if rng.chance(1, 4):
            s.append(f"c2m:{src}@EI{rng.choice([63, 64, 65])}")
        s += ["load", link, "run"]
        return {"kind": kind, "input": f"inc_src.c -I x{ni} -D x{nd + 2}", "iface": iface, "level": level,
                "asan_build": rng.chance(1, 2), "steps": s + tail_steps(rng, gen, True)}
    if kind == "jcallmod":
        lv = rng.below(4)
        iface = rng.choice(["gen", "gen", "lazy", "lazybb", "interp"])
        s += ["scan:$WORK/jcall.mir"]
        if rng.chance(1, 3):
            s.append("output")
        s += ["load", f"link:{iface}@{lv}"]
        if iface != "gen":
            s.append(f"genall:{lv}")           # functions are only generated (a JCALL target never returns here)
        return {"kind": kind, "input": "generated jcall module", "iface": iface, "level": lv,
                "files": {"jcall.mir": gen_jcall_module(rng)}, "steps": s + tail_steps(rng, True, False)}
    if kind == "movectx":
        # modules built in context A are moved to a fresh context B (MIR_change_module_ctx), A is finished
        # FIRST, then B reads every name: namecheck, output, write, load, link, run
        src = rng.choice(["names", "names", "api", "mir", "c"])
        files, run, printable = None, "run", True
        if src == "names":
            s.append("scan:$WORK/names.mir")
            files = {"names.mir": gen_names_module(rng)}
            run, inp_name = f"run:g@{3 + rng.below(20)}", "generated names module"
        elif src == "api":
            seed = rng.below(100000)
            s.append(f"api:{seed}")
            printable, inp_name = seed % 2 == 0, f"api:{seed}"
        elif src == "mir":
            f = rng.choice(mirs)
            t = open(f, errors="replace").read()
            printable = re.search(r"^\s*(\w+:)?\s*expr\s", t, flags=re.M) is None
            s.append("scan:" + f)
            inp_name = os.path.relpath(f, REPO)
        else:
            f = rng.choice(cs)
            s += ["c2m:" + f, "c2mfinish"]
            inp_name = os.path.relpath(f, REPO)
        s += ["movectx", "namecheck"]
        if printable:
            s.append("output")
        if rng.chance(1, 2):
            s.append("write")
        iface = rng.choice(IFACES)
        lv = rng.below(4) if src != "api" else rng.below(2)      # api modules may carry lref data (-O2: get_label_disp)
        s += ["load", f"link:{iface}@{lv}", run]
        if printable and rng.chance(1, 3):
            s.append("output")
        return {"kind": kind, "input": inp_name, "iface": iface, "level": lv, "files": files, "asan_build": rng.chance(1, 2),
                "steps": s + tail_steps(rng, iface != "interp", False)}
    if kind == "tiered":
        # one context linked for the interpreter; single functions are then interpreted AND generated
        # (MIR_gen / lazy / lazy-bb interface set per function) in varying order.  Functions with lref data
        # are kept out (C16 known finding lref-cells-shared-by-engines: they cannot be both).
        src = rng.choice(["api", "api", "mir", "c"])
        c2m = False
        funcs = ["main"]
        if src == "api":
            seed = rng.below(25000) * 4 + rng.choice([0, 1])      # bit 1 clear: no lref data
            s.append(f"api:{seed}")
            if seed % 3 == 0:
                funcs.append("loop")
            inp_name = f"api:{seed}"
        elif src == "mir":
            ok = []
            for f in mirs:
                try:
                    t = open(f, errors="replace").read()
                except OSError:
                    continue
                if not re.search(r"\blref\b|^\s*(\w+:)?\s*expr\s", t, flags=re.M) and re.search(r"^main:", t, flags=re.M) \
                        and "test11" not in f:        # assert builds abort on test11 (DESIGN §6 observations)
                    ok.append(f)
            f = rng.choice(ok)
            s.append("scan:" + f)
            inp_name = os.path.relpath(f, REPO)
        else:
            f = rng.choice(cs)
            s.append("c2m:" + f)
            c2m = True
            inp_name = os.path.relpath(f, REPO)
        s += ["load", "link:interp@0"]
        level = rng.below(4)
        pats = [["irun", "gen1", "grun"], ["gen1", "grun", "irun"], ["irun", "gen1", "irun", "grun"],
                ["irun", "setif:lazy", "grun"], ["irun", "setif:lazybb", "grun"],        # (interpreting again after lazy-bb generation crashes: the insns stay in generator form)
                 ["gen1", "irun", "gen1", "grun"]]
        seqs = []
        for fn in funcs:
            seq = []
            for o in rng.choice(pats):
                if o == "gen1":
                    seq.append(f"gen1:{fn}@{level}")
                elif o.startswith("setif"):
                    seq.append(f"setif:{fn}@{o.split(':')[1]}")
                else:
                    seq.append(f"{o}:{fn}@{7 + rng.below(50)}")
            seqs.append(seq)
        while any(seqs):                                   # several functions mixed
            q = rng.choice([x for x in seqs if x])
            s.append(q.pop(0))
        return {"kind": kind, "input": inp_name, "iface": "tiered", "level": level, "assert_build": rng.chance(1, 2),
                "steps": s + tail_steps(rng, True, c2m)}
    if kind == "cerr":
        # a translation unit with errors (c2mir_compile returns 0, no MIR error is raised), then a good one
        e = os.path.join(VERIF, "corpus", "C17", rng.choice(["err_syntax.c", "err_semantic.c", "err_preproc.c"]))
        f = rng.choice(cs)
        s += [f"c2m:{e}@x", "c2m:" + f, "load", link, "run"]
        return {"kind": kind, "input": os.path.basename(e) + "+" + os.path.relpath(f, REPO), "iface": iface, "level": level,
                "steps": s + tail_steps(rng, gen, True)}
    seed = rng.below(100000)
    s.append(f"api:{seed}")
    if rng.chance(1, 3):
        s.append("edit")
    printable = seed % 2 == 0          # expr data makes MIR_output crash (DESIGN #3, C10) — never print those
    if printable and rng.chance(1, 2):
        s.append("output")
    if printable and rng.below(4) == 0:
        s.append("roundtrip")
    s += ["load", link]
    if gen and rng.chance(1, 3):
        s.append(f"genall:{rng.below(4)}")
    s.append("run")
    if seed % 3 == 0:
        s.append("run:loop@1000")
    return {"kind": "api", "input": f"api:{seed}", "iface": iface, "level": level, "steps": s + tail_steps(rng, gen, False)}


def gen_lref_module(rng):
    """textual module: one function with labels, and lref data items of every shape — one label / two
    labels, displacement, labels that are branch targets and labels referenced by nothing but an lref
    (as first or as *second* label only).  Items p<k>_<sum> / q<k> are built so that their values add up to
    <sum> whatever the code addresses are: `p: lref A, X, d1` and `q: lref X', A, d2` where X' is a label
    immediately before X (same address); X is then referenced only as a second label."""
    nm = lambda v: f"m{-v}" if v < 0 else str(v)        # names cannot contain '-'
    nl = 3 + rng.below(4)
    body, labels = [], []
    for i in range(nl):
        labels.append(f"l{i}")
        body.append(f"l{i}:")
        for _ in range(1 + rng.below(3)):
            body.append(rng.choice(["  add r, r, 1", "  mul r, r, 3", "  sub r, r, 2", "  xor r, r, x"]))
    # twin labels (same address), the second one referenced only as an lref's second label
    ntw = 1 + rng.below(2)
    twins = []
    for t in range(ntw):
        body += [f"t{t}a:", f"t{t}b:", "  add r, r, 1"]
        twins.append((f"t{t}a", f"t{t}b"))
    used = [l for l in labels[1:] if rng.chance(1, 3)]
    pre = ["  mov r, x"] + [f"  bgt {l}, x, {1000 + i}" for i, l in enumerate(used)]
    items, k = [], 0
    for (ta, tb) in twins:
        a = rng.choice(labels)
        d1, d2 = rng.choice([0, 0, 8, -16, 1000]), rng.choice([0, 0, 4, -24])
        items.append(f"p{k}_{nm(d1 + d2)}: lref {a}, {tb}" + (f", {d1}" if d1 else ""))
        items.append(f"q{k}: lref {ta}, {a}" + (f", {d2}" if d2 else ""))
        k += 1
    for _ in range(rng.below(3)):
        a, b = rng.choice(labels), rng.choice(labels)
        d1, d2 = rng.choice([0, 8, -8]), rng.choice([0, 16])
        items.append(f"p{k}_{nm(d1 + d2)}: lref {a}, {b}" + (f", {d1}" if d1 else ""))
        items.append(f"q{k}: lref {b}, {a}" + (f", {d2}" if d2 else ""))
        k += 1
    for i in range(1 + rng.below(3)):
        d = rng.choice([0, 0, 8, 4096])
        items.append((f"s{i}: " if rng.chance(2, 3) else "") + f"lref {rng.choice(labels)}" + (f", {d}" if d else ""))
    txt = ["ml: module", "export f", "f: func i64, i64:x", "  local i64:r"] + pre + body + ["  ret r", "  endfunc"] + items + ["  endmodule", ""]
    return "\n".join(txt)


def gen_jcall_module(rng):
    """functions ending in JCALL (tail jump) / JRET in every argument shape: plain, variadic prototype (%al),
    small structs by value (blk, blk1..blk4), floating point, more arguments than registers, none"""
    protos = ["pv:   proto i64:a, ...", "ps1:  proto blk1:16(s)", "ps0:  proto blk:24(s)", "ps2:  proto blk2:16(s)",
              "ps3:  proto blk3:16(s)", "ps4:  proto blk4:16(s)", "pi:   proto i64:a, i64:b", "pd:   proto d:a, f:b, i64:c",
              "pm:   proto i64:a, i64:b, i64:c, i64:d, i64:e, i64:f, i64:g, i64:h", "pn:   proto", "pr:   proto i64, i64:a"]
    shapes = [
        lambda n: [f"{n}:  func", "      jcall pv, labs, " + ", ".join(str(rng.below(99)) for _ in range(1 + rng.below(7))), "      endfunc"],
        lambda n: [f"{n}:  func i64:a", "      jcall ps1, labs, blk1:16(a)", "      endfunc"],
        lambda n: [f"{n}:  func i64:a", "      jcall ps0, labs, blk:24(a)", "      endfunc"],
        lambda n: [f"{n}:  func i64:a", "      jcall ps2, labs, blk2:16(a)", "      endfunc"],
        lambda n: [f"{n}:  func i64:a", "      jcall ps3, labs, blk3:16(a)", "      endfunc"],
        lambda n: [f"{n}:  func i64:a", "      jcall ps4, labs, blk4:16(a)", "      endfunc"],
        lambda n: [f"{n}:  func i64:a", f"      jcall pi, labs, a, {rng.below(1000)}", "      endfunc"],
        lambda n: [f"{n}:  func i64:a", "      local d:x, f:y", "      dmov x, 1.5", "      fmov y, 2.5f", "      jcall pd, labs, x, y, a", "      endfunc"],
        lambda n: [f"{n}:  func i64:a", "      jcall pm, labs, a, 1, 2, 3, 4, 5, 6, a", "      endfunc"],
        lambda n: [f"{n}:  func", "      jcall pn, labs", "      endfunc"],
        lambda n: [f"{n}:  func i64:a", "      local i64:t", "      add t, a, 1", "      jret t", "      endfunc"],
        lambda n: [f"{n}:  func i64, i64:a", "      local i64:r", "      call pr, labs, r, a", "      ret r", "      endfunc"],
    ]
    order = list(range(len(shapes)))
    for i in range(len(order) - 1, 0, -1):
        j = rng.below(i + 1)
        order[i], order[j] = order[j], order[i]
    keep = order[:4 + rng.below(len(order) - 3)]
    if 0 not in keep:
        keep.append(0)                 # the variadic jcall is always there
    if not any(k in keep for k in (1, 3, 4, 5)):
        keep.append(1)                 # and a struct-by-value one
    body = []
    for i, k in enumerate(keep):
        body += shapes[k](f"j{i}")
    return "\n".join(["mj:   module"] + protos + ["      import labs"] + body + ["      endmodule", ""])


def gen_names_module(rng):
    """every name-carrying construct: module, exports/imports/forwards, protos with argument names, string /
    integer / bss / ref / lref data, locals, a hard-register-bound global variable, string operands"""
    sfx = "".join(rng.choice("abcdefghk") for _ in range(3 + rng.below(5)))
    hreg = rng.choice(["r12", "r13", "r14", "rbx"])
    L = [f"mn{sfx}:   module", f"      export f{sfx}, g", "      import printf, labs", f"      forward h{sfx}",
         f"pp{sfx}:   proto i32, p:fmt{sfx}, ...", f"pl{sfx}:   proto i64, i64:value{sfx}",
         f"msg{sfx}:  string \"moved module {sfx} %ld\\n\"", f"tab{sfx}:  i64 1, 2, 3", f"buf{sfx}:  bss {8 * (1 + rng.below(20))}",
         f"rf{sfx}:    ref tab{sfx}, 8"]
    if rng.chance(3, 4):
        L += [f"f{sfx}:    func i64, i64:a{sfx}", f"      local i64:x{sfx}, i64:y{sfx}", f"      global i64:acc{sfx}:{hreg}",
              f"      add x{sfx}, a{sfx}, acc{sfx}", f"      mov acc{sfx}, x{sfx}", f"      call pl{sfx}, labs, y{sfx}, x{sfx}",
              f"      ret y{sfx}", "      endfunc"]
    else:
        L += [f"f{sfx}:    func i64, i64:a{sfx}", f"      ret a{sfx}", "      endfunc"]
    L += ["g:    func i64, i64:count", f"      local i64:i{sfx}, i64:s{sfx}", f"      mov s{sfx}, 0", f"      mov i{sfx}, 0", f"lp{sfx}:",
          f"      bge done{sfx}, i{sfx}, count", f"      add s{sfx}, s{sfx}, i{sfx}", f"      add i{sfx}, i{sfx}, 1", f"      jmp lp{sfx}",
          f"done{sfx}:", f"      call pp{sfx}, printf, i{sfx}, \"sum {sfx} %ld\\n\", s{sfx}", f"      ret s{sfx}", "      endfunc",
          f"h{sfx}:    func i64", "      ret 7", "      endfunc"]
    if rng.chance(1, 2):
        L.append(f"lr{sfx}:   lref lp{sfx}, done{sfx}")
    L += ["      endmodule", ""]
    return "\n".join(L)


def gen_sections_module(rng):
    """multi-item data sections of every kind (a named item followed by unnamed ones: integer / float data of
    several element types, bss, ref data, string data) and a non-exported function reading the first section.
    No exports (a module with exports cannot be loaded twice) and no lref data (load+link, load+link of a module
    with lref data never terminates on the unchanged tree: the lref list of the function becomes cyclic)."""
    unnamed = ["i64 20", "i32 30", "u8 1, 2, 3", "u16 7", "d 1.5", "f 2.5f", "bss 16", "bss 1", "ref tbl, 8", "i64 5, 6, 7, 8"]
    L = ["mr:   module", "tbl:  i64 10", "      i64 20"]
    for _ in range(rng.below(6)):
        L.append("      " + rng.choice(unnamed))
    heads = ["cnt:  i64 0", "bs:   bss 32", "str:  string \"abc\"", "rr:   ref tbl, 16", "dd:   d 1.0, 2.0"]
    for i in range(1 + rng.below(4)):
        h = heads[(i + rng.below(5)) % 5]
        L.append(h.replace(":", f"{i}:", 1) if True else h)
        for _ in range(rng.below(4)):
            L.append("      " + rng.choice(unnamed))
    L += ["sum:  func i64", "      local i64:p, i64:s", "      mov p, tbl", "      mov s, i64:(p)", "      add s, s, i64:8(p)",
          "      ret s", "      endfunc", "      endmodule", ""]
    return "\n".join(L)


def gen_switch_module(rng):
    """SWITCH programs: case bodies that are live, dead-code-only (fall through) or label-only; the LAST
    switch label may be such an empty/dead block entered only from the switch; labels shared by cases"""
    n = 2 + rng.below(5)
    mem = rng.chance(2, 3)         # case bodies store through a pointer argument and the result is a constant
    L = ["ms: module", "export f", "f: func i64, i64:a" + (", p:out" if mem else ""), "   local i64:t, i64:r, i64:u", "   mov r, 7"]
    labels = [f"L{i}" for i in range(n)]
    tgt = list(labels)
    if n > 2 and rng.chance(1, 3):
        tgt[rng.below(n - 1)] = labels[rng.below(n)]          # two cases share a label
    L.append("   switch a, " + ", ".join(tgt))
    for i, lab in enumerate(labels):
        L.append(f"{lab}:")
        last = i == n - 1
        kind = rng.choice(["dead", "empty", "dead2"]) if (last and rng.chance(3, 4)) else rng.choice(["live", "live", "live", "dead", "empty"])
        if kind == "live":
            L += [f"   mov i64:(out), {10 * (i + 1)}" if mem else f"   mov r, {10 * (i + 1)}", "   jmp Lend"]
        elif kind == "dead":
            L.append(f"   mov t, {5 + i}")
        elif kind == "dead2":
            L += [f"   mov t, {5 + i}", "   add u, t, 1"]
    L += ["Lend:", "   ret 0" if mem else "   ret r", "   endfunc", "   endmodule", ""]
    return "\n".join(L), n, mem


def gen_incomplete_c(rng):
    """C translation unit in which objects are first declared with an incomplete type and completed later
    (c2mir: symbol_def_replace -> HTAB_DO (…, HTAB_REPLACE) on the symbol table, which has a free function)"""
    decl, compl, use, total = [], [], [], 0
    k = 1 + rng.below(4)
    for i in range(k):
        form = rng.below(4)
        if form == 0:
            m = 2 + rng.below(4)
            decl.append(f"extern int a{i}[];")
            compl.append(f"int a{i}[{m}] = {{{', '.join(str(j + 1) for j in range(m))}}};")
            use.append(f"a{i}[1]")
            total += 2
        elif form == 1:
            decl += [f"struct S{i};", f"extern struct S{i} s{i};"]
            compl += [f"struct S{i} {{ int x, y; }};", f"struct S{i} s{i} = {{4, {5 + i}}};"]
            use.append(f"s{i}.y")
            total += 5 + i
        elif form == 2:
            decl += [f"union U{i};", f"extern union U{i} u{i};"]
            compl += [f"union U{i} {{ long l; char c[8]; }};", f"union U{i} u{i} = {{{6 + i}}};"]
            use.append(f"(int) u{i}.l")
            total += 6 + i
        else:
            decl.append(f"extern char c{i}[];")
            compl += [f"char c{i}[] = \"xyz\";", f"extern char c{i}[4];"]
            use.append(f"(c{i}[1] - 'y')")
    if rng.chance(1, 2):
        decl, compl = decl + compl[:1], compl[1:] + []      # interleave a little
    body = "\n".join(["/* generated: incomplete-type declarations completed later */"] + decl + compl +
                      [f"int main (void) {{ return {' + '.join(use)} - {total}; }}", ""])
    return body


def gen_faillink_module(rng):
    """functions WITH calls (and one with an `inline` insn) come before an undefined import / forward in the
    module: MIR_link has already flagged them for inlining when it raises the error.  No exports (reloadable)."""
    bad = rng.choice(["import", "import", "forward", "import2"])
    L = ["mf:   module", "p:    proto i64, i64:a",
         "g:    func i64, i64:a", "      add a, a, 1", "      ret a", "      endfunc",
         "f:    func i64, i64:a", "      local i64:r", "      call p, g, r, a", "      ret r", "      endfunc"]
    if rng.chance(2, 3):
        L += ["fi:   func i64, i64:a", "      local i64:r", "      inline p, g, r, a", "      add r, r, 1", "      ret r", "      endfunc"]
    if rng.chance(1, 2):
        L += ["tab:  i64 1, 2", "      i64 3"]
    if bad == "forward":
        L += ["      forward nosuchfwd"]
    else:
        L += ["      import nosuch"]
        if bad == "import2":
            L += ["h:    func i64, i64:a", "      local i64:r", "      call p, nosuch, r, a", "      ret r", "      endfunc"]
    L += ["      endmodule", ""]
    return "\n".join(L), bad


def report_history(r, sig, what, detail):
    h = r["h"]
    if sig == "C17:free-not-live" and any(x.startswith("linkfail:") for x in h["steps"]) and re.search(r"freeNotLive 1$", detail):
        sig = "C17:finish-after-failed-link"        # MIR_link's inlining flag (void *) 1 handed to the user's free
        what = "after a failed MIR_link the inlining flag `(void *) 1` left in func_item->data is passed to the user allocator's free"
    if sig.startswith("C17:leak:") and sum(1 for x in h["steps"] if x == "load") > 1:
        sig = "C17:reload-leak:" + sig[len("C17:leak:"):]        # a leak that needs MIR_load_module of a loaded module
    finding(sig, what, {"stage": "tie", "theorem_or_correspondence": "ledger monitor over an API history",
                        "input": {"steps": [x.replace(REPO, "$REPO") for x in h["steps"]], **({"files": h["files"]} if h.get("files") else {})},
                        "impl": detail, "spec_verdict": what,
                        **({"assert_build": True} if h.get("assert_build") else {}),
                        **({"asan_build": True} if h.get("asan_build") else {}),
                        "how_to_rerun": f"VERIF_REPO={REPO} ./check C17 --replay <this file>   (or: {steps_cmd(h['steps'])})"})


def run_histories(hs):
    with ThreadPoolExecutor(max_workers=14) as ex:
        return list(ex.map(run_history, hs))


# ------------------------------------------------------------------ replay mode
if ck.replay:
    findings.clear()            # only what the replayed case itself shows
    rp = json.load(open(ck.replay))
    inp = rp.get("input", {})
    if EXE is None:
        ck.finish()
    if isinstance(inp, dict) and "steps" in inp:
        h = {"kind": "replay", "steps": [x.replace("$REPO", REPO).replace("$VERIF", VERIF) for x in inp["steps"]],
             "files": inp.get("files"), "assert_build": rp.get("assert_build"), "asan_build": rp.get("asan_build")}
        r = run_history(h)
        ck.log(f"replay: status={r['status']} stats={r['stats']}")
        for sig, what, det in r["viol"]:
            report_history(r, sig, what, det)
    elif isinstance(inp, dict) and "varr_ops" in inp:
        ok, diff, viol, *_ = varr_case(inp["varr_ops"], "replay")
        if not ok:
            report_varr(inp["varr_ops"], diff, viol, "replay")
    elif isinstance(inp, dict) and "code_ops" in inp:
        ok, diff, viol, *_ = code_case(inp["code_ops"], "replay")
        if not ok:
            report_code(inp["code_ops"], diff, viol)
    else:
        ck.log("replay: static finding, see how_to_rerun")
    for sig, f in findings.items():
        ck.violation(f["replay"], what=f["what"], signature=sig)
    ck.cov["evaluations"] = 1
    shutil.rmtree(WORK, ignore_errors=True)
    ck.finish()

# ------------------------------------------------------------------ run
dist = {"kinds": {}, "ifaces": {}, "levels": {}, "status": {}, "events": {k: 0 for k in "mcrfRMUPW"}}
n_eval = n_nontriv = 0
distinct = set()
if EXE is not None and os.path.exists(DRV):
    # corpus first
    corpus_dir = os.path.join(VERIF, "corpus", "C17")
    corpus = []
    for f in sorted(os.listdir(corpus_dir)) if os.path.isdir(corpus_dir) else []:
        if f.endswith(".json"):
            try:
                c = json.load(open(os.path.join(corpus_dir, f)))
                c["file"] = f
                corpus.append(c)
            except ValueError:
                pass
    ck.cov["corpus_replayed"] = len(corpus)
    for c in corpus:
        if "steps" in c:
            r = run_history({"kind": "corpus", "steps": [x.replace("$REPO", REPO).replace("$VERIF", VERIF) for x in c["steps"]],
                             "input": c["file"], "files": c.get("files")})
            n_eval += 1
            for sig, what, det in r["viol"]:
                report_history(r, sig, what, det)
        elif "varr_ops" in c:
            ok, diff, viol, *_ = varr_case(c["varr_ops"], "corp")
            n_eval += 1
            if not ok:
                report_varr(c["varr_ops"], diff, viol, "corpus")
        elif "code_ops" in c:
            ok, diff, viol, *_ = code_case(c["code_ops"], "corp")
            n_eval += 1
            if not ok:
                report_code(c["code_ops"], diff, viol)
    ck.stage("corpus", n=len(corpus))

    # 4a VARR
    n_varr = 24 if QUICK else 300
    n_ops_total = n_realloc = 0
    bad = None
    cases = [gen_varr_ops(ck.rng, 60 + ck.rng.below(500)) for _ in range(n_varr)]
    with ThreadPoolExecutor(max_workers=12) as ex:
        results = list(ex.map(lambda t: varr_case(t[1], f"v{t[0]}"), enumerate(cases)))
    for ops, r in zip(cases, results):
        n_eval += 1
        if len(r) >= 5:
            n_ops_total += r[3]
            n_realloc += r[4]
            if r[4] > 0:
                n_nontriv += 1
        if not r[0] and (bad is None or (r[2] and not bad[1][2])):
            bad = (ops, r)              # prefer a case in which the ledger itself objects
    if bad:
        report_varr(bad[0], bad[1][1], bad[1][2], "generated")
    dist["varr"] = {"histories": n_varr, "ops": n_ops_total, "ops_with_realloc": n_realloc, "elem_sizes": ELEM}
    ck.sample({"varr_ops": cases[0][:12]})
    ck.stage("varr", histories=n_varr, ops=n_ops_total, reallocs=n_realloc)

    # 4b code pages
    n_code = 12 if QUICK else 150
    cases = [gen_code_ops(ck.rng, 20 + ck.rng.below(120)) for _ in range(n_code)]
    with ThreadPoolExecutor(max_workers=12) as ex:
        results = list(ex.map(lambda t: code_case(t[1], f"c{t[0]}"), enumerate(cases)))
    bad = None
    n_cops = n_w = 0
    for ops, r in zip(cases, results):
        n_eval += 1
        n_cops += r[3]
        n_w += r[4]
        if r[4] > 0:
            n_nontriv += 1
        if not r[0] and (bad is None or (r[2] and not bad[1][2])):
            bad = (ops, r)
    if bad:
        report_code(bad[0], bad[1][1], bad[1][2])
    dist["code"] = {"histories": n_code, "ops": n_cops, "observed_write_runs": n_w}
    ck.sample({"code_ops": cases[0][:8]})
    ck.stage("code", histories=n_code, ops=n_cops)

    # 4c HTAB histories (ledger acceptance)
    hh = [{"kind": "htab", "steps": [f"htab:{ck.rng.below(10 ** 6)}", "fin"], "input": "htab"} for _ in range(6 if QUICK else 60)]

    # 5 API histories
    mirs, cs = list_inputs()
    n_hist = 150 if QUICK else 2500
    hs = []
    # fixed part: every interface x level once on a C program and on an API module; the lref round trip
    if cs:
        for iface in IFACES:
            for level in range(4):
                hs.append(gen_history(ck.rng, mirs, cs, "c"))
                hs[-1]["steps"] = [x if not x.startswith("link:") else f"link:{iface}@{level}" for x in hs[-1]["steps"]]
                if iface != "interp" and "genfinish" not in hs[-1]["steps"]:
                    hs[-1]["steps"].insert(hs[-1]["steps"].index("finish"), "genfinish")
                hs[-1]["iface"], hs[-1]["level"] = iface, level
    hs.append({"kind": "lref", "input": "api:2", "iface": "-", "level": 0,
               "steps": ["init", "api:2", "write", "finish", "init", "readbuf", "output", "finish", "fin"]})
    for _ in range(6 if QUICK else 40):
        hs.append(gen_history(ck.rng, mirs, cs, "lrefmod"))
    for i in range(12 if QUICK else 80):
        hs.append(gen_history(ck.rng, mirs, cs, "tiered"))
        hs[-1]["assert_build"] = i % 2 == 1
    for i in range(8 if QUICK else 60):
        hs.append(gen_history(ck.rng, mirs, cs, "jcallmod"))
        hs[-1]["steps"] = [x if not (x.startswith("link:") or x.startswith("genall:")) else x.split("@")[0].split(":")[0] + ":" + (x.split(":")[1].split("@")[0] + "@" if x.startswith("link:") else "") + str(i % 4) for x in hs[-1]["steps"]]
        hs[-1]["level"] = i % 4
    for i in range(8 if QUICK else 60):
        hs.append(gen_history(ck.rng, mirs, cs, "reload"))
    for i in range(10 if QUICK else 80):
        h2 = gen_history(ck.rng, mirs, cs, "switchmod")
        if i < 6:                          # -O2/-O3 generation always, under both flavours
            h2["steps"] = [re.sub(r"^link:\w+@\d", f"link:{['gen', 'lazy', 'gen'][i % 3]}@{2 + i % 2}", x) for x in h2["steps"]]
            if "genfinish" not in h2["steps"]:
                h2["steps"].insert(h2["steps"].index("finish"), "genfinish")
            h2["iface"], h2["level"], h2["asan_build"] = ['gen', 'lazy', 'gen'][i % 3], 2 + i % 2, i % 2 == 0
        hs.append(h2)
    for i in range(6 if QUICK else 40):
        hs.append(gen_history(ck.rng, mirs, cs, "cdecl"))
    for i in range(9 if QUICK else 60):
        hs.append(gen_history(ck.rng, mirs, cs, "faillink"))
    for i, ni in enumerate([64, 64, 63, 65, 128, 129] if QUICK else [64, 64, 63, 65, 127, 128, 129, 1, 2, 64] * 4):
        h2 = gen_history(ck.rng, mirs, cs, "c2mopts")
        h2["steps"] = [re.sub(r"@I\d+", f"@I{ni}", x, count=1) if x.startswith("c2m:") and "@E" not in x else x for x in h2["steps"]]
        h2["input"] = re.sub(r"-I x\d+", f"-I x{ni}", h2["input"])
        h2["asan_build"] = i % 2 == 1
        hs.append(h2)
    for i in range(10 if QUICK else 80):
        hs.append(gen_history(ck.rng, mirs, cs, "movectx" ))
        hs[-1]["asan_build"] = i % 2 == 1
        if i < 4:                       # the generated names module always, under both flavours
            h2 = gen_history(ck.rng, mirs, cs, "movectx")
            while h2["input"] != "generated names module":
                h2 = gen_history(ck.rng, mirs, cs, "movectx")
            h2["asan_build"] = i % 2 == 1
            hs[-1] = h2
    while len(hs) < n_hist:
        hs.append(gen_history(ck.rng, mirs, cs))
    results = run_histories(hh + hs)
    for r in results:
        h = r["h"]
        n_eval += 1
        dist["kinds"][h["kind"]] = dist["kinds"].get(h["kind"], 0) + 1
        dist["status"][r["status"]] = dist["status"].get(r["status"], 0) + 1
        if h["kind"] not in ("htab",):
            dist["ifaces"][h.get("iface", "-")] = dist["ifaces"].get(h.get("iface", "-"), 0) + 1
            dist["levels"][str(h.get("level", 0))] = dist["levels"].get(str(h.get("level", 0)), 0) + 1
        c = r.get("counts") or {}
        for k, v in c.items():
            dist["events"][k] += v
        if r["status"] == "ok" and r.get("fin") and c.get("r", 0) > 0 and (c.get("W", 0) > 0 or h["kind"] == "htab"):
            key = (h["kind"], h.get("input"), h.get("iface"), h.get("level"), tuple(x.split(":")[0] for x in h["steps"]),
                   hashlib.sha1(json.dumps(h.get("files") or {}, sort_keys=True).encode()).hexdigest())
            if key not in distinct:
                distinct.add(key)
                n_nontriv += 1
        for sig, what, det in r["viol"]:
            report_history(r, sig, what, det)
        if r["status"].startswith("rejected") and len(dist.setdefault("rejected_samples", [])) < 6:
            dist["rejected_samples"].append({"status": r["status"], "steps": [x.replace(REPO, "$REPO") for x in h["steps"]],
                                             "assert_build": bool(h.get("assert_build")), "stderr": r["stderr"][-160:]})
    for r in results[len(hh):len(hh) + 4]:
        ck.sample({"steps": [x.replace(REPO, "$REPO") for x in r["h"]["steps"]], "status": r["status"], "events": r.get("counts")})
    n_rej = sum(v for k, v in dist["status"].items() if k.startswith("rejected"))
    if n_rej * 4 > len(results):
        ck.broken_ties.append({"kind": "histories-rejected", "name": f"{n_rej} of {len(results)} histories did not run to the end",
                               "status": dist["status"]})
    ck.stage("histories", n=len(results), status=dist["status"])
else:
    if EXE is not None:
        ck.broken_ties.append({"kind": "driver-missing", "name": "mirdrv_c17"})

# ------------------------------------------------------------------ verdicts
for sig in sorted(findings):
    f = findings[sig]
    ck.violation(f["replay"], what=f["what"], signature=sig)

ck.cov["evaluations"] = n_eval
ck.cov["distinct_nontrivial"] = n_nontriv
ck.cov["rule"] = ("VARR/code-page cases: random operation files (seeded by VERIF_SEED) executed by the real headers / mir.c under the "
                  "checking allocators and replayed by the Lean model with the allocator's answers; non-trivial = at least one realloc "
                  "(VARR) / one observed code write (code pages).  API histories: templates mir|c|cmisc|api|lref|htab with random input "
                  "file, interface, optimisation level, output / binary round trip / reload / explicit gen / finish order; distinct = "
                  "(kind, input, interface, level, step shape); non-trivial = reached `fin` with >=1 realloc and >=1 code write. "
                  "Rejected histories (MIR error, c2m error, unresolved import, timeout) are counted, not judged.")
ck.cov["distribution"] = dist
ck.cov["exhaustive"] = False
ck.cov["findings_signatures"] = sorted(findings)
ck.assumptions += [
    "allocators never fail (out-of-memory paths are outside 'error-free histories')",
    "observed code writes are byte runs that differ from a shadow copy at the next PROT_READ_EXEC request/unmap; a store to a non write-enabled page faults",
    "library use of the libc allocator is recognised by a return address inside the harness executable's text (library is statically linked into it)",
    "whole-library leak freedom is monitored on generated histories, proved only for VARR and code holders",
    "single-threaded histories; x86-64 Linux build with -DNDEBUG as shipped",
]
shutil.rmtree(WORK, ignore_errors=True)
ck.finish()
