"""C03 program generator: multi-module MIR programs whose behaviour depends on every mechanism that
differs between execution interfaces.  Built on lib/mirgen.py (random well-defined function bodies).

One program `c<k>` = two modules `c<k>a`, `c<k>b` (all functions exported, cross imports both ways):
  leaf helpers   random bodies (FuncGen, no memory), signature ph = i64 (i64, i64, d)
  r0             self recursion (depth <= 7), double argument carried through every level
  ma <-> mb      mutual recursion ACROSS the two modules; na <-> nb mutual recursion inside module a
                 through a `forward` declaration
  lr + lt        computed goto: `jmpi` through a table of `lref` data items: plain, address form with positive and negative
                 displacement, difference form label-label2+disp; the displacement is removed by `sub`/`add` before the
                 jump, a constant difference enters the result by plain arithmetic
  tab            data: `ref` items holding the public addresses of local and imported functions
  ap             indirect call through an address loaded from `tab`; whole table handed to C (exttab)
  cb             function address taken as an operand and passed to C (extcb), which calls it back twice
  w              8 integer + 9 double parameters (stack-passed arguments, all xmm argument registers)
  cw             calls `w` directly and through C (extcbw)
  mr<j> / mc<j>  multi-result functions over every 1-, 2- and 3-tuple of result types (i64, narrow ints, f, d, ld) the
                 convention can return (rax:rdx, xmm0:xmm1, st0:st1); `mc` makes the multi-result call from MIR, the plan
                 command `callm` from C (the harness reads the result registers itself)
  xb0 / xb1      one buffer passed as blk:<s1> then blk:<s2> (24..72 bytes) to native C callees through prototypes that
                 differ only in the block size; smaller first in module a, larger first in module b (whichever runs
                 first in a context creates the interpreter's call-out stub); plan command `callx` carries a C reference
  bf<j> / bc<j>  functions with a by-value block parameter (blk, blk1..blk4, rblk; sizes 8..40) preceded by 0..7
                 integer and 0..9 double parameters and followed by an integer and a double one; `bc` passes the
                 block from MIR, the plan command `callb` from C (the harness places the arguments per the psABI)
  e0 (a, b)      random entry functions (FuncGen, memory, alloca, switch, calls/inlines of all of the above)
Well-definedness is by construction (see mirgen); function addresses never flow into results.
A *plan* is a sequence of C-level calls (`prog`, `callh`, `wide`) interleaved with `addrs` samples;
`orders()` produces permutations of the same multiset of calls (first-call order permutations)."""
import mirgen
from mirgen import FuncGen, fmt_insn

PH = "ph: proto i64, i64:a, i64:b, d:x"
PCB = "pcb: proto i64, p:f, i64:a, i64:b, d:x"
PCBW = "pcbw: proto i64, p:f, i64:s"
PTAB = "ptab: proto i64, p:t, i64:n, i64:a, d:x"
PW = "pw: proto i64, " + ", ".join(f"i64:a{i}" for i in range(8)) + ", " + ", ".join(f"d:x{i}" for i in range(9))
WHDR = "i64, " + ", ".join(f"i64:a{i}" for i in range(8)) + ", " + ", ".join(f"d:x{i}" for i in range(9))
HHDR = "i64, i64:a0, i64:a1, d:x0"
EXTS = {"ext0", "ext1", "ext2", "ext4", "extd", "extv", "extp", "extcb", "extcbw", "exttab", "extb24", "extb40", "extb56", "extb72"}
XB_SIZES = [24, 40, 56, 72]


class Mod:
    """one module: protos, imports, forwards, functions (name, header, locals, insns | raw lines), data"""

    def __init__(self, name):
        self.name = name
        self.protos = set()
        self.imports = set()
        self.forwards = []
        self.items = []     # ("func", name, header, locs, insns) | ("raw", [lines])
        self.stats = {}
        self.funcs = []     # FuncGen appends here: (name, header, locs, insns)

    def flush_funcs(self):
        for f in self.funcs:
            self.items.append(("func",) + tuple(f))
        self.funcs = []

    def raw(self, lines, defines=None):
        self.flush_funcs()
        self.items.append(("raw", defines, lines))

    def defined(self):
        """names of the functions this module defines (generated and template functions)"""
        return [it[1] for it in self.items if it[1] is not None and (it[0] == "func" or not it[1].endswith("_tab"))]

    def text(self):
        self.flush_funcs()
        defined = set(self.defined())
        body = []
        for it in self.items:
            if it[0] == "raw":
                body += it[2]
            else:
                _, name, header, locs, insns = it
                body.append(f"{name}: func {header}")
                if locs:
                    body.append("  local " + ", ".join(locs))
                body += [fmt_insn(i) for i in insns]
                body.append("  endfunc")
        out = [f"{self.name}: module"]
        out += sorted(self.protos)
        out += [f"import {i}" for i in sorted(self.imports - defined)]
        out.append("export " + ", ".join(self.defined()))
        out += [f"forward {f}" for f in self.forwards]
        out += body
        out.append("  endmodule")
        return "\n".join(out) + "\n"


def rec_func(r, name, callee, leaf, variant):
    """bounded recursion: name calls callee with depth-1 (callee == name: self recursion)"""
    L = [f"{name}: func {HHDR}", "  local i64:n, i64:r, i64:t, i64:u, d:y",
         "  and n, a0, 7", f"  ble {name}_base, n, 0", "  sub t, n, 1",
         f"  dadd y, x0, {1.5 + variant}", f"  mul r, a1, {31 + 2 * variant}", "  add r, r, n"]
    if r.chance(1, 2):   # a leaf call before the recursive call (live values across two calls)
        L += [f"  call ph, {leaf}, u, r, n, y", "  xor r, r, u"]
    L += [f"  call ph, {callee}, u, t, r, y", "  dlt t, y, x0", "  add r, u, t", "  mul r, r, 1000003", "  xor r, r, n"]
    if r.chance(1, 2):
        L += [f"  call ph, {leaf}, u, n, r, x0", "  add r, r, u"]
    L += ["  ret r", f"{name}_base:", f"  call ph, {leaf}, r, a1, a0, x0", "  dgt t, x0, 0.0", "  add r, r, t", "  ret r", "  endfunc"]
    return L


def wide_func(r, name, leaf):
    L = [f"{name}: func {WHDR}", "  local i64:r, i64:t, d:y", f"  mov r, {7 + r.below(90)}"]
    order = list(range(8))
    for i in order:
        L += ["  mul r, r, 1000003", f"  xor r, r, a{i}"]
    for j in range(9):
        L += [f"  dmul y, x{j}, 4.0", "  d2i t, y", "  mul r, r, 31", "  add r, r, t"]
    L += [f"  call ph, {leaf}, t, r, a7, x8", "  xor r, r, t", "  ret r", "  endfunc"]
    return L


def cw_func(r, name, w):
    L = [f"{name}: func {HHDR}", "  local i64:r, i64:t, i64:u, i64:fp, " + ", ".join(f"d:y{i}" for i in range(9)),
         "  and t, a0, 65535", "  i2d y0, t", "  dmul y0, y0, 0.25"]
    for i in range(1, 9):
        L.append(f"  dadd y{i}, y{i - 1}, {3.5 * i}")
    L += ["  xor u, a0, a1",
          f"  call pw, {w}, r, a0, a1, 3, t, a1, u, 77, a0, " + ", ".join(f"y{i}" for i in range(9)),
          f"  mov fp, {w}", "  and u, a1, 1048575", "  call pcbw, extcbw, t, fp, u", "  mul r, r, 31", "  xor r, r, t", "  ret r", "  endfunc"]
    return L


def cb_func(r, name, target):
    return [f"{name}: func {HHDR}", "  local i64:r, i64:fp", f"  mov fp, {target}",
            "  call pcb, extcb, r, fp, a0, a1, x0", "  ret r", "  endfunc"]


def ap_func(r, name, tab, n):
    mask = 1
    while mask * 2 <= n:
        mask *= 2
    return [f"{name}: func {HHDR}", "  local i64:i, i64:fp, i64:r, i64:t, i64:tb", f"  and i, a0, {mask - 1}",
            f"  mov tb, {tab}", "  mov fp, p:(tb, i, 8)", "  call ph, fp, r, a1, a0, x0",
            f"  call ptab, exttab, t, tb, {n}, a1, x0", "  mul r, r, 31", "  xor r, r, t", "  ret r", "  endfunc"]


def lref_func(r, name, tab, diff_jump=True):
    """computed goto through a table of label addresses kept in `lref` data (filled by whichever engine
    prepares the function: interpreter, generator, lazy generator, bb generator).  Entries:
      0  lref l0                plain address
      1  lref l1, D1            address form with a positive displacement (consumer subtracts D1)
      2  lref l2, lb, D2        difference form  l2 - lb + D2  (consumer subtracts D2 and adds the address of lb)
      3  lref l3, -D3           address form with a negative displacement
      4  lref lb                the base label of entry 2
      5  lref l1, l1, D5        difference form whose value is the constant D5: consumed by plain arithmetic
    the displacements and the `needs base` flags live in two i64 data tables next to it.
    diff_jump=False: entry 2 is `lref l2, D2` instead (the interpreter stores label differences in units of its
    code elements, not bytes — known finding C03:interp-lref-difference-unscaled — so base + difference is not a label)"""
    consts = [r.below(1000) for _ in range(4)]
    d1, d2, d3, d5 = 8 * (1 + r.below(500)), 1 + r.below(4000), 8 * (1 + r.below(500)), 1 + r.below(1 << 20)
    dd, db = tab + "d", tab + "b"
    L = [f"{dd}: i64 0, {d1}, {d2}, {-d3}", f"{db}: i64 0, 0, {1 if diff_jump else 0}, 0",
         f"{name}: func {HHDR}", "  local i64:i, i64:t, i64:r, i64:tb, i64:u, i64:w", "  and i, a0, 3", f"  mov tb, {tab}",
         "  mov t, p:(tb, i, 8)",
         f"  mov u, {dd}", "  mov w, i64:(u, i, 8)", "  sub t, t, w",            # remove the displacement
         f"  mov u, {db}", "  mov w, i64:(u, i, 8)", "  mov u, p:32(tb)", "  mul u, u, w", "  add t, t, u",   # + base (entry 2)
         "  jmpi t",
         f"{name}_l0:", f"  add r, a1, {consts[0]}", f"  jmp {name}_end",
         f"{name}_l1:", f"  mul r, a1, {3 + consts[1]}", f"  jmp {name}_end",
         f"{name}_lb:", "  mov r, 77", f"  jmp {name}_end",
         f"{name}_l2:", "  xor r, a1, a0", f"  add r, r, {consts[2]}", f"  jmp {name}_end",
         f"{name}_l3:", "  sub r, a0, a1", f"{name}_end:", "  dlt t, x0, 1.0", "  add r, r, t",
         "  mov t, i64:40(tb)", "  mul r, r, 31", "  add r, r, t",                 # the constant difference
         "  ret r", "  endfunc",
         f"{tab}: lref {name}_l0", f"  lref {name}_l1, {d1}", (f"  lref {name}_l2, {name}_lb, {d2}" if diff_jump else f"  lref {name}_l2, {d2}"), f"  lref {name}_l3, {-d3}",
         f"  lref {name}_lb", f"  lref {name}_l1, {name}_l1, {d5}"]
    return L


# ---- by-value block parameters: every block class at every register-boundary position
BLOCK_VARIANTS = [(0, 8), (0, 16), (0, 24), (0, 40), (1, 8), (1, 12), (1, 16), (2, 8), (2, 16), (3, 16), (4, 16), (5, 16), (5, 24)]
BLOCK_GRID = [(ni, nf, c, sz) for (c, sz) in BLOCK_VARIANTS for ni in range(8) for nf in range(10)]   # 1040 positions
BLK_NAME = {0: "blk", 1: "blk1", 2: "blk2", 3: "blk3", 4: "blk4", 5: "rblk"}


def block_fields(cls, size):
    """(offset, kind) of the pieces of the block the callee reads; same table as harness/c03_iface.c"""
    if cls in (0, 5):
        return [(o, "i64") for o in range(0, size - 7, 8)]
    if cls == 1:
        return [(0, "i64")] + ([(8, "i32")] if size == 12 else [(8, "i64")] if size == 16 else [])
    if cls == 2:
        return [(0, "d")] + ([(8, "d")] if size == 16 else [])
    if cls == 3:
        return [(0, "i64"), (8, "d")]
    return [(0, "d"), (8, "i64")]


def block_sig(ni, nf, cls, size):
    return ", ".join([f"i64:a{i}" for i in range(ni)] + [f"d:x{i}" for i in range(nf)] + [f"{BLK_NAME[cls]}:{size}(s)", "i64:g", "d:y"])


def block_func(name, ni, nf, cls, size):
    """callee: an order-sensitive hash of every argument, of the block's pieces and of the arguments after it"""
    L = [f"{name}: func i64, {block_sig(ni, nf, cls, size)}", "  local i64:r, i64:t, d:v", "  mov r, 17"]
    for i in range(ni):
        L += ["  mul r, r, 1000003", f"  xor r, r, a{i}"]
    for j in range(nf):
        L += [f"  dmul v, x{j}, 4.0", "  d2i t, v", "  mul r, r, 31", "  add r, r, t"]
    for off, k in block_fields(cls, size):
        if k == "d":
            L += [f"  dmov v, d:{off}(s)", "  dmul v, v, 4.0", "  d2i t, v", "  mul r, r, 31", "  add r, r, t"]
        else:
            L += [f"  mov t, {k}:{off}(s)", "  mul r, r, 1000003", "  xor r, r, t"]
    L += ["  mul r, r, 1000003", "  xor r, r, g", "  dmul v, y, 4.0", "  d2i t, v", "  mul r, r, 31", "  add r, r, t"]
    if cls == 5:
        L += ["  mov i64:0(s), r"]
    L += ["  ret r", "  endfunc"]
    return L


def block_caller(r, name, callee, proto, ni, nf, cls, size):
    """MIR caller (helper signature): builds the block in its frame and passes it by value"""
    nd = max(nf, 1)
    L = [f"{name}: func {HHDR}", "  local i64:p, i64:r, i64:t, d:v, d:w, " + ", ".join(f"d:z{j}" for j in range(nd)),
         "  alloca p, 64", "  and t, a0, 65535", "  i2d v, t", "  dmul v, v, 0.25"]
    for j in range(nf):
        L.append(f"  dadd z{j}, v, {1.5 * (j + 1)}")
    for off, k in block_fields(cls, size):
        c = 1 + r.below(1 << 20)
        if k == "d":
            L += [f"  dadd w, v, {0.25 * (c % 4000)}", f"  dmov d:{off}(p), w"]
        else:
            L += [f"  xor t, a1, {c}", f"  mov {k}:{off}(p), t"]
    ints = []
    for i in range(ni):
        ints.append(["a0", "a1", str(1 + r.below(1 << 30)), "t"][i % 4])
    args = ints + [f"z{j}" for j in range(nf)] + [f"{BLK_NAME[cls]}:{size}(p)", "a1", "v"]
    L += [f"  call {proto}, {callee}, r, " + ", ".join(args)]
    if cls == 5:
        L += ["  mov t, i64:0(p)", "  mul r, r, 31", "  xor r, r, t"]
    L += ["  ret r", "  endfunc"]
    return L


# ---- multiple results: every pair / triple of result types the x86-64 convention can return
RES_TYPES = ["i64", "i32", "u32", "i16", "u16", "i8", "u8", "f", "d", "ld"]
_RCLASS = {"f": "x", "d": "x", "ld": "l"}


def _res_ok(ts):
    cnt = {}
    for t in ts:
        c = _RCLASS.get(t, "i")
        cnt[c] = cnt.get(c, 0) + 1
    return all(v <= 2 for v in cnt.values())   # rax:rdx, xmm0:xmm1, st(0):st(1)


RESULT_GRID = ([(a,) for a in RES_TYPES] + [(a, b) for a in RES_TYPES for b in RES_TYPES]
               + [(a, b, c) for a in RES_TYPES for b in RES_TYPES for c in RES_TYPES if _res_ok((a, b, c))])   # 10 + 100 + 648
_EXT = {"i32": "ext32", "u32": "uext32", "i16": "ext16", "u16": "uext16", "i8": "ext8", "u8": "uext8"}
_REGT = {"f": "f", "d": "d", "ld": "ld"}


def multires_func(r, name, ts):
    """(a0, a1, x0) -> (t1, t2[, t3]): every result is a different function of the arguments, exactly
    representable in its type (so that no conversion rounds)"""
    L = [f"{name}: func {', '.join(ts)}, i64:a0, i64:a1, d:x0",
         "  local i64:t, i64:u, " + ", ".join(f"{_REGT.get(t, 'i64')}:v{k}" for k, t in enumerate(ts)),
         "  dlt u, x0, 1.0"]
    for k, t in enumerate(ts):
        c = 1 + r.below(1 << 28)
        L += [f"  add t, a0, {c}", "  xor t, t, a1", "  add t, t, u"]
        if t == "i64":
            L.append(f"  mov v{k}, t")
        elif t in _EXT:
            L.append(f"  {_EXT[t]} v{k}, t")
        elif t == "f":
            L += ["  and t, t, 4095", f"  i2f v{k}, t"]
        elif t == "d":
            L += ["  and t, t, 1048575", f"  i2d v{k}, t"]
        else:
            L += ["  and t, t, 1048575", f"  i2ld v{k}, t"]
    L += ["  ret " + ", ".join(f"v{k}" for k in range(len(ts))), "  endfunc"]
    return L


def multires_caller(r, name, callee, proto, ts):
    """MIR caller (helper signature): a multi-result call; every result enters the returned hash in order"""
    L = [f"{name}: func {HHDR}", "  local i64:r, i64:t, " + ", ".join(f"{_REGT.get(t, 'i64')}:v{k}" for k, t in enumerate(ts)),
         f"  call {proto}, {callee}, " + ", ".join(f"v{k}" for k in range(len(ts))) + ", a1, a0, x0", "  mov r, 23"]
    for k, t in enumerate(ts):
        if t == "f":
            L.append(f"  f2i t, v{k}")
        elif t == "d":
            L.append(f"  d2i t, v{k}")
        elif t == "ld":
            L.append(f"  ld2i t, v{k}")
        else:
            L.append(f"  mov t, v{k}")
        L += ["  mul r, r, 1000003", "  xor r, r, t"]
    L += ["  ret r", "  endfunc"]
    return L


def xblk_func(name, s1, s2):
    """one buffer passed by value as blk:<s1> and then as blk:<s2> to native callees: two call prototypes that differ
    only in the size of the block (the interpreter caches its call-out stubs per prototype shape)"""
    L = [f"{name}: func {HHDR}", "  local i64:p, i64:t, i64:r1, i64:r2, i64:r", "  alloca p, 96"]
    for i in range(10):
        L += [f"  add t, a0, {1000003 * (i + 1)}", "  xor t, t, a1", f"  mov i64:{8 * i}(p), t"]
    L += [f"  call pe{s1}, extb{s1}, r1, blk:{s1}(p), a1", f"  call pe{s2}, extb{s2}, r2, blk:{s2}(p), a0",
          "  mul r, r1, 31", "  xor r, r, r2", "  ret r", "  endfunc"]
    return L


class C03Prog:
    def __init__(self, name, mods, entries, helpers_sig, wides, stats, blocks=(), multis=()):
        self.name, self.mods, self.entries, self.hfuncs, self.wides, self.stats = name, mods, entries, helpers_sig, wides, stats
        self.blocks = list(blocks)   # (function, ni, nf, cls, size)
        self.multis = list(multis)   # (function, result types)
        self.xblks = []              # (function, s1, s2)

    def text(self):
        return "".join(m.text() for m in self.mods)


def fix_imports(mods):
    """import every called / referenced function that another module defines"""
    where = {}
    for m in mods:
        m.flush_funcs()
        for f in m.defined():
            where[f] = m
    for m in mods:
        mine = set(m.defined())
        for it in m.items:
            if it[0] != "func":
                continue
            for ins in it[4]:
                if ins[0] in ("call", "inline") and isinstance(ins[2], str):
                    c = ins[2]
                    if c in where and c not in mine:
                        m.imports.add(c)


def gen_c03_program(rng, name, opts=None, many_doubles=False, block_positions=(), result_tuples=()):
    A, B = Mod(name + "a"), Mod(name + "b")
    for m in (A, B):
        m.protos |= {PH, PCB, PCBW, PTAB, PW}
        m.imports |= {"extcb", "extcbw", "exttab"}
    stats = {}

    def leaf(m, fn):
        ho = dict(opts or {})
        ho.update(mem=False, alloca=rng.chance(1, 3), nblocks=3, ninsn=5, nint=5, ndbl=2, fuel=12, calls=rng.chance(1, 2), jmpi=False)
        FuncGen(rng, m, fn, entry=False, helpers=[], opts=ho).build()
        m.flush_funcs()
        return fn
    a_h = [leaf(A, name + "a_h0"), leaf(A, name + "a_h1")]
    b_h = [leaf(B, name + "b_h0")]
    # recursion
    r0 = name + "a_r0"
    A.raw(rec_func(rng, r0, r0, rng.choice(a_h), 0), r0)
    ma, mb = name + "a_ma", name + "b_mb"
    A.raw(rec_func(rng, ma, mb, rng.choice(a_h), 1), ma); A.imports.add(mb)
    B.raw(rec_func(rng, mb, ma, rng.choice(b_h), 2), mb); B.imports.add(ma)
    na, nb = name + "a_na", name + "a_nb"
    A.forwards.append(nb)
    A.raw(rec_func(rng, na, nb, rng.choice(a_h), 3), na)
    A.raw(rec_func(rng, nb, na, rng.choice(a_h), 4), nb)
    # label addresses in data, indirect jump
    lr, lt = name + "a_lr", name + "a_lt"
    A.forwards.append(lt)
    A.raw(lref_func(rng, lr, lt, diff_jump=(opts or {}).get("lref_diff_jump", False)), lr)
    # table of function addresses (local and imported), indirect calls
    tab = name + "a_tab"
    cands = a_h + [r0, ma, na, lr] + b_h + [mb]
    ents = [rng.choice(cands) for _ in range(4)]
    for e in ents:
        if e.startswith(name + "b_"):
            A.imports.add(e)
    A.raw([f"{tab}: ref {ents[0]}, 0"] + [f"  ref {e}, 0" for e in ents[1:]], tab)
    ap = name + "a_ap"
    A.raw(ap_func(rng, ap, tab, 4), ap)
    # callbacks through C
    cb = name + "b_cb"
    cbt = rng.choice([r0, ma, a_h[0], mb, b_h[0], ap, lr])
    if not cbt.startswith(name + "b_"):
        B.imports.add(cbt)
    B.raw(cb_func(rng, cb, cbt), cb)
    w = name + "b_w"
    B.raw(wide_func(rng, w, b_h[0]), w)
    cw = name + "a_cw"
    A.imports.add(w)
    A.raw(cw_func(rng, cw, w), cw)
    # functions with a by-value block parameter (callee in one module, MIR caller in the other)
    blocks, bcs = [], []
    for j, (ni, nf, cls, size) in enumerate(block_positions):
        callee_mod, caller_mod = (A, B) if j % 2 == 0 else (B, A)
        cm, rm = ("a", "b") if j % 2 == 0 else ("b", "a")
        bf, bc, pb = f"{name}{cm}_bf{j}", f"{name}{rm}_bc{j}", f"pb{j}"
        callee_mod.raw(block_func(bf, ni, nf, cls, size), bf)
        caller_mod.protos.add(f"{pb}: proto i64, {block_sig(ni, nf, cls, size)}")
        caller_mod.imports.add(bf)
        caller_mod.raw(block_caller(rng, bc, bf, pb, ni, nf, cls, size), bc)
        blocks.append((bf, ni, nf, cls, size))
        bcs.append(bc)
    # block arguments of two sizes to native callees, smaller first in one function, larger first in the other
    xbs = []
    sz = sorted(permute(rng, XB_SIZES)[:2])
    for j, (mod, (s1, s2)) in enumerate([(A, (sz[0], sz[1])), (B, (sz[1], sz[0]))]):
        xb = f"{name}{'ab'[j]}_xb{j}"
        for sx in (s1, s2):
            mod.protos.add(f"pe{sx}: proto i64, blk:{sx}(s), i64:t")
            mod.imports.add(f"extb{sx}")
        mod.raw(xblk_func(xb, s1, s2), xb)
        xbs.append((xb, s1, s2))
    # multi-result functions (callee in one module, MIR caller in the other)
    multis, mcs = [], []
    for j, ts in enumerate(result_tuples):
        callee_mod, caller_mod = (B, A) if j % 2 == 0 else (A, B)
        cm, rm = ("b", "a") if j % 2 == 0 else ("a", "b")
        mr, mc, pm = f"{name}{cm}_mr{j}", f"{name}{rm}_mc{j}", f"pm{j}"
        callee_mod.raw(multires_func(rng, mr, ts), mr)
        caller_mod.protos.add(f"{pm}: proto {', '.join(ts)}, i64:a0, i64:a1, d:x0")
        caller_mod.imports.add(mr)
        caller_mod.raw(multires_caller(rng, mc, mr, pm, ts), mc)
        multis.append((mr, ts))
        mcs.append(mc)
    hs = a_h + b_h + [r0, ma, mb, na, ap, cb, cw, lr] + bcs + mcs + [x[0] for x in xbs]
    eo = dict(opts or {})
    if many_doubles:
        eo.update(ndbl=12)
    ea, eb = name + "a_e0", name + "b_e0"
    FuncGen(rng, A, ea, entry=True, helpers=hs, opts=eo).build()
    FuncGen(rng, B, eb, entry=True, helpers=hs, opts=eo).build()
    fix_imports([A, B])
    for m in (A, B):
        for k, v in m.stats.items():
            stats[k] = stats.get(k, 0) + v
    stats["modules"] = 2
    stats["recursive_funcs"] = 5
    stats["ref_data_entries"] = 4
    stats["callback_funcs"] = 2
    stats["many_doubles"] = 1 if many_doubles else 0
    stats["lref_tables"] = 1
    stats["block_param_funcs"] = len(blocks)
    stats["multi_result_funcs"] = len(multis)
    stats["native_block_size_pairs"] = len(xbs)
    P = C03Prog(name, [A, B], [ea, eb], [r0, ma, mb, na, ap, cb, cw, lr, a_h[0], b_h[0]] + bcs + mcs, [w], stats, blocks, multis)
    P.xblks = xbs
    return P


HARGS = [(3, 5, 1.0), (7, 0xffffffffffffffff, -2.5), (0x123456789, 12, 1e300), (6, 1 << 40, 0.0)]


def calls_for(P, argsets, rng, nh=5):
    """the multiset of C-level calls of one program"""
    calls = []
    for e in P.entries:
        for a in argsets:
            calls.append(f"prog {e} {a[0]:x} {a[1]:x} {a[2]:x} {a[3]:x} {mirgen_dbits(a[4]):x} {mirgen_dbits(a[5]):x}")
    hf = list(P.hfuncs)
    for _ in range(nh):
        f = rng.choice(hf)
        a = rng.choice(HARGS)
        calls.append(f"callh {f} {a[0]:x} {a[1]:x} {mirgen_dbits(a[2]):x}")
    for wname in P.wides:
        calls.append(f"wide {wname} {rng.below(1 << 30):x}")
    for (mr, ts) in P.multis:
        a = rng.choice(HARGS)
        calls.append(f"callm {mr} {','.join(ts)} {a[0]:x} {a[1]:x} {mirgen_dbits(a[2]):x}")
    for mc in [h for h in P.hfuncs if "_mc" in h]:   # every MIR-level multi-result call is made at least once
        a = rng.choice(HARGS)
        calls.append(f"callh {mc} {a[0]:x} {a[1]:x} {mirgen_dbits(a[2]):x}")
    for (xb, s1, s2) in P.xblks:
        a = rng.choice(HARGS)
        calls.append(f"callx {xb} {s1} {s2} {a[0]:x} {a[1]:x}")
    for (bf, ni, nf, cls, size) in P.blocks:
        calls.append(f"callb {bf} {ni} {nf} {cls} {size} {rng.below(1 << 30):x}")
    return calls


def mirgen_dbits(x):
    import struct
    return struct.unpack("<Q", struct.pack("<d", x))[0]


def permute(rng, xs):
    xs = list(xs)
    for i in range(len(xs) - 1, 0, -1):
        j = rng.below(i + 1)
        xs[i], xs[j] = xs[j], xs[i]
    return xs


def plan_from(calls, every=4):
    out = ["addrs"]
    for i, c in enumerate(calls):
        out.append(c)
        if (i + 1) % every == 0:
            out.append("addrs")
    out.append("addrs")
    return "\n".join(out) + "\n"
