"""C15 — ill-formed IR is rejected through the error callback; well-formed IR is accepted.

Stages (DESIGN.md 2.3):
  1. translate/c15_tables.py regenerates lean/MirVerif/Gen/C15_Tables.lean (enums + insn_descs rows)
     from the current tree; proof gate = lake build MirVerif.Props.C15 + mirdrv_c15 + axiom audit.
  2. tie gate (exhaustive T2): harness/c15_harness.c (ASan+UBSan; an assert-enabled and an NDEBUG
     flavour) builds every cell (opcode x position x operand kind, other positions filled with a
     documented-legal operand) through the public API under a longjmp-ing error function, plus
     generated arity / switch / ret / call-vs-prototype / declaration / overflow-branch cases and
     seeded random multi-insn functions.  Three verdicts per case:
        impl  = the real checker            (harness)
        model = Model/Check.lean            (mirdrv_c15)        -> impl != model : broken tie
        doc   = Model/CheckDocRun.lean      (mirdrv_c15 doc)    -> impl != doc   : property violated
     A violated cell whose signature is listed in known_findings.d/C15.json *and* behaves as the
     model predicts is a KNOWN-FINDING; anything else is a VIOLATION with a one-line replay.
  3. when the proof gate broke (e.g. a changed insn_descs row) the same exhaustive run is the
     search: it names the concrete (opcode, position, kind) cell where implementation != documentation.
"""
import json, os, subprocess, sys, time
from vf import Check, VERIF, REPO, LEAN

ck = Check("C15")
SUPPORT = ["MirVerif.Model.Check", "MirVerif.Model.DocModes", "MirVerif.Model.CheckKnown",
           "MirVerif.Model.CheckDocRun", "MirVerif.Lemmas.CheckEnum", "MirVerif.Lemmas.CheckGrid",
           "MirVerif.Lemmas.CheckStruct", "MirVerif.Lemmas.CheckVar"]
proof_ok = ck.proof_gate(["MirVerif.Props.C15"], support_modules=SUPPORT, exes=["mirdrv_c15"],
                         translators=["c15_tables.py"])
DRV = os.path.join(LEAN, ".lake", "build", "bin", "mirdrv_c15")
if not proof_ok:
    # the driver does not depend on the theorems: build it alone so that the search can run
    rc, out = ck.lake(["mirdrv_c15"])
    if rc != 0:
        ck.log("driver does not build either:\n" + out[-1500:])
drv_ok = os.path.exists(DRV) and subprocess.run([DRV, "sigs"], capture_output=True).returncode == 0

# alignment checks off: mir-hash.h reads strings through unaligned uint32_t/uint64_t loads on purpose (x86-64)
FLAGS = ["-O1", "-g", "-fsanitize=address,undefined", "-fno-sanitize=alignment", "-fno-sanitize-recover=all"]
exes = ck.cc_par([("c15_harness_assert", ["harness/c15_harness.c"], FLAGS),
                  ("c15_harness_ndebug", ["harness/c15_harness.c"], FLAGS + ["-DNDEBUG"])])
for k, v in exes.items():
    if v is None:
        ck.broken_ties.append({"kind": "harness-compile", "name": k, "log": getattr(ck, "last_cc_log", "")[-1500:]})
if not drv_ok or any(v is None for v in exes.values()):
    ck.assumptions.append("tie gate not run: driver or harness did not build")
    ck.finish()

# ----------------------------------------------------------------------------- vocabulary
sig_lines = subprocess.run([DRV, "sigs"], capture_output=True, text=True).stdout.strip().split("\n")
OPC = {}            # code -> dict(name, cls, nops, fill)
KNOWN_LISTED = []
for l in sig_lines:
    f = l.split()
    if f[0] == "known":
        KNOWN_LISTED = f[1:]
        continue
    c = int(f[0])
    OPC[c] = {"name": f[1], "cls": f[2], "nops": int(f[3]) if len(f) > 3 else None, "fill": f[4:]}
CODE = {v["name"]: c for c, v in OPC.items()}
gen_src = open(os.path.join(LEAN, "MirVerif", "Gen", "C15_Tables.lean")).read()
import re
TY = {m.group(1): int(m.group(2)) for m in re.finditer(r"^def T_(\w+) : Nat := (\d+)", gen_src, re.M)}
ERR = {int(m.group(2)): m.group(1) for m in re.finditer(r"^def E_(\w+) : Nat := (\d+)", gen_src, re.M)}
I64, F_, D_, LD_ = TY["I64"], TY["F"], TY["D"], TY["LD"]
SCALARS = [TY[n] for n in ["I8", "U8", "I16", "U16", "I32", "U32", "I64", "U64", "F", "D", "LD", "P"]]
BLKS = [TY["BLK"] + i for i in range(5)] + [TY["RBLK"]]
ALLTY = list(range(TY["BOUND"] + 1))
REFS = ["ref.func", "ref.import", "ref.export", "ref.forward", "ref.data", "ref.bss", "ref.p0"]
BASIC = ["r.i", "r.f", "r.d", "r.l", "r.u", "i", "u", "f", "d", "l", "L", "s"] + REFS


def mem(t, disp=0, b="i", x="0"):
    return "m.%d.%d.%s.%s" % (t, disp, b, x)


def kinds(full):
    ks = list(BASIC)
    if full:
        for t in ALLTY:
            for disp in (0, -8):
                for b in "0ifdlu":
                    for x in "0ifdlu":
                        ks.append(mem(t, disp, b, x))
    else:
        ks += [mem(t) for t in ALLTY]
        ks += [mem(I64, 0, "f"), mem(I64, 0, "i", "d"), mem(I64, 0, "u"), mem(I64, 0, "i", "u"),
               mem(I64, 0, "0"), mem(TY["BLK"], -8), mem(I64, -8), mem(TY["UNDEF"], 0, "f"),
               mem(TY["UNDEF"], 0, "u"), mem(TY["RBLK"], -8, "l", "u")]
    return ks


def class_reg(t):
    return {F_: "r.f", D_: "r.d", LD_: "r.l"}.get(t, "r.i")


PRE = "P 0 0 0 F 1 0 1 %d a0" % I64        # dummy proto p0 + vararg function without results


def insn(name_or_code, ops):
    c = CODE[name_or_code] if isinstance(name_or_code, str) else name_or_code
    return "I %d %d %s" % (c, len(ops), " ".join(ops))


cases = []          # dict(id, line, tag)


def add(line, **tag):
    cases.append({"id": "c%d" % len(cases), "line": line, "tag": tag})


OVB = ("BO", "UBO", "BNO", "UBNO")
thorough = ck.tier == "thorough"
KQ = kinds(False)
KF = kinds(True) if thorough else KQ

# ----- G1: the grid -------------------------------------------------------------------------
for c, o in sorted(OPC.items()):
    if o["cls"] != "fixed":
        continue
    pre = PRE + (" " + insn("ADDO", ["r.i", "r.i", "r.i"]) if o["name"] in OVB else "")
    for p in range(o["nops"]):
        for k in KF:
            ops = list(o["fill"])
            ops[p] = k
            add("%s %s E" % (pre, insn(c, ops)), kind="grid", code=c, pos=p, tok=k)
# ----- G2: arity -----------------------------------------------------------------------------
for c, o in sorted(OPC.items()):
    if o["cls"] == "fixed":
        n = o["nops"]
        if n >= 1:
            add("%s %s E" % (PRE, insn(c, o["fill"][:n - 1])), kind="arity", code=c, n=n - 1)
        add("%s %s E" % (PRE, insn(c, o["fill"] + ["r.i"])), kind="arity", code=c, n=n + 1)
    elif o["cls"] in ("internal", "undocumented"):
        for n in range(0, 4):
            add("%s %s E" % (PRE, insn(c, ["r.i"] * n)), kind="internal", code=c, n=n)
# ----- G3: switch ----------------------------------------------------------------------------
for n in range(0, 4):
    add("%s %s E" % (PRE, insn("SWITCH", (["r.i"] + ["L"] * 3)[:n])), kind="switch-arity", n=n)
for p in range(3):
    for k in KQ:
        ops = ["r.i", "L", "L"]
        ops[p] = k
        add("%s %s E" % (PRE, insn("SWITCH", ops)), kind="switch", pos=p, tok=k)
# ----- G4: ret / jret ------------------------------------------------------------------------
for t in SCALARS:
    for k in KQ:
        add("P 0 0 0 F 0 1 %d 0 %s E" % (t, insn("RET", [k])), kind="ret", ty=t, tok=k)
for t in BLKS + [TY["UNDEF"], TY["BOUND"]]:
    add("P 0 0 0 F 0 1 %d 0 E" % t, kind="func-res-type", ty=t)
    add("P 0 1 %d 0 F 0 0 0 E" % t, kind="proto-res-type", ty=t)
add("P 0 0 0 F 1 0 0 E", kind="vararg-noargs")
for nres, nops in ((1, 0), (1, 2), (0, 1), (2, 1), (2, 3), (0, 2)):
    add("P 0 0 0 F 0 %d %s 0 %s E" % (nres, " ".join([str(I64)] * nres), insn("RET", ["r.i"] * nops)),
        kind="ret-count", nres=nres, nops=nops)
add("P 0 0 0 F 0 2 %d %d 0 %s E" % (I64, D_, insn("RET", ["i", "r.d"])), kind="ret-ok")
add("P 0 0 0 F 0 0 0 %s %s E" % (insn("RET", []), insn("JRET", ["r.i"])), kind="ret-jret-mix")
add("P 0 0 0 F 0 0 0 %s %s E" % (insn("JRET", ["r.i"]), insn("RET", [])), kind="ret-jret-mix")
add("P 0 0 0 F 0 1 %d 0 %s E" % (I64, insn("JRET", ["r.i"])), kind="jret-with-results")
add("P 0 0 0 F 0 0 0 %s E" % insn("JRET", ["r.i"]), kind="jret-ok")
add("P 0 0 0 F 0 0 1 %d a0 %s E" % (I64, insn("VA_START", ["r.i"])), kind="va-start-nonvararg")
# ----- G5: calls -----------------------------------------------------------------------------
PROTOS = [  # (va, res types, args [(type,size)])
    (0, [], []),
    (0, [I64], [(I64, 0), (D_, 0)]),
    (0, [F_, LD_], [(TY["I8"], 0), (TY["P"], 0), (F_, 0)]),
    (1, [I64], [(TY["U16"], 0)]),
    (0, [], [(TY["BLK"], 16), (I64, 0)]),
    (1, [D_], [(TY["BLK"] + 1, 8), (TY["RBLK"], 24)]),
    (0, [], [(I64, 0)] * 4),
    (0, [], [(I64, 0)] * 7),
]
for _ in range(12 if thorough else 4):
    nres, nargs = ck.rng.below(3), ck.rng.below(4)
    PROTOS.append((ck.rng.below(2) if nargs else 0, [ck.rng.choice(SCALARS) for _ in range(nres)],
                   [((lambda t: (t, 8 * (1 + ck.rng.below(4)) if t in BLKS else 0))(ck.rng.choice(SCALARS + BLKS)))
                    for _ in range(nargs)]))


def proto_dir(pr):
    va, res, args = pr
    return "P %d %d %s %d %s" % (va, len(res), " ".join(map(str, res)), len(args),
                                 " ".join("%d %d" % a for a in args))


def good_ops(pr):
    va, res, args = pr
    return ["ref.p1", "ref.import"] + [class_reg(t) for t in res] + \
        [mem(t, s) if t in BLKS else class_reg(t) for t, s in args]


CALLS = ("CALL", "INLINE", "JCALL")
for pi, pr in enumerate(PROTOS):
    va, res, args = pr
    pre = "P 0 0 0 %s F 1 0 1 %d a0" % (proto_dir(pr), I64)
    g = good_ops(pr)
    for cn in CALLS:
        sg = None
        add("%s %s E" % (pre, insn(cn, g)), kind="call-ok", proto=pi, code=cn, sig=sg)
        add("%s %s E" % (pre, insn(cn, g[:-1])), kind="call-count", proto=pi, code=cn, sig=sg)
        for extra in ("r.i", "f", mem(TY["BLK"], 8), mem(TY["RBLK"], 8), "r.u"):
            add("%s %s E" % (pre, insn(cn, g + [extra])), kind="call-extra", proto=pi, code=cn, tok=extra, sig=sg)
        ks = KQ if (pi < 6 or thorough) else ["r.i", "r.f", "i", "f", "L", mem(I64), mem(TY["BLK"], 16)]
        for p in range(2, len(g)):
            for k in ks:
                ops = list(g)
                ops[p] = k
                add("%s %s E" % (pre, insn(cn, ops)), kind="call-pos", proto=pi, code=cn, pos=p, tok=k, sig=sg)
            t, s = (res[p - 2], 0) if p - 2 < len(res) else args[p - 2 - len(res)]
            for k in ([mem(t, s + 8), mem(t, -s), mem(TY["BLK"] + 2, s), mem(TY["RBLK"] if t != TY["RBLK"] else TY["BLK"], s)]
                      if t in BLKS else [mem(b, 8) for b in BLKS]):
                ops = list(g)
                ops[p] = k
                add("%s %s E" % (pre, insn(cn, ops)), kind="call-blk", proto=pi, code=cn, pos=p, tok=k, sig=sg)
        if pi < 3:
            for k in KQ:
                ops = list(g)
                ops[1] = k
                add("%s %s E" % (pre, insn(cn, ops)), kind="call-target", proto=pi, code=cn, tok=k,
                    sig=sg)
            for k in ("r.i", "ref.func", "i", "ref.p0", "L"):
                ops = list(g)
                ops[0] = k
                add("%s %s E" % (pre, insn(cn, ops)), kind="call-proto-op", proto=pi, code=cn, tok=k, sig=sg)
    add("%s %s E" % (pre, insn("CALL", g[:1])), kind="call-count", proto=pi, code="CALL")
# ----- G6: declarations -----------------------------------------------------------------------
NAMES = [".lc1", ".lc", ".lcx", "hr", "hr0", "hr12", "hr9", "hr8", "hr90", "hr19", "hr/", "hr:", "hrx", "hr1x",
         "t1", "fp", "x", ".l", ".lb1", "h", "hs1", "r9", "a0", "ri"]
for n in NAMES:
    for t in (I64, F_, D_, LD_, TY["I8"], TY["U64"], TY["P"], TY["BLK"], TY["UNDEF"]):
        add("%s R %d %s E" % (PRE, t, n), kind="decl", name=n, ty=t)
add("%s R %d x R %d x E" % (PRE, I64, I64), kind="decl-repeat")
add("%s R %d x R %d x E" % (PRE, I64, F_), kind="decl-repeat")
add("P 0 0 0 F 0 0 2 %d x %d x E" % (I64, I64), kind="decl-repeat-args")
add("P 0 0 0 F 0 0 2 %d x %d y R %d y E" % (I64, F_, I64), kind="decl-repeat-arg-local")
add("P 0 0 0 F 0 0 1 %d hr3 E" % I64, kind="decl-reserved-arg")
add("P 0 0 0 F! 0 0 1 %d x %s E" % (F_, insn("FMOV", ["r:x", "f"])), kind="decl-use-arg")
add("P 0 0 0 F! 0 0 1 %d x %s E" % (TY["I8"], insn("MOV", ["r:x", "i"])), kind="decl-use-arg")
add("P 0 0 0 F! 0 0 1 %d x %s E" % (I64, insn("MOV", ["r:y", "i"])), kind="undeclared-name")
add("%s R %d q %s E" % (PRE, D_, insn("DMOV", ["r:q", "d"])), kind="decl-use-local")
add("%s R %d q %s E" % (PRE, D_, insn("MOV", ["r:q", "i"])), kind="decl-use-local-wrong")
# ----- G6b: global variables tied to hard registers (MIR_new_global_func_reg), histories inside one function
# and across functions: same/different name x same/different hard register x same/different type
HARDS = ["rax", "rbx", "r12", "r15", "xmm0", "xmm12", "xmm15", "rsp", "rbp", "r10", "r11", "xmm8", "xmm9",
         "st0", "st1", "nosuch", "RAX", "xmm16", "-"]
GT = (I64, F_, D_, LD_, TY["I8"], TY["P"])
for h in HARDS:
    for t in GT:
        add("%s G %d ga %s E" % (PRE, t, h), kind="global-decl", hard=h, ty=t)
for n in (".lc3", "hr7", "ri", "a0"):
    add("%s G %d %s rbx E" % (PRE, I64, n), kind="global-decl-name", name=n)
GP = [("rbx", I64), ("r12", I64), ("xmm12", F_), ("xmm12", D_), ("xmm15", F_), ("xmm15", D_), ("xmm0", D_)]
for ha, ta in GP:
    for hb, tb in GP:
        for nb in ("ga", "gb"):
            add("%s G %d ga %s G %d %s %s E" % (PRE, ta, ha, tb, nb, hb), kind="global-pair", a=(ha, ta), b=(hb, tb), nb=nb)
        # ... in two functions of one module (the tables are per function)
        add("%s G %d ga %s Z F 0 0 0 G %d gb %s E" % (PRE, ta, ha, tb, hb), kind="global-pair-2funcs", a=(ha, ta), b=(hb, tb))
        add("%s G %d ga %s Z F 0 0 0 G %d ga %s E" % (PRE, ta, ha, tb, hb), kind="global-pair-2funcs", a=(ha, ta), b=(hb, tb))
for tys in ((F_, F_, F_), (F_, F_, D_), (F_, D_, F_), (D_, D_, D_), (D_, F_, F_)):
    for hs in (("xmm12",) * 3, ("xmm12", "xmm15", "xmm12"), ("xmm12", "xmm12", "xmm15")):
        add("%s %s E" % (PRE, " ".join("G %d g%d %s" % (tys[k], k, hs[k]) for k in range(3))),
            kind="global-triple", tys=tys, hs=hs)
for hs in (("rbx",) * 3, ("rbx", "r12", "rbx")):
    add("%s %s E" % (PRE, " ".join("G %d g%d %s" % (I64, k, hs[k]) for k in range(3))), kind="global-triple", hs=hs)
# locals and globals interleaved; the name of a sharing variable is not entered: using it by name fails,
# declaring it again succeeds
add("%s R %d x G %d x xmm12 E" % (PRE, F_, F_), kind="global-mix")
add("%s G %d x xmm12 R %d x E" % (PRE, F_, F_), kind="global-mix")
add("%s G %d ga xmm12 R %d y G %d gb xmm12 G %d gc xmm15 R %d z E" % (PRE, F_, I64, F_, D_, D_), kind="global-mix")
add("%s G %d ga xmm12 G %d gb xmm12 R %d gb E" % (PRE, F_, F_, F_), kind="global-mix")
add("%s G %d ga xmm12 G %d gb xmm12 %s E" % (PRE, F_, F_, insn("FMOV", ["r:ga", "f"])), kind="global-use")
add("%s G %d ga xmm12 G %d gb xmm12 %s E" % (PRE, F_, F_, insn("FMOV", ["r:gb", "f"])), kind="global-use")
add("%s G %d ga rbx %s E" % (PRE, I64, insn("ADD", ["r:ga", "r:ga", "i"])), kind="global-use")
add("%s G %d ga xmm12 %s E" % (PRE, D_, insn("MOV", ["r:ga", "i"])), kind="global-use")
# ----- G7: overflow branches ------------------------------------------------------------------
PRODS = ["ADDO", "ADDOS", "SUBO", "SUBOS", "MULO", "MULOS", "UMULO", "UMULOS", "ADD", "MUL"]
BETWEEN = {"none": [], "regmove": [insn("MOV", ["r.i", "r.i"])], "store": [insn("MOV", [mem(I64), "r.i"])],
           "two": [insn("MOV", ["r.i", "r.i"]), insn("MOV", [mem(I64), "r.i"])],
           "load": [insn("MOV", ["r.i", mem(I64)])], "imm": [insn("MOV", ["r.i", "i"])],
           "fmov": [insn("FMOV", ["r.f", "r.f"])], "add": [insn("ADD", ["r.i", "r.i", "r.i"])]}
for br in OVB:
    add("%s %s E" % (PRE, insn(br, ["L"])), kind="ovf-noprod", br=br)
    add("%s %s %s E" % (PRE, insn("MOV", ["r.i", "r.i"]), insn(br, ["L"])), kind="ovf-noprod", br=br)
    for pn in PRODS:
        for bn, bt in BETWEEN.items():
            add("%s %s %s %s E" % (PRE, insn(pn, ["r.i", "r.i", "r.i"]), " ".join(bt), insn(br, ["L"])),
                kind="ovf", br=br, prod=pn, between=bn)
# ----- G8: seeded random functions with at most one injected fault --------------------------------
FIXED = [c for c, o in OPC.items() if o["cls"] == "fixed" and o["name"] not in OVB and o["name"] != "JRET"]
NRAND = 20000 if thorough else 2500
for _ in range(NRAND):
    n = 1 + ck.rng.below(5)
    body = []
    fault = ck.rng.below(n) if ck.rng.chance(2, 3) else -1
    for j in range(n):
        c = ck.rng.choice(FIXED)
        ops = list(OPC[c]["fill"])
        if j == fault and ops:
            ops[ck.rng.below(len(ops))] = ck.rng.choice(KQ)
        elif j == fault:
            ops = ["r.i"]
        body.append(insn(c, ops))
        if ck.rng.chance(1, 6):
            prod = ck.rng.choice(PRODS[:8])
            body.append(insn(prod, ["r.i", "r.i", "r.i"]))
            if ck.rng.chance(1, 2):   # a register move or a store keeps the flag consumable
                body.append(insn("MOV", [ck.rng.choice(["r.i", mem(I64)]), "r.i"]))
            # a branch whose signedness fits the producer (anything else is a second, legitimate fault)
            brs = ("BO", "BNO") if prod in ("MULO", "MULOS") else ("UBO", "UBNO") if prod in ("UMULO", "UMULOS") else OVB
            body.append(insn(ck.rng.choice(brs), ["L"]))
    add("%s %s E" % (PRE, " ".join(body)), kind="random", n=len(body))

# corpus (minimised past failures and the pinned replays of the known findings) goes first
corpus = []
cdir = os.path.join(VERIF, "corpus", "C15")
if os.path.isdir(cdir):
    for fn in sorted(os.listdir(cdir)):
        if fn.endswith(".txt"):
            for ln in open(os.path.join(cdir, fn)):
                ln = ln.strip()
                if ln and not ln.startswith("#"):
                    sg = None
                    if ln.startswith("@"):
                        sg, ln = ln[1:].split(None, 1)
                    corpus.append({"id": "k%d" % len(corpus), "line": ln, "tag": {"kind": "corpus", "file": fn, "sig": sg}})
ck.cov["corpus_replayed"] = len(corpus)


# ----------------------------------------------------------------------------- running
def run_harness(exe, cs):
    """-> {id: 'ok' | 'err N stage' | 'crash'}, crash logs"""
    env = dict(os.environ, ASAN_OPTIONS="detect_leaks=0:abort_on_error=0", UBSAN_OPTIONS="print_stacktrace=0")
    res, logs = {}, {}
    todo = list(cs)
    while todo:
        inp = "".join("%s %s\n" % (c["id"], c["line"]) for c in todo)
        p = subprocess.run([exe], input=inp, capture_output=True, text=True, env=env)
        n = 0
        for o in p.stdout.split("\n"):
            f = o.split()
            if len(f) >= 2:
                res[f[0]] = " ".join(f[1:])
                n += 1
        if p.returncode == 0 and n >= len(todo):
            break
        if n >= len(todo):
            break
        res[todo[n]["id"]] = "crash"
        errl = [l for l in p.stderr.split("\n") if "rror" in l or "ssert" in l or "SUMMARY" in l]
        logs[todo[n]["id"]] = (errl[0] if errl else "exit %d" % p.returncode)[-300:]
        todo = todo[n + 1:]
    return res, logs


def run_drv(args, cs):
    inp = "".join("%s %s\n" % (c["id"], c["line"]) for c in cs)
    p = subprocess.run([DRV] + args, input=inp, capture_output=True, text=True)
    res = {}
    for o in p.stdout.split("\n"):
        f = o.split()
        if len(f) >= 2:
            res[f[0]] = "crash" if f[1] == "crash" else " ".join(f[1:])
    return res


def nostage(v):
    f = (v or "missing").split()
    return " ".join(f[:2]) if f[0] == "err" else " ".join(f)     # `ok g=5,5` keeps the register identities


def pretty(v):
    f = (v or "missing").split()
    if f[0] == "err" and len(f) >= 2 and f[1].isdigit():
        return "MIR_%s_error%s" % (ERR.get(int(f[1]), f[1]), (" @" + f[2]) if len(f) > 2 else "")
    return ("accepted" + (" " + " ".join(f[1:]) if len(f) > 1 else "")) if f[0] == "ok" else v


def cell_sigs(cs):
    inp = "".join("%s %d %d %s\n" % (c["id"], c["tag"]["code"], c["tag"]["pos"], c["tag"]["tok"]) for c in cs)
    p = subprocess.run([DRV, "cells"], input=inp, capture_output=True, text=True)
    out = {}
    for o in p.stdout.split("\n"):
        f = o.split()
        if len(f) == 4:
            out[f[0]] = f[3]
    return out


def single_fixed_insn_cell(c):
    """a case consisting of one fixed-arity insn that differs from the documented-legal filler in exactly one
    position is a grid cell: -> (code, pos, tok) or None"""
    toks = c["line"].split()
    idx = [k for k, t in enumerate(toks) if t == "I"]
    if not idx:
        return None
    k = idx[-1]                     # an overflow producer may precede the insn under test
    try:
        code, n = int(toks[k + 1]), int(toks[k + 2])
    except ValueError:
        return None
    ops = toks[k + 3:k + 3 + n]
    o = OPC.get(code)
    if not o or o["cls"] != "fixed" or n != o["nops"]:
        return None
    if len(idx) > 1 and not (len(idx) == 2 and o["name"] in OVB):
        return None
    diff = [p for p in range(n) if ops[p] != o["fill"][p]]
    if len(diff) != 1:
        return None
    return code, diff[0], ops[diff[0]]


def signature_of(c, cellsig):
    t = c["tag"]
    if t["kind"] in ("random", "corpus") and not t.get("sig"):
        cell = single_fixed_insn_cell(c)
        if cell:
            cc = {"id": "q", "tag": {"code": cell[0], "pos": cell[1], "tok": cell[2]}}
            s = cell_sigs([cc]).get("q", "-")
            return s if s != "-" else "C15:cell-%s-%d-%s" % (OPC[cell[0]]["name"].lower(), cell[1], cell[2])
    if t["kind"] == "grid":
        s = cellsig.get(c["id"], "-")
        if s != "-":
            return s
        return "C15:cell-%s-%d-%s" % (OPC[t["code"]]["name"].lower(), t["pos"], t["tok"])
    if t.get("sig"):
        return t["sig"]
    return "C15:%s-%s" % (t["kind"], "-".join(str(v) for k, v in sorted(t.items()) if k != "kind" and v is not None))


def par_chunks(fn, cs, size=4000):
    """run fn over chunks of cs on a thread pool (the work is in subprocesses) and merge the dict results"""
    if len(cs) <= size:
        return fn(cs)
    from concurrent.futures import ThreadPoolExecutor
    chunks = [cs[k:k + size] for k in range(0, len(cs), size)]
    with ThreadPoolExecutor(max_workers=12) as ex:
        outs = list(ex.map(fn, chunks))
    if isinstance(outs[0], tuple):
        a, b = {}, {}
        for x, y in outs:
            a.update(x)
            b.update(y)
        return a, b
    a = {}
    for x in outs:
        a.update(x)
    return a


def judge(cs, flavour):
    """run cases through harness (flavour), model and documentation; returns list of problem dicts"""
    exe = exes["c15_harness_" + flavour]
    nd = ["--ndebug"] if flavour == "ndebug" else []
    impl, logs = par_chunks(lambda x: run_harness(exe, x), cs)
    model = par_chunks(lambda x: run_drv(nd, x), cs)
    doc = par_chunks(lambda x: run_drv(["doc"] + nd, x), cs)
    probs = []
    for c in cs:
        i, m, d = impl.get(c["id"]), model.get(c["id"]), doc.get(c["id"])
        tie = (i == m)
        prop = (nostage(i) == nostage(d))
        if not (tie and prop):
            probs.append({"case": c, "flavour": flavour, "impl": i, "model": m, "doc": d, "tie": tie, "prop": prop,
                          "crash_log": logs.get(c["id"])})
    return impl, probs


def describe(c):
    t = c["tag"]
    if t["kind"] == "grid":
        return "(%s, pos %d, %s)" % (OPC[t["code"]]["name"].lower(), t["pos"], t["tok"])
    return "%s %s" % (t["kind"], {k: v for k, v in t.items() if k != "kind"})


def how(c, flavour):
    return "cd /verif && ./check C15 --replay <this file>   # or: echo 'x %s' | %s" % (
        c["line"], os.path.relpath(exes["c15_harness_" + flavour], VERIF))


def shrink(c, flavour, pred):
    """greedy: drop insns (I directives) one at a time while `pred` keeps holding"""
    toks = c["line"].split()
    # split into prefix (up to first I), insn groups, E
    idx = [k for k, t in enumerate(toks) if t == "I"]
    if len(idx) <= 1:
        return c
    groups = [toks[idx[k]:(idx[k + 1] if k + 1 < len(idx) else len(toks) - 1)] for k in range(len(idx))]
    prefix = toks[:idx[0]]
    changed = True
    while changed and len(groups) > 1:
        changed = False
        for k in range(len(groups)):
            cand = groups[:k] + groups[k + 1:]
            line = " ".join(prefix + [t for g in cand for t in g] + ["E"])
            cc = {"id": "s", "line": line, "tag": c["tag"]}
            if pred(cc):
                groups, changed = cand, True
                break
    return {"id": c["id"], "line": " ".join(prefix + [t for g in groups for t in g] + ["E"]), "tag": c["tag"]}


def report(probs, cellsig):
    """turn problems into KNOWN-FINDING / VIOLATION / broken-tie records"""
    n_known = 0
    seen_sig = set()
    n_shrunk = 0
    # grid cells and generated cases first (already minimal), random functions last (they need shrinking)
    probs = sorted(probs, key=lambda pb: pb["case"]["tag"]["kind"] == "random")
    for pb in probs:
        c, fl = pb["case"], pb["flavour"]
        if not pb["prop"] and c["tag"]["kind"] == "random":
            if n_shrunk >= 40 or len(seen_sig) >= 6:
                continue
            n_shrunk += 1
            def still(cc, fl=fl, pb=pb):
                # same failure only: shrinking must not drift into a different (second) fault
                _, p2 = judge([cc], fl)
                return bool(p2) and not p2[0]["prop"] and nostage(p2[0]["impl"]) == nostage(pb["impl"]) \
                    and nostage(p2[0]["doc"]) == nostage(pb["doc"])
            c = shrink(c, fl, still)
            _, p2 = judge([c], fl)
            if p2:
                pb = dict(p2[0], case=c, flavour=fl)
        sig = signature_of(c, cellsig)
        if not pb["prop"]:
            known = ck.is_known(sig)
            if known and pb["tie"]:
                n_known += 1
                ck.violation({}, what=known.get("what", sig), signature=sig)
                continue
            if known:
                # a listed cell that no longer behaves as the model of the known defect predicts is a new failure
                sig = "%s:now-%s" % (sig, nostage(pb["impl"]).replace(" ", "-"))
            if (sig, fl) in seen_sig or len(seen_sig) >= 6:
                continue
            seen_sig.add((sig, fl))
            ck.violation({"stage": "tie" if proof_ok else "search", "correspondence": "c15_harness_%s vs mirdrv_c15 doc" % fl,
                          "input": c["line"], "cell": describe(c), "flavour": fl,
                          "impl_output": pretty(pb["impl"]), "model_output": pretty(pb["model"]),
                          "spec_verdict": pretty(nostage(pb["doc"])), "crash_log": pb.get("crash_log"),
                          "listed_known_but_model_differs": bool(known),
                          "how_to_rerun": how(c, fl)},
                         what="checker verdict %s differs from the documented verdict %s at %s [%s build]"
                              % (pretty(pb["impl"]), pretty(nostage(pb["doc"])), describe(c), fl),
                         signature=sig)
        else:
            ck.broken_ties.append({"kind": "correspondence", "name": "model != implementation at %s [%s]" % (describe(c), fl),
                                   "first_diff": {"input": c["line"], "impl": pb["impl"], "model": pb["model"]}})
    return n_known


# ----------------------------------------------------------------------------- replay mode
if ck.replay:
    r = json.load(open(ck.replay))
    line = r.get("input")
    if not line:
        ck.log("replay file has no input (proof-level record): re-run ./check C15")
        ck.finish()
    c = {"id": "r0", "line": line, "tag": {"kind": "corpus", "sig": r.get("signature")}}
    for fl in ([r["flavour"]] if r.get("flavour") else ["assert", "ndebug"]):
        impl, probs = judge([c], fl)
        ck.log("replay [%s]: impl=%s" % (fl, pretty(impl.get("r0"))), "problems=%d" % len(probs))
        report(probs, {})
    ck.cov["evaluations"] = 1
    ck.finish()

# ----------------------------------------------------------------------------- main run
t0 = time.time()
allc = corpus + cases
# put cases the model expects to crash last (each costs a process restart)
model_pre = par_chunks(lambda x: run_drv([], x), allc)
allc.sort(key=lambda c: model_pre.get(c["id"]) == "crash")
cellsig = par_chunks(cell_sigs, [c for c in allc if c["tag"]["kind"] == "grid"])
total_known = 0
dist_err, dist_kind, dist_stage = {}, {}, {}
all_probs = []
for fl in ("assert", "ndebug"):
    impl, probs = judge(allc, fl)
    all_probs += probs
    if fl == "assert":
        for c in allc:
            v = impl.get(c["id"], "missing")
            key = pretty(nostage(v))
            dist_err[key] = dist_err.get(key, 0) + 1
            dist_kind[c["tag"]["kind"]] = dist_kind.get(c["tag"]["kind"], 0) + 1
            st = v.split()[2] if v.startswith("err") and len(v.split()) > 2 else v.split()[0]
            st = "new_insn" if st.startswith("I") else "decl" if st[0] in "RF" and st != "finish" else st
            dist_stage[st] = dist_stage.get(st, 0) + 1
    ck.log("flavour %s: %d cases, %d differ from model or documentation, %.1fs" % (fl, len(allc), len(probs), time.time() - t0))
total_known = report(all_probs, cellsig)

# listed deviations that no longer reproduce (the fix landed but Model/CheckKnown.lean still lists them)
for k in ck.known:
    if k.get("status") == "known" and k.get("signature") not in ck.known_seen:
        ck.broken_ties.append({"kind": "stale-known-finding", "name": k.get("signature"),
                               "hint": "no case reproduces it any more: remove it from knownDeviations "
                                       "(lean/MirVerif/Model/CheckKnown.lean) and mark it fixed in known_findings.d/C15.json"})
if not proof_ok and ck.n_viol == 0:
    ck.log("proof gate broke and the exhaustive run found no cell where implementation != documentation")

grid_cells = sum(1 for c in cases if c["tag"]["kind"] == "grid")
ck.cov["evaluations"] = 2 * len(allc)
ck.cov["distinct_nontrivial"] = len({c["line"] for c in allc})
ck.cov["exhaustive"] = True
ck.cov["rule"] = ("grid: every fixed-arity opcode x every position x every operand kind (%d kinds: %s), other positions "
                  "filled with the documented-legal operand printed by `mirdrv_c15 sigs`; plus arity +-1 for every opcode, "
                  "switch/ret/call position grids over generated prototypes, block-argument mismatches, declaration names x "
                  "types, overflow-branch producer x intervening-insn matrix, and %d seeded random functions with at most one "
                  "injected fault.  Every case is distinct and reaches MIR_new_insn_arr/MIR_finish_func/MIR_new_func_reg; "
                  "each runs in an assert-enabled and an NDEBUG ASan+UBSan build." %
                  (len(KF), "all memory type x disp sign x base x index combinations" if thorough
                   else "one memory per type + faulty base/index/disp representatives", NRAND))
ck.cov["distribution"] = {"by_case_kind": dist_kind, "by_verdict": dist_err, "by_stage": dist_stage,
                          "grid_cells": grid_cells, "opcodes": len(OPC), "kinds": len(KF),
                          "known_finding_cells": total_known, "deviations_listed_in_lean": KNOWN_LISTED}
for c in cases[:3] + cases[grid_cells + 5:grid_cells + 7] + cases[-2:]:
    ck.sample({"input": c["line"], "tag": c["tag"]})
ck.assumptions += [
    "operand *kinds* abstract operand values: one representative value per kind (int 5, float 1.5, disp 0/-8/size, scale 1); "
    "the checker's verdict does not read the values except disp sign / block size, which are kinds",
    "UBSan alignment check disabled (mir-hash.h does unaligned loads by design on x86-64)",
    "x86-64 host (long double != double, so LD opcodes are not rewritten to D opcodes by create_insn)",
    "unspec insns need _MIR_register_unspec_insn (internal API): only their rejection is exercised",
    "documented error *codes* are the checker's convention (MIR.md names none); the documented accept/reject split and the "
    "operand classes are from MIR.md",
]
ck.stage("tie", cases=len(allc), seconds=round(time.time() - t0, 1))
ck.finish()
