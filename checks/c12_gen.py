"""C12 helpers: an independent python rendering of the mir-reduce stream format (hash, uint codec,
element serialiser, strict parser/decoder) used to *build* test streams and to classify results,
plus the input generators.  It is a third implementation: verdicts are taken from the real code
(harness) and the Lean model; this file only constructs inputs and explains differences."""

M64 = (1 << 64) - 1
BUF_LEN = 1 << 18
P1 = 0x65862b62bdf5ef4d
P2 = 0x288eea216831e6a7


def _mum(v, c):
    v1, v2, c1, c2 = v >> 32, v & 0xffffffff, c >> 32, c & 0xffffffff
    rm = (v2 * c1 + v1 * c2) & M64
    return (v1 * c1 + (rm >> 32) + v2 * c2 + ((rm << 32) & M64)) & M64


def _part(bs):
    t = 0
    for b in bs:
        t = (t >> 8) | (b << 56)
    return t


def hash_strict(key, seed):
    n = len(key)
    r = (seed + n) & M64
    i = 0
    while n - i >= 16:
        r ^= _mum(_part(key[i:i + 8]), P1)
        r ^= _mum(_part(key[i + 8:i + 16]), P2)
        r ^= _mum(r, P1)
        i += 16
    if n - i >= 8:
        r ^= _mum(_part(key[i:i + 8]), P1)
        i += 8
    if n - i:
        r ^= _mum(_part(key[i:]), P2)
    s = r ^ _mum(r, P1)
    return s ^ _mum(s, P2)


def chain_hash(data, buf_len=BUF_LEN):
    h = 42
    for i in range(0, len(data), buf_len):
        h = hash_strict(data[i:i + buf_len], h)
    return h


def uint_write(u, n=None):
    """canonical (n=None) or forced n-byte form (n in 1..4; value must fit)"""
    if n is None:
        n = 1
        while n <= 4 and u >= (1 << (7 * n)):
            n += 1
    out = [((1 << (8 - n)) | ((u >> ((n - 1) * 8)) & 0xff)) & 0xff]
    for i in range(2, n + 1):
        out.append((u >> ((n - i) * 8)) & 0xff)
    return bytes(out)


def ser_el(lits, ref, sym_form=None, len_form=None, off_form=None, force_long_sym=False, force_long_ref=False):
    """serialise one element; ref = None | (len, off).  *_form force an n-byte uint form,
    force_long_* use the escape code even when the value fits in the tag."""
    n = len(lits)
    st = 7 if (n >= 7 or force_long_sym) else n
    if ref is None:
        rt = 0
    else:
        l3 = ref[0] - 3
        rt = 31 if (l3 >= 31 or force_long_ref) else l3
    out = bytearray([(st << 5) | rt])
    if st == 7:
        out += uint_write(n, sym_form)
    out += bytes(lits)
    if ref is not None:
        if rt == 31:
            out += uint_write(ref[0] - 3, len_form)
        out += uint_write(ref[1], off_form)
    return bytes(out)


def trailer(data):
    return b"\0" + chain_hash(data).to_bytes(8, "little")


def uint_read(s, i):
    if i >= len(s):
        return None
    u = s[i]
    n = 1 if u >= 128 else 2 if u >= 64 else 3 if u >= 32 else 4 if u >= 16 else 0
    if n == 0 or i + n > len(s):
        return None
    v = u & (0xff >> n)
    for k in range(1, n):
        v = v * 256 + s[i + k]
    return v, i + n


def py_decode(s, buf_len=BUF_LEN):
    """strict reference decoder of the *fixed* format rules.
    returns (ok, data, info) where info counts what the stream exercised"""
    info = {"els": 0, "refs": 0, "long_sym": 0, "long_ref": 0, "chunks": 0, "why": ""}
    ok_prefix = s[:3] == b"MIR"
    i = 3
    out = bytearray()
    buf = bytearray()
    starts = []
    h = 42

    def fail(why):
        info["why"] = why
        return (False, bytes(out), info)
    while True:
        if i >= len(s):
            return fail("eof-before-trailer")
        tag = s[i]
        i += 1
        if tag == 0:
            if len(s) - i != 8:
                return fail("trailer-length")
            if buf:
                h = hash_strict(bytes(buf), h)
            if int.from_bytes(s[i:i + 8], "little") != h:
                info["data"] = bytes(out + buf)      # what the element part denotes
                return fail("hash-mismatch")
            out += buf
            if not ok_prefix:
                return fail("prefix")
            return (True, bytes(out), info)
        info["els"] += 1
        sl = tag >> 5
        if sl:
            if sl == 7:
                r = uint_read(s, i)
                if r is None:
                    return fail("uint")
                sl, i = r
                info["long_sym"] += 1
            if sl > 2047 or len(buf) + sl > buf_len:
                return fail("sym-len")
            if i + sl > len(s):
                return fail("sym-bytes")
            for k in range(sl):
                starts.append(len(buf))
                buf.append(s[i + k])
            i += sl
        rl = tag & 31
        if rl:
            if rl == 31:
                r = uint_read(s, i)
                if r is None:
                    return fail("uint")
                rl, i = r
                info["long_ref"] += 1
            rl += 3
            r = uint_read(s, i)
            if r is None:
                return fail("uint")
            ri, i = r
            if ri == 0 or ri > len(starts):
                return fail("ref-ind")
            sp = starts[len(starts) - ri]
            if sp + rl > len(buf) or len(buf) + rl > buf_len:
                return fail("ref-bounds")
            starts.append(len(buf))
            buf += buf[sp:sp + rl]
            info["refs"] += 1
        if len(buf) >= buf_len:
            h = hash_strict(bytes(buf), h)
            out += buf
            buf = bytearray()
            starts = []
            info["chunks"] += 1


def parse_fields(s):
    """positions of the fields of a well-formed stream: list of (kind, start, end) with kind in
    tag, symlen, lits, reflen, refoff, trailertag, hash  (stops silently at the first problem)"""
    f = []
    i = 3
    while i < len(s):
        tag = s[i]
        if tag == 0:
            f.append(("trailertag", i, i + 1))
            f.append(("hash", i + 1, len(s)))
            break
        f.append(("tag", i, i + 1))
        i += 1
        sl = tag >> 5
        if sl:
            if sl == 7:
                r = uint_read(s, i)
                if r is None:
                    break
                f.append(("symlen", i, r[1]))
                sl, i = r
            f.append(("lits", i, i + sl))
            i += sl
        rl = tag & 31
        if rl:
            if rl == 31:
                r = uint_read(s, i)
                if r is None:
                    break
                f.append(("reflen", i, r[1]))
                i = r[1]
            r = uint_read(s, i)
            if r is None:
                break
            f.append(("refoff", i, r[1]))
            i = r[1]
    return f


# ------------------------------------------------------------------------------- generators
def all_strings(alphabet, max_len):
    """every string over the alphabet up to max_len (including the empty one)"""
    out = [b""]
    layer = [b""]
    for _ in range(max_len):
        layer = [x + bytes([a]) for x in layer for a in alphabet]
        out += layer
    return out


def random_parse(rng, max_bytes, alphabet=(97, 98, 99)):
    """a random *valid parse* (element list) and the data it denotes; references are chosen among
    all symbol starts whose source lies before the current position (not only what the encoder
    would choose), literal runs and lengths use every form"""
    data = bytearray()
    starts = []
    els = []
    while len(data) < max_bytes:
        nl = rng.choice([0, 0, 1, 2, 3, 6, 7, 8, rng.below(40)])
        lits = bytes(rng.choice(alphabet) for _ in range(nl))
        for k in range(nl):
            starts.append(len(data) + k)
        data += lits
        ref = None
        cands = [(j, p) for j, p in enumerate(starts) if p + 4 <= len(data)]
        if cands and rng.chance(3, 4):
            j, p = rng.choice(cands)
            maxl = len(data) - p
            ln = rng.choice([4, 4, 5, maxl, min(maxl, 33), min(maxl, 34), min(maxl, 35), 4 + rng.below(maxl - 3)])
            ln = max(4, min(ln, maxl))
            off = len(starts) - j
            ref = (ln, off)
            starts.append(len(data))
            data += data[p:p + ln]
        if nl == 0 and ref is None:
            continue
        els.append((lits, ref))
    return els, bytes(data)


def ser_parse(els, rng=None):
    """serialise an element list; with rng: randomly use non-canonical uint forms / escape codes"""
    out = bytearray(b"MIR")
    for lits, ref in els:
        kw = {}
        if rng is not None and rng.chance(1, 4):
            if len(lits) > 0 and rng.chance(1, 2):
                kw["force_long_sym"] = True
                kw["sym_form"] = rng.choice([None, 2, 3, 4])
            if ref is not None and rng.chance(1, 2):
                kw["force_long_ref"] = True
                kw["len_form"] = rng.choice([None, 2, 3, 4])
            if ref is not None and rng.chance(1, 2):
                kw["off_form"] = rng.choice([2, 3, 4])
        out += ser_el(lits, ref, **kw)
    return bytes(out)
