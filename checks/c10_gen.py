"""C10 — generator of MIR module descriptions (line protocol shared by harness/c10_harness.c and
lean/Drv/C10.lean) and of free-form textual variants of the same modules.

A *case* is a list of description lines.  The generator keeps an abstract module (python dicts) so
that it can (a) number labels in order of first textual occurrence (the only numbering the text
round trip can preserve), (b) render the module a second time as deliberately irregular MIR text.
"""
import struct, sys
if hasattr(sys, "set_int_max_str_digits"):
    sys.set_int_max_str_digits(0)
from fractions import Fraction

INT_TYPES = ["i8", "u8", "i16", "u16", "i32", "u32", "i64", "u64", "p"]
DATA_INT_BITS = {"i8": 8, "u8": 8, "i16": 16, "u16": 16, "i32": 32, "u32": 32, "i64": 64, "u64": 64, "p": 64}
BLK_TYPES = ["blk0", "blk1", "blk2", "blk3", "blk4", "rblk"]
INT_HARD = ["rax", "rcx", "rdx", "rbx", "rsi", "rdi", "r8", "r9", "r12", "r13", "r14", "r15"]
FP_HARD = ["xmm0", "xmm1", "xmm2", "xmm3", "xmm4", "xmm5", "xmm6", "xmm7", "xmm10", "xmm11", "xmm12", "xmm13",
           "xmm14", "xmm15"]
DIRECTIVES = ["module", "endmodule", "proto", "func", "endfunc", "export", "import", "forward", "bss", "ref",
              "lref", "expr", "string", "local", "global"]
TYPE_NAMES = INT_TYPES + ["f", "d", "ld"] + BLK_TYPES + ["blk"]
NAME_FIRST = "abcdefghijklmnopqrstuvwxyzABCDEFGHIJKLMNOPQRSTUVWXYZ_$%."
NAME_REST = NAME_FIRST + "0123456789"


def enc_name(n):
    """name token of the description: plain when unambiguous, else ~hex"""
    ok = n != "" and n != "-" and all(c in NAME_REST + "@" for c in n) and not n.startswith("~")
    return n if ok else "~" + n.encode("latin1").hex()


def opt(n):
    return "-" if n is None else enc_name(n)


def f32_bits(x):
    return struct.unpack("<I", struct.pack("<f", x))[0]


def f64_bits(x):
    return struct.unpack("<Q", struct.pack("<d", x))[0]


class Table:
    """instruction table as dumped by `c10_harness table`"""

    def __init__(self, text):
        self.rows = {}
        self.by_name = {}
        for line in text.split("\n"):
            w = line.split()
            if len(w) == 7 and w[0].isdigit():
                code = int(w[0])
                modes = []
                out = False
                for ch in w[6]:
                    if ch == ">":
                        out = True
                    elif ch == "-":
                        break
                    else:
                        modes.append((ch, out))
                        out = False
                self.rows[code] = dict(name=w[1], nops=int(w[2]), branch=w[3] == "1", call=w[4] == "1",
                                       var=w[5] == "1", modes=modes)
                self.by_name[w[1]] = code
        self.fixed = [r["name"] for r in self.rows.values()
                      if not r["var"] and r["name"] not in ("label", "invalid-insn", "unspec", "use", "phi",
                                                            "jret", "va_start", "bo", "ubo", "bno", "ubno")]


class Gen:
    def __init__(self, rng, table, probe=None):
        self.r = rng
        self.t = table
        self.probe = probe            # name of a WF conjunct to violate on purpose (or None)
        self.probe_done = False
        self.used_names = set()
        self.next_label = 0           # symbolic label ids (renumbered later)

    # ---------------------------------------------------------------- primitives
    def name(self, tricky=True):
        r = self.r
        for _ in range(100):
            if tricky and r.chance(1, 12):
                n = r.choice(DIRECTIVES + TYPE_NAMES + ["L1", "L2", "...", "add", "ret", "mov", "jmp", ".x", "$",
                                                        "%", "a.b", "t1x", "hrx", "e5", "x0", "_", "f", "d"])
            else:
                n = r.choice(NAME_FIRST) + "".join(r.choice(NAME_REST) for _ in range(r.below(6)))
            if n.startswith(".lc") or (n.startswith("hr") and n[2:].isdigit()) or n in self.used_names:
                continue
            if n[0] == "t" and n[1:].isdigit():
                continue
            self.used_names.add(n)
            return n
        raise RuntimeError("name space exhausted")

    def lc_name(self, small=False):
        """a reserved temporary-item name `.lc<N>` (the names the loader gives to the items it makes for string and
        floating immediates): arbitrary N, so that they appear in the text in any order and with gaps"""
        r = self.r
        for _ in range(100):
            if small or r.chance(5, 6):
                n = ".lc%d" % (1 + r.below(9))
            else:
                n = ".lc" + r.choice(["", "0", "007", "12", "40", "4294967294", "4294967297", "18446744073709551617",
                                      "99999999999999999999999"])
            if n not in self.used_names:
                self.used_names.add(n)
                return n
        return self.name(False)

    def int64(self):
        r = self.r
        k = r.below(10)
        if k == 0:
            return r.choice([0, 1, -1, 2 ** 63 - 1, -2 ** 63, 255, 256, -128, 2 ** 32, 2 ** 31, -2 ** 31, 10, 8, 9])
        if k < 5:
            return r.below(200) - 100
        v = r.next() & ((1 << (1 + r.below(64))) - 1)
        return v - (1 << 64) if v >= 1 << 63 else v

    def uint64(self, allow_big=False):
        r = self.r
        v = r.next() & ((1 << (1 + r.below(63))) - 1)
        if r.chance(1, 8):
            v = r.choice([0, 1, 2 ** 63 - 1, 2 ** 32, 9, 10])
        if allow_big:
            v = r.choice([2 ** 63, 2 ** 64 - 1, 2 ** 63 + r.below(1000)])
        return v

    def finite_bits(self, kind):
        r = self.r
        if kind == "f":
            while True:
                b = r.next() & 0xFFFFFFFF if not r.chance(1, 6) else r.choice(
                    [0, 0x80000000, 1, 0x007FFFFF, 0x00800000, 0x7F7FFFFF, 0x3F800000, 0xBFC00000, 0x3DCCCCCD])
                if (b >> 23) & 0xFF != 0xFF:
                    return b
        if kind == "d":
            while True:
                b = r.next() if not r.chance(1, 6) else r.choice(
                    [0, 1 << 63, 1, 0x000FFFFFFFFFFFFF, 0x0010000000000000, 0x7FEFFFFFFFFFFFFF, 0x3FF0000000000000,
                     0x3FB999999999999A, 0xC00921FB54442D18])
                if (b >> 52) & 0x7FF != 0x7FF:
                    return b
        # x87 extended: sign, 15 bit exponent, explicit integer bit, 63 fraction bits; canonical only
        while True:
            if r.chance(1, 6):
                return r.choice([0, 1 << 79, 1, (1 << 63) - 1, (1 << 64) | (1 << 63), (0x7FFE << 64) | ((1 << 64) - 1),
                                 (0x3FFF << 64) | (1 << 63), (0x4000 << 64) | 0xC90FDAA22168C235])
            e = r.below(0x7FFF)
            frac = r.next() & ((1 << 63) - 1)
            s = r.below(2)
            if e == 0:
                return (s << 79) | frac                      # zero / denormal: integer bit clear
            return (s << 79) | (e << 64) | (1 << 63) | frac  # normal: integer bit set

    def special_bits(self, kind):
        if kind == "f":
            return self.r.choice([0x7F800000, 0xFF800000, 0x7FC00000])
        if kind == "d":
            return self.r.choice([0x7FF0000000000000, 0xFFF0000000000000, 0x7FF8000000000000])
        return self.r.choice([(0x7FFF << 64) | (1 << 63), (0xFFFF << 64) | (1 << 63), (0x7FFF << 64) | (3 << 62)])

    def bytestr(self, nul=True):
        r = self.r
        n = r.below(8)
        pool = [0, 10, 9, 11, 7, 8, 12, 13, 34, 92, 39, 32, 126, 127, 128, 255, 1, 48, 55, 56, 65, 97, 120]
        b = [r.choice(pool) if r.chance(1, 2) else r.below(256) for _ in range(n)]
        if nul:
            if r.chance(1, 10):
                return []
            b.append(0)
        else:
            if not b or b[-1] == 0:
                b.append(1 + r.below(255))
        return b

    # ---------------------------------------------------------------- operands
    def new_label(self, fn):
        self.next_label += 1
        fn["labels"].append(self.next_label)
        return self.next_label

    def some_label(self, fn):
        if fn["labels"] and self.r.chance(2, 3):
            return self.r.choice(fn["labels"])
        return self.new_label(fn)

    def reg_of(self, fn, kind):
        """a register of value kind i/f/d/D, declaring a local when the function has none"""
        ty = {"i": "i64", "f": "f", "d": "d", "D": "ld"}[kind]
        cands = [n for (t, n) in fn["regs"] if t == ty]
        if cands and not self.r.chance(1, 10):
            return self.r.choice(cands)
        n = self.name(tricky=False)
        fn["locals"].append((ty, n))
        fn["regs"].append((ty, n))
        return n

    def mem(self, fn, ty):
        r = self.r
        base = self.reg_of(fn, "i") if r.chance(3, 4) else None
        index = self.reg_of(fn, "i") if r.chance(1, 3) else None
        scale = r.choice([1, 2, 4, 8]) if not r.chance(1, 10) else r.choice([0, 3, 255, 16])
        if index is None and not r.chance(1, 8):
            scale = 1
        disp = self.int64() if r.chance(2, 3) else 0
        alias = self.name(False) if r.chance(1, 6) else None
        nonalias = self.name(False) if r.chance(1, 6) else None
        return ("m", ty, disp, base, index, scale, alias, nonalias)

    def operand(self, mod, fn, mode, out):
        r = self.r
        if mode == "L":
            return ("l", self.some_label(fn))
        if mode == "r":
            return ("r", self.reg_of(fn, "i"))
        if mode == "u":
            return self.mem(fn, r.choice(INT_TYPES + ["f", "d", "ld"])) if r.chance(1, 2) else ("r", self.reg_of(fn, "i"))
        if mode == "i":
            k = r.below(10)
            if out:
                return ("r", self.reg_of(fn, "i")) if k < 7 else self.mem(fn, r.choice(INT_TYPES))
            if k < 4:
                return ("r", self.reg_of(fn, "i"))
            if k < 6:
                return ("i", self.int64())
            if k == 6:
                if self.want("uint-ge-2^63"):
                    return ("u", self.uint64(True))
                return ("u", self.uint64())
            if k == 7:
                return self.mem(fn, r.choice(INT_TYPES))
            if k == 8 and mod["named"]:
                cand = [n for n in mod["named"] if n not in [x for (_, x) in fn["regs"]]]
                if cand:
                    return ("ref", r.choice(cand))
            if self.want("str-no-nul"):
                return ("s", self.bytestr(nul=False))
            return ("s", self.bytestr())
        kind = {"f": "f", "d": "d", "D": "ld"}[mode]
        k = r.below(10)
        if out:
            return ("r", self.reg_of(fn, mode)) if k < 7 else self.mem(fn, kind)
        if k < 4:
            return ("r", self.reg_of(fn, mode))
        if k < 8:
            if self.want("float-literal"):
                return (kind, self.special_bits(kind))
            return (kind, self.finite_bits(kind))
        return self.mem(fn, kind)

    def want(self, probe):
        """True once per case when this probe is requested"""
        if self.probe == probe and not self.probe_done:
            self.probe_done = True
            return True
        return False

    # ---------------------------------------------------------------- functions
    def var(self, ty=None):
        r = self.r
        if ty is None:
            k = r.below(12)
            ty = r.choice(INT_TYPES) if k < 7 else r.choice(["f", "d", "ld"]) if k < 10 else r.choice(BLK_TYPES)
        size = 0
        if ty in BLK_TYPES:
            size = r.choice([0, 1, 8, 16, 24, 4096, 2 ** 32 - 1]) if r.chance(1, 3) else r.below(200)
            if self.want("blk-size-ge-2^32") or r.chance(1, 12):
                size = r.choice([2 ** 32, 2 ** 32 + 5, 2 ** 40, 2 ** 63 - 1])
            if self.want("blk-size-ge-2^63"):
                size = r.choice([2 ** 63, 2 ** 64 - 1])
        return (ty, self.name(False), size)

    def mode_of_type(self, ty):
        return "f" if ty == "f" else "d" if ty == "d" else "D" if ty == "ld" else "i"

    def res_types(self):
        r = self.r
        n = r.choice([0, 1, 1, 1, 2, 3])
        return [r.choice(["i64", "i32", "u8", "p", "f", "d", "ld", "u64"]) for _ in range(n)]

    def proto(self, mod):
        r = self.r
        args = [self.var() for _ in range(r.below(4))]
        p = dict(kind="proto", name=self.name(), res=self.res_types(), args=args, vararg=r.chance(1, 4))
        mod["items"].append(p)
        mod["named"].append(p["name"])
        mod["protos"].append(p)
        return p

    def call_insn(self, mod, fn, code="call"):
        r = self.r
        if not mod["protos"] or r.chance(1, 4):
            self_proto = self.proto_before(mod, fn)
        p = r.choice(mod["protos"])
        if code == "jcall" and p["res"]:
            code = "call"
        targets = [n for n in mod["callable"] if n not in [x for (_, x) in fn["regs"]]]
        target = ("ref", r.choice(targets)) if targets and r.chance(3, 4) else ("r", self.reg_of(fn, "i"))
        ops = [("ref", p["name"]), target]
        for t in p["res"]:
            ops.append(self.operand(mod, fn, self.mode_of_type(t), True))
        for (t, _, size) in p["args"]:
            if t in BLK_TYPES:
                ops.append(("m", t, size if size < 2 ** 63 else 0, self.reg_of(fn, "i"), None, 1, None, None))
            else:
                ops.append(self.operand(mod, fn, self.mode_of_type(t), False))
        if p["vararg"]:
            for _ in range(r.below(3)):
                ops.append(self.operand(mod, fn, r.choice("iid"), False))
        return (code, ops)

    def proto_before(self, mod, fn):
        # a proto must precede the function in the module: put it before the function item
        p = self.proto(mod)
        mod["items"].remove(p)
        idx = mod["items"].index(fn) if fn in mod["items"] else len(mod["items"])
        mod["items"].insert(idx, p)
        return p

    def random_insn(self, mod, fn):
        r = self.r
        k = r.below(40)
        if k == 0:
            return [self.call_insn(mod, fn, r.choice(["call", "inline", "call"]))]
        if k == 1:
            labs = [self.some_label(fn) for _ in range(1 + r.below(4))]
            return [("switch", [self.operand(mod, fn, "i", False)] + [("l", x) for x in labs])]
        if k == 2:
            ov = r.choice(["addo", "addos", "subo", "subos", "mulo", "mulos", "umulo", "umulos"])
            if ov.startswith("umul"):
                br = r.choice(["ubo", "ubno"])
            elif ov.startswith("mul"):
                br = r.choice(["bo", "bno"])
            else:
                br = r.choice(["bo", "bno", "ubo", "ubno"])
            modes = self.t.rows[self.t.by_name[ov]]["modes"]
            return [(ov, [self.operand(mod, fn, m, o) for (m, o) in modes]), (br, [("l", self.some_label(fn))])]
        if k == 3 and fn["vararg"]:
            return [("va_start", [("r", self.reg_of(fn, "i"))])]
        if k == 4:
            return [("prset", [self.operand(mod, fn, "u", False), ("i", r.below(100))])]
        if k == 5:
            code = r.choice(["prbeq", "prbne"])
            return [(code, [("l", self.some_label(fn)), self.operand(mod, fn, "u", False), ("i", r.below(100))])]
        if k == 6:
            return [("va_arg", [("r", self.reg_of(fn, "i")), ("r", self.reg_of(fn, "i")),
                                self.mem(fn, r.choice(INT_TYPES + ["f", "d", "ld"]))])]
        name = r.choice(self.t.fixed)
        if name in ("prset", "prbeq", "prbne", "va_arg"):
            name = "mov"
        modes = self.t.rows[self.t.by_name[name]]["modes"]
        return [(name, [self.operand(mod, fn, m, o) for (m, o) in modes])]

    def ret_insn(self, mod, fn):
        return ("ret", [self.operand(mod, fn, self.mode_of_type(t), False) for t in fn["res"]])

    def func(self, mod, body_len=None):
        r = self.r
        nargs = r.below(4)
        vararg = r.chance(1, 6)
        if vararg and nargs == 0:
            nargs = 1
        args = [self.var() for _ in range(nargs)]
        fn = dict(kind="func", name=self.name(), res=self.res_types(), args=args, vararg=vararg, locals=[],
                  globals=[], body=[], labels=[], regs=[])
        for (t, n, _) in args:
            fn["regs"].append((t if t in ("f", "d", "ld") else "i64", n))
        for _ in range(r.below(12) if not r.chance(1, 10) else 9 + r.below(12)):
            t = r.choice(["i64", "i64", "i64", "f", "d", "ld"])
            n = self.name(False)
            fn["locals"].append((t, n))
            fn["regs"].append((t, n))
        if r.chance(1, 4):
            hard_i, hard_f = list(INT_HARD), list(FP_HARD)
            for _ in range(1 + r.below(3)):
                t = r.choice(["i64", "i64", "d", "f"])
                pool = hard_i if t == "i64" else hard_f
                h = pool.pop(r.below(len(pool)))
                n = self.name(False)
                fn["globals"].append((t, n, h))
                fn["regs"].append((t, n))
        mod["items"].append(fn)
        mod["named"].append(fn["name"])
        mod["callable"].append(fn["name"])
        n = body_len if body_len is not None else r.below(14)
        defined = set()
        for _ in range(n):
            if r.chance(1, 5):
                cands = [l for l in fn["labels"] if l not in defined]
                l = r.choice(cands) if cands and r.chance(2, 3) else self.new_label(fn)
                if l not in defined:
                    defined.add(l)
                    fn["body"].append(("label", l))
            for ins in self.random_insn(mod, fn):
                fn["body"].append(ins)
        # labels used but never defined stay undefined for most cases (the text does not care)
        for l in fn["labels"]:
            if l not in defined and r.chance(2, 3):
                defined.add(l)
                fn["body"].append(("label", l))
        if self.want("label-before-endfunc"):
            fn["body"].append(self.ret_insn(mod, fn))
            fn["body"].append(("label", self.new_label(fn)))
        elif self.want("stale-insn-code") or r.chance(1, 12):
            # function without ret whose last insn is a jmp: MIR_finish_func adds nothing
            fn["body"] = [x for x in fn["body"] if x[0] not in ("ret", "jret")]
            l = self.some_label(fn)
            if l not in defined:
                fn["body"].insert(0, ("label", l))
            fn["body"].append(("jmp", [("l", l)]))
            fn["ends_jmp"] = True
        else:
            fn["body"].append(self.ret_insn(mod, fn))
            if r.chance(1, 10):
                fn["body"].append(("label", self.new_label(fn)))
        return fn

    # ---------------------------------------------------------------- data items
    def data_item(self, mod, name):
        r = self.r
        k = r.below(14)
        if k < 9:
            ty = INT_TYPES[k % 8]
        elif k < 12:
            ty = ["f", "d", "ld"][k - 9]
        elif k == 12:
            ty = "u8"
        else:
            ty = "p"
        n = r.below(6)
        if ty == "p" and self.want("data-type-p"):
            n = 1 + r.below(3)
        els = []
        for _ in range(n):
            if ty in ("f", "d", "ld"):
                els.append(self.finite_bits(ty))
            else:
                bits = DATA_INT_BITS[ty]
                v = r.next() & ((1 << bits) - 1)
                if r.chance(1, 3):
                    v = r.choice([0, 1, (1 << bits) - 1, 1 << (bits - 1), (1 << (bits - 1)) - 1, 34, 92, 10])
                els.append(v)
        if ty == "u8" and els and r.chance(1, 2):
            els[-1] = 0
        return dict(kind="data", name=name, ty=ty, els=els)

    def item_name(self, mod, must=False):
        if must or self.r.chance(3, 4):
            n = self.lc_name() if self.r.chance(1, 6) else self.name()
            mod["named"].append(n)
            return n
        return None

    # ---------------------------------------------------------------- modules
    def module(self, nitems=None, executable=False):
        r = self.r
        mod = dict(name=self.name(), items=[], named=[], protos=[], callable=[], funcs=[])
        n = nitems if nitems is not None else 1 + r.below(9)
        for _ in range(n):
            k = r.below(20)
            if k < 5:
                fn = self.func(mod)
                mod["funcs"].append(fn)
                if r.chance(1, 3):
                    mod["items"].append(dict(kind="export", name=fn["name"]))
            elif k < 7:
                self.proto(mod)
            elif k == 7:
                nm = self.name()
                mod["items"].append(dict(kind="import", name=nm))
                mod["named"].append(nm)
                mod["callable"].append(nm)
            elif k == 8:
                # forward (or early export) of a function defined right after
                fn_pos = len(mod["items"])
                fn = self.func(mod, body_len=r.below(4))
                mod["funcs"].append(fn)
                kind = r.choice(["forward", "export"])
                idx = mod["items"].index(fn)
                # protos created while generating the body sit before fn; the forward goes before them
                mod["items"].insert(min(idx, fn_pos), dict(kind=kind, name=fn["name"]))
            elif k == 9:
                ln = r.next() & ((1 << (1 + r.below(40))) - 1)
                if self.want("bss-ge-2^63"):
                    ln = r.choice([2 ** 63, 2 ** 64 - 1])
                mod["items"].append(dict(kind="bss", name=self.item_name(mod), len=ln))
            elif k < 13:
                mod["items"].append(self.data_item(mod, self.item_name(mod)))
            elif k == 13:
                nul = not self.want("strdata-no-nul")
                mod["items"].append(dict(kind="strdata", name=self.item_name(mod), bytes=self.bytestr(nul=nul)))
            elif k == 14 and mod["named"]:
                tgt = r.choice(mod["named"])
                mod["items"].append(dict(kind="ref", name=self.item_name(mod), item=tgt, disp=self.int64()))
            elif k == 15 and mod["funcs"]:
                fn = r.choice(mod["funcs"])
                if fn["labels"]:
                    l1 = r.choice(fn["labels"])
                    l2 = r.choice(fn["labels"]) if r.chance(1, 2) else None
                    it = dict(kind="lref", name=self.item_name(mod), l1=l1, l2=l2,
                              disp=self.int64() if r.chance(1, 2) else 0)
                    # an lref may come before or after its function
                    if r.chance(1, 3):
                        mod["items"].insert(mod["items"].index(fn), it)
                    else:
                        mod["items"].append(it)
            elif k == 16:
                # expr item needs a 0-argument 1-result non-vararg function defined before
                if self.probe == "expr-item":
                    f = dict(kind="func", name=self.name(), res=["i64"], args=[], vararg=False, locals=[], globals=[],
                             body=[("ret", [("i", self.int64())])], labels=[], regs=[])
                    mod["items"].append(f)
                    mod["named"].append(f["name"])
                    mod["funcs"].append(f)
                    mod["items"].append(dict(kind="expr", name=self.item_name(mod), func=f["name"]))
                    self.probe_done = True
            else:
                mod["items"].append(self.data_item(mod, self.item_name(mod)))
        if self.probe == "stale-insn-code":
            # a ref line right after a function whose last instruction is a branch
            fn = self.func(mod, body_len=2)
            mod["funcs"].append(fn)
            if not fn.get("ends_jmp"):
                fn["body"] = [x for x in fn["body"] if x[0] not in ("ret", "jret")]
                l = self.new_label(fn)
                fn["body"].insert(0, ("label", l))
                fn["body"].append(("jmp", [("l", l)]))
                fn["ends_jmp"] = True
            b = dict(kind="bss", name=self.name(), len=8)
            mod["items"].insert(0, b)
            mod["named"].append(b["name"])
            mod["items"].append(dict(kind="ref", name=None, item=b["name"], disp=0))
            self.probe_done = True
        return mod

    # ---------------------------------------------------------------- executable modules
    def probe_label_position(self, mod):
        """a label operand where the scanner does not expect one: extra argument of a vararg call"""
        pr = dict(kind="proto", name=self.name(False), res=[], args=[("i64", self.name(False), 0)], vararg=True)
        imp = dict(kind="import", name=self.name(False))
        fn = dict(kind="func", name=self.name(False), res=[], args=[], vararg=False, locals=[("i64", "x")], globals=[],
                  body=[], labels=[], regs=[("i64", "x")])
        l = self.new_label(fn)
        fn["body"] = [("label", l), ("call", [("ref", pr["name"]), ("ref", imp["name"]), ("r", "x"), ("l", l)]), ("ret", [])]
        mod["items"] += [pr, imp, fn]
        self.probe_done = True

    def probe_ref_undeclared(self, mod):
        """an item created while the function is still open is listed after the function that uses it"""
        fn = dict(kind="func", name=self.name(False), res=["i64"], args=[], vararg=False, locals=[("i64", "x")], globals=[],
                  body=[], labels=[], regs=[("i64", "x")], inner=[])
        late = dict(kind="bss", name=self.name(False), len=8)
        fn["inner"] = [late]
        fn["body"] = [("mov", [("r", "x"), ("ref", late["name"])]), ("ret", [("r", "x")])]
        mod["items"].append(fn)
        self.probe_done = True

    def exec_module(self):
        """module whose functions can be interpreted: integer code, forward branches only, memory inside
        its own bss/data items, calls to earlier functions"""
        r = self.r
        mod = dict(name=self.name(False), items=[], named=[], protos=[], callable=[], funcs=[], runs=[])
        # half of the modules name their data items like the loader's temporary items, in any order (descending
        # half of the time, so that the last one is not the largest) and with gaps; the code below then has a
        # string or a double immediate, for which loading the module makes a fresh `.lc<counter+1>` item
        lc = r.chance(1, 2) and self.probe != "ref-shadowed-by-reg"
        if lc:
            dn = [self.lc_name(True) for _ in range(3)]
            if r.chance(1, 2):
                dn.sort(key=lambda n: -int(n[3:]))
        else:
            dn = [self.name(False) for _ in range(3)]
        bss = dict(kind="bss", name=dn[0], len=64)
        dat = dict(kind="data", name=dn[1], ty="i64", els=[r.next() & (2 ** 64 - 1) for _ in range(4)])
        sdat = dict(kind="strdata", name=dn[2], bytes=[r.below(256) for _ in range(7)] + [0])
        mod["items"] += [bss, dat, sdat]
        mod["named"] += [bss["name"], dat["name"], sdat["name"]]
        shadow = self.want("ref-shadowed-by-reg")
        protos = []
        for fi in range(1 + r.below(3)):
            nargs = r.below(3)
            nres = 1 + (1 if r.chance(1, 4) else 0)
            args = [("i64", self.name(False), 0) for _ in range(nargs)]
            pr = dict(kind="proto", name=self.name(False), res=["i64"] * nres, args=[(t, n, s) for (t, n, s) in args],
                      vararg=False)
            fn = dict(kind="func", name=self.name(False), res=["i64"] * nres, args=args, vararg=False, locals=[],
                      globals=[], body=[], labels=[], regs=[("i64", n) for (_, n, _) in args])
            for _ in range(2 + r.below(4)):
                n = self.name(False)
                fn["locals"].append(("i64", n))
                fn["regs"].append(("i64", n))
            if shadow and fi == 0:
                # a register with the name of the bss item, initialised to a small number
                fn["locals"].append(("i64", bss["name"]))
                fn["regs"].append(("i64", bss["name"]))
            regs = [n for (_, n) in fn["regs"]]
            body = fn["body"]
            for n in regs[nargs:]:
                body.append(("mov", [("r", n), ("i", r.below(50))]))
            ptr = regs[-1] if not (shadow and fi == 0) else regs[-2]
            if lc and fi == 0:
                if r.chance(1, 2):
                    body.append(("mov", [("r", ptr), ("s", [48 + r.below(60), 0])]))
                    body.append(("mov", [("r", regs[nargs]), ("m", "u8", 0, ptr, None, 1, None, None)]))
                else:
                    dreg = self.name(False)
                    fn["locals"].append(("d", dreg))
                    body.append(("dmov", [("r", dreg), ("d", struct.unpack("<Q", struct.pack("<d", r.below(4000) / 8.0))[0])]))
                    body.append(("d2i", [("r", regs[nargs]), ("r", dreg)]))
            if shadow and fi == 0:
                body.append(("mov", [("r", regs[-2]), ("ref", bss["name"])]))   # address of the bss item
                body.append(("ret", [("r", regs[-2])] * nres))
            else:
                pending = []
                for step in range(4 + r.below(10)):
                    k = r.below(12)
                    d = r.choice(regs[:-1]) if len(regs) > 1 else regs[0]
                    a = ("r", r.choice(regs[:-1] if len(regs) > 1 else regs))
                    b = ("r", r.choice(regs[:-1] if len(regs) > 1 else regs)) if r.chance(1, 2) else ("i", self.int64())
                    if k < 4:
                        body.append((r.choice(["add", "sub", "mul", "and", "or", "xor", "adds", "subs", "eq", "lt",
                                               "ults", "ge"]), [("r", d), a, b]))
                    elif k == 4:
                        body.append((r.choice(["lsh", "rsh", "ursh", "lshs"]), [("r", d), a, ("i", r.below(31))]))
                    elif k == 5:
                        body.append((r.choice(["ext8", "uext16", "ext32", "neg", "uext8"]), [("r", d), a]))
                    elif k == 6:
                        body.append(("mov", [("r", ptr), ("ref", r.choice([bss["name"], dat["name"]]))]))
                        off = 8 * r.below(3)
                        al = self.name(False) if r.chance(1, 3) else None
                        body.append(("mov", [("m", "i64", off, ptr, None, 1, al, None), a]
                                     if r.chance(1, 2) and False else [("r", d), ("m", r.choice(["i64", "u8", "i16", "u32"]), off, ptr, None, 1, al, None)]))
                    elif k == 7:
                        body.append(("mov", [("r", ptr), ("ref", bss["name"])]))
                        body.append(("mov", [("m", r.choice(["i64", "i32", "u8"]), 8 * r.below(6), ptr, None, 1, None,
                                              self.name(False) if r.chance(1, 3) else None), a]))
                    elif k == 8:
                        l = self.new_label(fn)
                        pending.append((l, step + 1 + r.below(3)))
                        body.append((r.choice(["bgt", "beq", "blts", "ubge", "bf", "bt"]),
                                     [("l", l), a] + ([b] if True else [])))
                        if body[-1][0] in ("bf", "bt"):
                            body[-1] = (body[-1][0], [("l", l), a])
                    elif k == 9 and protos:
                        (pp, pf) = r.choice(protos)
                        ops = [("ref", pp["name"]), ("ref", pf["name"])]
                        ops += [("r", r.choice(regs[:-1] if len(regs) > 1 else regs)) for _ in pp["res"]]
                        ops += [a if i == 0 else ("i", r.below(9)) for i in range(len(pp["args"]))]
                        body.append(("call", ops))
                    elif k == 10:
                        body.append(("mov", [("r", ptr), ("s", [65 + r.below(20), 66, 0])]))
                        body.append(("mov", [("r", d), ("m", "u8", r.below(2), ptr, None, 1, None, None)]))
                    else:
                        body.append(("mov", [("r", d), ("u", self.uint64())]))
                    for (l, at) in list(pending):
                        if at <= step:
                            body.append(("label", l))
                            pending.remove((l, at))
                for (l, _) in pending:
                    body.append(("label", l))
                body.append(("ret", [("r", r.choice(regs[:-1] if len(regs) > 1 else regs)) for _ in range(nres)]))
            mod["items"] += [pr, fn]
            mod["named"] += [pr["name"], fn["name"]]
            mod["protos"].append(pr)
            mod["funcs"].append(fn)
            protos.append((pr, fn))
            for _ in range(2):
                mod["runs"].append((fn["name"], [self.int64() for _ in range(nargs)]))
        return mod


# -------------------------------------------------------------------- label numbering
def label_occurrences(mod):
    occ = []
    for it in mod["items"]:
        if it["kind"] == "lref":
            occ.append(it["l1"])
            if it["l2"] is not None:
                occ.append(it["l2"])
        elif it["kind"] == "func":
            for ins in it["body"]:
                if ins[0] == "label":
                    occ.append(ins[1])
                else:
                    occ += [o[1] for o in ins[1] if o[0] == "l"]
    return occ


def renumber(mods, rng=None, scramble=False):
    """map symbolic label ids to 1.. in order of first textual occurrence (or a scrambled order)"""
    order = []
    for m in mods:
        for l in label_occurrences(m):
            if l not in order:
                order.append(l)
    nums = list(range(1, len(order) + 1))
    if scramble and rng is not None and len(nums) > 1:
        for i in range(len(nums) - 1, 0, -1):
            j = rng.below(i + 1)
            nums[i], nums[j] = nums[j], nums[i]
        if nums == sorted(nums):
            nums[0], nums[1] = nums[1], nums[0]
    mp = dict(zip(order, nums))

    def fix_op(o):
        return ("l", mp[o[1]]) if o[0] == "l" else o
    for m in mods:
        for it in m["items"]:
            if it["kind"] == "lref":
                it["l1"] = mp[it["l1"]]
                if it["l2"] is not None:
                    it["l2"] = mp[it["l2"]]
            elif it["kind"] == "func":
                it["body"] = [("label", mp[x[1]]) if x[0] == "label" else (x[0], [fix_op(o) for o in x[1]])
                              for x in it["body"]]
                it["labels"] = [mp[l] for l in it["labels"] if l in mp]
    return len(order)


# -------------------------------------------------------------------- register names that collide with other spellings
def collide(mods, rng, chance=(1, 3)):
    """Rename registers (params, locals, global vars) so that they are spelled exactly like something else the
    writer prints: the labels of the function (`L<n>`, after numbering), items and prototypes of the module, types,
    instructions, keywords.  The text format has one lexical class for all of these; which one a bare name denotes is
    decided per operand position (label positions first, then registers of the function, then items).  Returns the
    number of registers renamed, by family."""
    done = {}
    for m in mods:
        item_names = [it["name"] for it in m["items"] if it.get("name") and it["kind"] not in ("proto", "func")]
        proto_names = [it["name"] for it in m["items"] if it["kind"] in ("proto", "func")]
        for it in m["items"]:
            if it["kind"] != "func" or not rng.chance(*chance):
                continue
            regs = [n for (_, n, _) in it["args"]] + [n for (_, n) in it["locals"]] + [n for (_, n, _) in it["globals"]]
            if not regs:
                continue
            targets, defined = [], []
            for ins in it["body"]:
                if ins[0] == "label":
                    defined.append(ins[1])
                else:
                    targets += [o[1] for o in ins[1] if o[0] == "l"]
            for _ in range(1 + rng.below(2)):
                fam = rng.choice(["label", "label", "label", "item", "proto", "type", "insn", "keyword"])
                if fam == "label":
                    pool = ["L%d" % n for n in (targets or defined)]
                    if targets and defined and rng.chance(1, 4):
                        pool = ["L%d" % n for n in defined]
                elif fam == "item":
                    pool = item_names
                elif fam == "proto":
                    pool = proto_names
                elif fam == "type":
                    pool = TYPE_NAMES
                elif fam == "insn":
                    pool = ["add", "mov", "ret", "jmp", "call", "bt", "switch", "laddr", "label", "dmov", "alloca"]
                else:
                    pool = DIRECTIVES
                pool = [n for n in pool if n not in regs]
                if not pool:
                    continue
                old, new = rng.choice(regs), rng.choice(pool)
                regs[regs.index(old)] = new

                def rn(n):
                    return new if n == old else n

                def fix(o):
                    if o[0] == "r":
                        return ("r", rn(o[1]))
                    if o[0] == "m":
                        return o[:3] + (rn(o[3]) if o[3] is not None else None, rn(o[4]) if o[4] is not None else None) + o[5:]
                    return o
                it["args"] = [(t, rn(n), z) for (t, n, z) in it["args"]]
                it["locals"] = [(t, rn(n)) for (t, n) in it["locals"]]
                it["globals"] = [(t, rn(n), h) for (t, n, h) in it["globals"]]
                if "regs" in it:
                    it["regs"] = [(t, rn(n)) for (t, n) in it["regs"]]
                it["body"] = [x if x[0] == "label" else (x[0], [fix(o) for o in x[1]]) for x in it["body"]]
                done[fam] = done.get(fam, 0) + 1
    return done


# -------------------------------------------------------------------- description lines
def op_desc(o):
    k = o[0]
    if k == "r":
        return "r:" + enc_name(o[1])
    if k == "i":
        return "i:%d" % o[1]
    if k == "u":
        return "u:%d" % o[1]
    if k == "f":
        return "f:%08x" % o[1]
    if k == "d":
        return "d:%016x" % o[1]
    if k == "ld":
        return "ld:%020x" % o[1]
    if k == "ref":
        return "ref:" + enc_name(o[1])
    if k == "s":
        return "s:" + bytes(o[1]).hex()
    if k == "l":
        return "l:%d" % o[1]
    if k == "m":
        (_, ty, disp, base, index, scale, al, nal) = o
        return "m:%s:%d:%s:%s:%d:%s:%s" % (ty, disp, opt(base), opt(index), scale, opt(al), opt(nal))
    raise ValueError(o)


def sig_desc(it):
    w = ["1" if it["vararg"] else "0", str(len(it["res"]))] + list(it["res"]) + [str(len(it["args"]))]
    w += ["%s:%s:%d" % (t, enc_name(n), s) for (t, n, s) in it["args"]]
    return " ".join(w)


def describe(mods, nlabels, runs=()):
    lines = ["labels %d" % nlabels]
    for (fname, args) in runs:
        lines.append("run %s %s" % (enc_name(fname), " ".join(str(a) for a in args)))
    for m in mods:
        lines.append("module " + enc_name(m["name"]))
        for it in m["items"]:
            k = it["kind"]
            if k in ("export", "import", "forward"):
                lines.append("%s %s" % (k, enc_name(it["name"])))
            elif k == "bss":
                lines.append("bss %s %d" % (opt(it["name"]), it["len"]))
            elif k == "data":
                lines.append("data %s %s %d %s" % (opt(it["name"]), it["ty"], len(it["els"]),
                                                    " ".join("%x" % v for v in it["els"])))
            elif k == "strdata":
                lines.append(("strdata %s %s" % (opt(it["name"]), bytes(it["bytes"]).hex())).rstrip())
            elif k == "ref":
                lines.append("ref %s %s %d" % (opt(it["name"]), enc_name(it["item"]), it["disp"]))
            elif k == "lref":
                lines.append("lref %s %d %s %d" % (opt(it["name"]), it["l1"],
                                                   "-" if it["l2"] is None else str(it["l2"]), it["disp"]))
            elif k == "expr":
                lines.append("expr %s %s" % (opt(it["name"]), enc_name(it["func"])))
            elif k == "proto":
                lines.append("proto %s %s" % (enc_name(it["name"]), sig_desc(it)))
            elif k == "func":
                lines.append("func %s %s" % (enc_name(it["name"]), sig_desc(it)))
                for inner in it.get("inner", []):
                    lines.append("bss %s %d" % (opt(inner["name"]), inner["len"]))
                for (t, n) in it["locals"]:
                    lines.append("local %s %s" % (t, enc_name(n)))
                for (t, n, h) in it["globals"]:
                    lines.append("global %s %s %s" % (t, enc_name(n), enc_name(h)))
                for ins in it["body"]:
                    if ins[0] == "label":
                        lines.append("label %d" % ins[1])
                    else:
                        lines.append("insn %s %d %s" % (ins[0], len(ins[1]), " ".join(op_desc(o) for o in ins[1])))
                lines.append("endfunc")
        lines.append("endmodule")
    return [l.rstrip() for l in lines]


# -------------------------------------------------------------------- free-form text
def sci_decimal(m, e, digits):
    """m * 2**e rounded (half-even) to `digits` significant decimal digits, as d.ddde±k"""
    if m == 0:
        return "0.0"
    k = ((m.bit_length() + e - 1) * 30103) // 100000      # estimate of floor(log10(value))
    def scaled(k):
        # value * 10**(digits-1-k) as numerator/denominator
        num, den = m, 1
        if e >= 0:
            num <<= e
        else:
            den <<= -e
        p = digits - 1 - k
        if p >= 0:
            num *= 10 ** p
        else:
            den *= 10 ** (-p)
        return num, den
    while True:
        num, den = scaled(k)
        if num < den * 10 ** (digits - 1):
            k -= 1
        elif num >= den * 10 ** digits:
            k += 1
        else:
            break
    q, r = divmod(num, den)
    if 2 * r > den or (2 * r == den and q % 2 == 1):
        q += 1
    if q == 10 ** digits:
        q //= 10
        k += 1
    s = str(q)
    return s[0] + "." + s[1:] + "e%+d" % k


def ld_value(bits):
    sign = bits >> 79
    e = (bits >> 64) & 0x7FFF
    sig = bits & ((1 << 64) - 1)
    ee = (1 if e == 0 else e) - 16383 - 63
    return sign, sig, ee


class FreeForm:
    """renders a module in irregular but equivalent MIR text (only constructs the scanner documents)"""

    def __init__(self, rng):
        self.r = rng

    def ws(self, must=False):
        r = self.r
        k = r.below(6)
        s = ["", " ", "\t", "  ", " \t ", ""][k]
        return s if (s or not must) else " "

    def num(self, v):
        """an int64 value in one of the C integer spellings"""
        r = self.r
        k = r.below(8)
        neg = v < 0
        a = -v if neg else v
        sg = "-" if neg else ("+" if r.chance(1, 6) else "")
        if k == 0:
            return sg + "0x%x" % a
        if k == 1:
            return sg + "0X%X" % a
        if k == 2:
            return sg + "0%o" % a
        if k == 3 and a >= 1000:
            s = str(a)
            return sg + s[:-3] + "_" + s[-3:]
        if k == 4 and not neg:
            return str(v + (1 << 64)) if v < 0 else str(v)
        if k == 5 and neg:
            return str(v + (1 << 64))            # two's complement spelling of a negative value
        if k == 6 and neg:
            return "0x%x" % (v + (1 << 64))      # the same in hexadecimal
        return sg + str(a)

    def string(self, b):
        r = self.r
        out = '"'
        for c in b:
            k = r.below(8)
            if k == 0:
                out += "\\x%02x" % c
            elif k == 1:
                out += "\\%03o" % c
            elif c in (92, 34):
                out += "\\" + chr(c)
            elif 32 <= c <= 126:
                out += chr(c)
            elif c == 10:
                out += "\\n"
            elif c == 9 and r.chance(1, 2):
                out += "\\t"
            elif c == 13:
                out += "\\r"
            else:
                out += "\\%03o" % c
        return out + '"'

    def flt(self, kind, bits):
        r = self.r
        if kind == "f":
            v = struct.unpack("<f", struct.pack("<I", bits))[0]
            s = repr(v)
        elif kind == "d":
            v = struct.unpack("<d", struct.pack("<Q", bits))[0]
            s = repr(v)
        else:
            sign, sig, ee = ld_value(bits)
            s = ("-" if sign else "") + sci_decimal(sig, ee, 24 + self.r.below(8))
        if "e" not in s and "." not in s:
            s += ".0"
        if "." not in s and "e" in s:
            pass                                  # "1e+16": digits followed by exponent is accepted
        if r.chance(1, 4):
            s = s.replace("e", "E")
        return s + {"f": r.choice("fF"), "d": "", "ld": r.choice("lL")}[kind]

    def op(self, o):
        k = o[0]
        if k in ("r", "ref"):
            return o[1]
        if k == "i":
            return self.num(o[1])
        if k == "u":
            return self.num(o[1] - (1 << 64) if o[1] >= 1 << 63 else o[1]) if self.r.chance(1, 2) else str(o[1])
        if k in ("f", "d", "ld"):
            return self.flt(k, o[1])
        if k == "s":
            return self.string(o[1])
        if k == "l":
            return self.lab(o[1])
        (_, ty, disp, base, index, scale, al, nal) = o
        s = ty + self.ws() + ":" + self.ws()
        if disp != 0 or (base is None and index is None) or self.r.chance(1, 3):
            s += self.num(disp)
        if base is not None or index is not None:
            s += self.ws() + "(" + self.ws() + (base or "")
            if index is not None:
                s += self.ws() + "," + self.ws() + index
                if scale != 1 or self.r.chance(1, 3):
                    s += self.ws() + "," + self.ws() + str(scale)
            s += self.ws() + ")"
        if al is not None or nal is not None:
            s += self.ws() + ":" + self.ws() + (al or "")
            if nal is not None:
                s += self.ws() + ":" + self.ws() + nal
        return s

    def sep(self):
        return self.ws() + "," + self.ws()

    def eol(self):
        r = self.r
        k = r.below(8)
        if k == 0:
            return " # comment, with ; : ( \" stuff\n"
        if k == 1:
            return self.ws() + ";" + self.ws()
        if k == 2:
            return "\n\n"
        if k == 3:
            return " \n \t\n"
        return "\n"

    def var(self, v):
        (t, n, s) = v
        if t in BLK_TYPES:
            return t + self.ws() + ":" + self.ws() + self.num(s) + self.ws() + "(" + self.ws() + n + self.ws() + ")"
        return t + self.ws() + ":" + self.ws() + n

    def sig(self, it):
        parts = list(it["res"]) + [self.var(v) for v in it["args"]]
        if it["vararg"]:
            parts.append("...")
        return self.sep().join(parts)

    def lab(self, n):
        """spelling of label n: any name will do, including the reserved `.lc<N>` family (the scanner runs every
        label name through process_reserved_name)"""
        if self.per_module_labels:
            # label names are scoped by module: every module of the text starts again at the same spellings
            k = self.modlab.setdefault(n, len(self.modlab) + 1)
            return (".lc%d" if self.lc_labels else "L%d") % k
        if not self.lc_labels:
            return "L%d" % n
        if n not in self.labmap:
            while True:
                k = self.r.below(60)
                if k not in self.labmap.values():
                    break
            self.labmap[n] = k
        return ".lc%d" % self.labmap[n]

    def label_prefix(self, n):
        return "" if n is None else n + self.ws() + ":" + (self.ws() if self.r.chance(3, 4) else "\n")

    def render(self, mods):
        r = self.r
        out = ""
        self.lc_labels = r.chance(1, 4)
        self.per_module_labels = r.chance(1, 2)
        self.labmap = {}
        for m in mods:
            self.modlab = {}
            out += m["name"] + self.ws() + ":" + self.ws() + "module" + self.eol()
            for it in m["items"]:
                k = it["kind"]
                ind = self.ws(True)
                if k in ("export", "import", "forward"):
                    out += ind + k + self.ws(True) + it["name"] + self.eol()
                elif k == "bss":
                    out += self.label_prefix(it["name"]) + ind + "bss" + self.ws(True) + self.num(it["len"] if it["len"] < 1 << 63 else it["len"]) + self.eol()
                elif k == "data":
                    ty = it["ty"]
                    els = []
                    for v in it["els"]:
                        if ty in ("f", "d", "ld"):
                            els.append(self.flt(ty, v))
                        else:
                            bits = DATA_INT_BITS[ty]
                            if ty[0] == "i" and v >= 1 << (bits - 1) and r.chance(1, 2):
                                els.append(self.num(v - (1 << bits)))
                            else:
                                els.append(self.num(v))
                    out += self.label_prefix(it["name"]) + ind + ty + self.ws(True) + self.sep().join(els) + self.eol()
                elif k == "strdata":
                    b = it["bytes"]
                    if b and b[-1] == 0 and r.chance(2, 3):
                        # `string` forces the final NUL itself
                        body = b[:-1] if (len(b) > 1 and b[-2] != 0 and r.chance(1, 2)) else b
                        out += self.label_prefix(it["name"]) + ind + "string" + self.ws(True) + self.string(body) + self.eol()
                    else:
                        out += self.label_prefix(it["name"]) + ind + "u8" + self.ws(True) + self.sep().join(
                            self.num(v) for v in b) + self.eol()
                elif k == "ref":
                    out += self.label_prefix(it["name"]) + ind + "ref" + self.ws(True) + it["item"] + self.sep() + self.num(it["disp"]) + self.eol()
                elif k == "lref":
                    ops = [self.lab(it["l1"])] + ([self.lab(it["l2"])] if it["l2"] is not None else [])
                    if it["disp"] != 0 or r.chance(1, 3):
                        ops.append(self.num(it["disp"]))
                    out += self.label_prefix(it["name"]) + ind + "lref" + self.ws(True) + self.sep().join(ops) + self.eol()
                elif k == "expr":
                    out += self.label_prefix(it["name"]) + ind + "expr" + self.ws(True) + it["func"] + self.eol()
                elif k == "proto":
                    out += it["name"] + self.ws() + ":" + self.ws() + "proto" + self.ws(True) + self.sig(it) + self.eol()
                elif k == "func":
                    out += it["name"] + self.ws() + ":" + self.ws() + "func" + self.ws(True) + self.sig(it) + self.eol()
                    decls = [("local", "%s%s:%s%s" % (t, self.ws(), self.ws(), n)) for (t, n) in it["locals"]]
                    # locals must keep their order; globals may be declared in between without changing the text
                    i = 0
                    while i < len(decls):
                        n = 1 + r.below(4)
                        out += ind + "local" + self.ws(True) + self.sep().join(d for (_, d) in decls[i:i + n]) + self.eol()
                        i += n
                    for (t, n, h) in it["globals"]:
                        out += ind + "global" + self.ws(True) + t + ":" + n + self.ws() + ":" + self.ws() + h + self.eol()
                    pend = []
                    for ins in it["body"]:
                        if ins[0] == "label":
                            pend.append(self.lab(ins[1]))
                            continue
                        pre = ""
                        for l in pend:
                            pre += l + self.ws() + ":" + (self.ws() if r.chance(1, 2) else "\n")
                        pend = []
                        out += pre + ind + ins[0] + (self.ws(True) + self.sep().join(self.op(o) for o in ins[1])
                                                      if ins[1] else "") + self.eol()
                    for l in pend:       # labels at the end of the body stand in front of endfunc
                        out += l + self.ws() + ":" + (self.ws() if r.chance(1, 2) else "\n")
                    out += ind + "endfunc" + self.eol()
            out += self.ws(True) + "endmodule" + self.eol()
        if out.endswith(";") or not out.endswith("\n"):
            out = out.rstrip(" \t;") + "\n"
        return out
