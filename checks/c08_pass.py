"""C08 passing tie: aggregates by value between c2m-compiled and gcc-compiled code.

For every generated prototype  R f(P1..Pn)  one test in `user.c` (compiled by the freshly built c2m,
run with -eg and -ei, and — as the reference — by gcc) and its counterpart in `lib.c` (gcc, shared
library loaded by c2m with -L/-l):
  A  user calls lib_fn_k(args): the callee dumps every scalar leaf of what it received and returns a
     filled R; the caller dumps what it got back             (c2m caller -> gcc callee, gcc return -> c2m)
  B  lib calls user_fn_k through a pointer                   (gcc caller -> c2m callee, c2m return -> gcc)
  C  user calls `cap` through a cast pointer; `cap` stores rdi..r9, xmm0..7 and 40 stack words, so the
     place where every eightbyte of every argument travelled is observed and compared with
     `mirdrv_c08 proto` (c2m run: model of classify_arg & co; gcc run: psABI specification).
"""
import os, json, itertools
from concurrent.futures import ThreadPoolExecutor
import c08_gen as G

INTK = {"bool", "char", "schar", "uchar", "short", "ushort", "int", "uint", "long", "ulong", "llong",
        "ullong", "enum4", "enum8", "ptr"} | set(G.ENUM_NAMES)
UNSIGNED = {"bool", "uchar", "ushort", "uint", "ulong", "ullong"}


def value_leaves(t, base):
    """leaves that are filled and dumped: all named members of structs, the biggest member of unions"""
    out = []
    if t[0] == "sc":
        out.append((base, t[1], None))
    elif t[0] == "arr":
        for i in range(t[1]):
            out += value_leaves(t[2], f"{base}[{i}]")
    else:
        cnt = [0]
        named = []          # (member, path)

        def walk(a, acc):
            for m in a[2]:
                if m[0] == "p":
                    cnt[0] += 1
                    acc.append((m, f"{base}.f{cnt[0]}"))
                elif m[0] == "b":
                    if m[2]:
                        cnt[0] += 1
                        acc.append((m, f"{base}.f{cnt[0]}"))
                else:
                    sub = []
                    walk(m[1], sub)
                    if m[1][1] and sub:     # anonymous union: biggest member only
                        sub = [max(sub, key=lambda x: msize(x[0]))]
                    acc += sub
        walk(t, named)
        if t[1] and named:
            named = [max(named, key=lambda x: msize(x[0]))]
        for m, path in named:
            if m[0] == "b":
                out.append((path, m[3][1], m[1]))
            else:
                out += value_leaves(m[1], path)
    return out


def msize(m):
    if m[0] == "b":
        return (m[1] + 7) // 8
    return G.approx_size(m[1])


def fill_stmt(lv, sc, w, i):
    v = f"c08_mix(s, {i})"
    ct = G.SC_C[sc]
    if w is not None:
        weff = w - 1 if G.is_enum(sc) else w
        if sc == "bool":
            return f"  {lv} = ({v} >> 63) & 1;"
        if weff <= 0:
            return f"  {lv} = 0;"
        return f"  {lv} = ({ct}) ({v} >> {64 - weff});"
    if sc == "bool":
        return f"  {lv} = ({v} >> 63) & 1;"
    if sc == "float":
        return f"  {lv} = (float) (int) ({v} >> 40) * 0.5f;"
    if sc == "double":
        return f"  {lv} = (double) (long long) ({v} >> 12) * 0.5;"
    if sc == "ldouble":
        return f"  {lv} = (long double) (long long) ({v} >> 2) * 0.5L;"
    if sc == "ptr":
        return f"  {lv} = (void *) (unsigned long) {v};"
    if G.is_enum(sc):
        if G.SC_SIZE[sc] == 4:
            return f"  {lv} = ({ct}) (int) ({v} >> 32);"
        return f"  {lv} = ({ct}) (long) ({v} >> 1);"
    return f"  {lv} = ({ct}) ({v} >> {64 - 8 * G.SC_SIZE[sc]});"


def dump_stmt(lv, sc, w):
    if w is None and sc == "float":
        return f"  {{ unsigned int u; memcpy(&u, &{lv}, 4); printf(\"f%x,\", u); }}"
    if w is None and sc == "double":
        return f"  {{ unsigned long long u; memcpy(&u, &{lv}, 8); printf(\"d%llx,\", u); }}"
    if w is None and sc == "ldouble":
        return f"  {{ unsigned long long u[2]; u[0] = u[1] = 0; memcpy(u, &{lv}, 10); printf(\"l%llx.%llx,\", u[0], u[1]); }}"
    if sc == "ptr":
        return f"  printf(\"%llx,\", (unsigned long long) (unsigned long) {lv});"
    return f"  printf(\"%llx,\", (unsigned long long) {lv});"


class Batch:
    """one pair user.c / lib.c for a list of prototypes [(ret|None, [param types])]"""

    def __init__(self, protos):
        self.protos = protos
        self.rend = G.Renderer("T")
        self.tname = {}        # to_str -> (C spec, fill/dump suffix)
        self.helpers = []
        for ret, ps in protos:
            for t in ([ret] if ret is not None else []) + list(ps):
                self.reg_type(t)

    def reg_type(self, t):
        key = G.to_str(t)
        if key in self.tname:
            return self.tname[key]
        spec, suf = self.rend.spec(t)
        assert suf == ""
        ident = f"x{len(self.tname)}"
        self.tname[key] = (spec, ident)
        lv = value_leaves(t, "(*p)")
        fill = [f"static void fill_{ident}({spec} *p, unsigned long long s) {{", "  memset(p, 0, sizeof *p);"]
        fill += [fill_stmt(l, sc, w, i) for i, (l, sc, w) in enumerate(lv)] + ["}"]
        dump = [f"static void dump_{ident}(const {spec} *p) {{"] + [dump_stmt(l, sc, w) for l, sc, w in lv]
        dump += ["  printf(\" \");", "}"]
        self.helpers.append("\n".join(fill) + "\n" + "\n".join(dump) + "\n")
        return self.tname[key]

    def header(self):
        return ("#include <stdio.h>\n#include <string.h>\n#include <stdlib.h>\n" + self.rend.text() +
                "static unsigned long long c08_mix(unsigned long long s, unsigned long long i) {\n"
                "  unsigned long long v = (s * 131 + i + 1) * 0x9E3779B97F4A7C15ULL; v ^= v >> 29; v *= 0xBF58476D1CE4E5B9ULL; v ^= v >> 32; return v; }\n"
                "static void c08_hex(const void *q, unsigned long n) { const unsigned char *p = q; unsigned long i; for (i = 0; i < n; i++) printf(\"%02x\", p[i]); printf(\" \"); }\n"
                + "".join(self.helpers))

    def sig(self, k, fname_fmt):
        ret, ps = self.protos[k]
        rs = self.tname[G.to_str(ret)][0] if ret is not None else "void"
        params = ", ".join(f"{self.tname[G.to_str(p)][0]} a{i}" for i, p in enumerate(ps)) or "void"
        return rs, params

    def fn_body(self, k, tag):
        """callee: dump received args, return a filled value"""
        ret, ps = self.protos[k]
        b = [f"  printf(\"{tag} {k} got \");"]
        for i, p in enumerate(ps):
            b.append(f"  dump_{self.tname[G.to_str(p)][1]}(&a{i});")
        b.append("  printf(\"\\n\"); fflush(0);")
        if ret is not None:
            spec, ident = self.tname[G.to_str(ret)]
            b += [f"  {{ {spec} r; fill_{ident}(&r, {k * 64 + 33 + (7 if tag == 'B' else 0)}); printf(\"{tag} {k} rsent \"); dump_{ident}(&r); printf(\"\\n\"); fflush(0); return r; }}"]
        return "\n".join(b)

    def call_body(self, k, tag, callee):
        ret, ps = self.protos[k]
        b = []
        for i, p in enumerate(ps):
            spec, ident = self.tname[G.to_str(p)]
            b.append(f"  {spec} a{i}; fill_{ident}(&a{i}, {k * 64 + i + (16 if tag == 'B' else 0)});")
        b.append(f"  printf(\"{tag} {k} sent \");")
        for i, p in enumerate(ps):
            b.append(f"  dump_{self.tname[G.to_str(p)][1]}(&a{i});")
        b.append("  printf(\"\\n\"); fflush(0);")
        args = ", ".join(f"a{i}" for i in range(len(ps)))
        if ret is not None:
            spec, ident = self.tname[G.to_str(ret)]
            b.append(f"  {{ {spec} r = {callee}({args}); printf(\"{tag} {k} rgot \"); dump_{ident}(&r); printf(\"\\n\"); fflush(0); }}")
        else:
            b.append(f"  {callee}({args});")
        return "\n".join(b)

    def lib_c(self):
        s = [self.header()]
        s.append("struct { unsigned long i[6]; double f[8]; unsigned long s[40]; } cap_r;\n"
                 "void cap(unsigned long i0, unsigned long i1, unsigned long i2, unsigned long i3, unsigned long i4, unsigned long i5,\n"
                 "         double f0, double f1, double f2, double f3, double f4, double f5, double f6, double f7,\n         "
                 + ", ".join(f"unsigned long s{j}" for j in range(40)) + ") {\n"
                 "  cap_r.i[0] = i0; cap_r.i[1] = i1; cap_r.i[2] = i2; cap_r.i[3] = i3; cap_r.i[4] = i4; cap_r.i[5] = i5;\n"
                 "  cap_r.f[0] = f0; cap_r.f[1] = f1; cap_r.f[2] = f2; cap_r.f[3] = f3; cap_r.f[4] = f4; cap_r.f[5] = f5; cap_r.f[6] = f6; cap_r.f[7] = f7;\n"
                 + "".join(f"  cap_r.s[{j}] = s{j};\n" for j in range(40)) + "}\n"
                 "void cap_report(int k) { printf(\"C %d regs \", k); c08_hex(&cap_r, sizeof cap_r); printf(\"\\n\"); fflush(0); memset(&cap_r, 0, sizeof cap_r); }\n")
        for k in range(len(self.protos)):
            rs, params = self.sig(k, None)
            s.append(f"{rs} lib_fn_{k}({params}) {{\n{self.fn_body(k, 'A')}\n}}\n")
            s.append(f"void lib_call_{k}({rs} (*fp)({params})) {{\n{self.call_body(k, 'B', 'fp')}\n}}\n")
        return "".join(s)

    def user_c(self):
        s = [self.header(), "extern void cap(void);\nextern void cap_report(int k);\n"]
        for k in range(len(self.protos)):
            ret, ps = self.protos[k]
            rs, params = self.sig(k, None)
            s.append(f"extern {rs} lib_fn_{k}({params});\nextern void lib_call_{k}({rs} (*fp)({params}));\n")
            s.append(f"static {rs} user_fn_{k}({params}) {{\n{self.fn_body(k, 'B')}\n}}\n")
            ptypes = ", ".join(self.tname[G.to_str(p)][0] for p in ps) or "void"
            cap = [f"  printf(\"C {k} raw \");"]
            for i, p in enumerate(ps):
                cap.append(f"  c08_hex(&a{i}, sizeof a{i});")
            cap.append("  printf(\"\\n\"); fflush(0);")
            cap.append(f"  ((void (*)({ptypes})) cap)({', '.join(f'a{i}' for i in range(len(ps)))});")
            cap.append(f"  cap_report({k});")
            s.append(f"static void test_{k}(void) {{\n{self.call_body(k, 'A', f'lib_fn_{k}')}\n  lib_call_{k}(user_fn_{k});\n"
                     + ("\n".join(cap) if ps else "") + "\n}\n")
        s.append("int main(int argc, char **argv) {\n  int only = argc > 1 ? atoi(argv[1]) : -1;\n"
                 + "".join(f"  if (only < 0 || only == {k}) test_{k}();\n" for k in range(len(self.protos)))
                 + "  printf(\"END\\n\"); fflush(0);\n  return 0;\n}\n")
        return "".join(s)


def parse_lines(out):
    res = {}
    for line in out.split("\n"):
        f = line.split(" ", 3)
        if len(f) >= 3 and f[0] in ("A", "B", "C") and f[1].isdigit():
            res.setdefault(int(f[1]), {})[f[0] + f[2]] = f[3].strip() if len(f) > 3 else ""
    return res


def values_ok(d, has_ret, has_params=True):
    """intact both ways? -> list of failing legs"""
    bad = []
    for tag, what in (("A", "c2m->gcc"), ("B", "gcc->c2m")):
        if d.get(tag + "sent") is None or d.get(tag + "got") is None:
            bad.append(f"{tag}:missing")
        elif d[tag + "sent"] != d[tag + "got"]:
            bad.append(f"{tag}:args")
        if has_ret:
            if d.get(tag + "rsent") is None or d.get(tag + "rgot") is None:
                bad.append(f"{tag}:ret-missing")
            elif d[tag + "rsent"] != d[tag + "rgot"]:
                bad.append(f"{tag}:ret")
    return bad


def locate(d, ps, layinfo, prefer=None):
    """where did every argument travel?  -> list of strings per parameter ('I','S','M','IS',..,'?').
    `prefer` (the model's prediction) is tested first: the caller may leave stale copies of an
    argument in other argument registers, so a bare search can be ambiguous."""
    if "Craw" not in d or "Cregs" not in d:
        return None
    raws = [bytes.fromhex(x) for x in d["Craw"].split()]
    regs = bytes.fromhex(d["Cregs"].split()[0])
    ireg = [regs[8 * j:8 * j + 8] for j in range(6)]
    freg = [regs[48 + 8 * j:48 + 8 * j + 8] for j in range(8)]
    stack = regs[112:]
    ni = nf = sp = 0
    out = []
    for idx, (p, raw) in enumerate(zip(ps, raws)):
        want = prefer[idx] if prefer is not None and idx < len(prefer) else None
        sz = len(raw)
        al = layinfo(p)[1]
        nq = (sz + 7) // 8
        pieces = [raw[8 * j:8 * j + 8] for j in range(nq)]
        sp_al = (sp + 15) // 16 * 16 if al >= 16 else sp
        nb = 10 if p == ("sc", "ldouble") else sz      # bytes 10..15 of a long double object are padding
        on_stack = stack[sp_al:sp_al + nb] == raw[:nb]

        def try_regs(want=None):
            ci = cf = 0
            s = ""
            for j, pc in enumerate(pieces):
                n = len(pc)
                if p[0] == "sc" and p[1] in ("float",):
                    n = 4
                wj = want[j] if want is not None and j < len(want) else None
                i_ok = ni + ci < 6 and ireg[ni + ci][:n] == pc[:n] and not (p[0] == "sc" and p[1] in ("float", "double"))
                f_ok = nf + cf < 8 and freg[nf + cf][:n] == pc[:n] and not (p[0] == "sc" and p[1] in INTK)
                if want is not None:
                    i_ok, f_ok = i_ok and wj == "I", f_ok and wj == "S"
                if i_ok:
                    s += "I"
                    ci += 1
                elif f_ok:
                    s += "S"
                    cf += 1
                else:
                    return None
            return s, ci, cf
        can_regs = nq <= 2 and not (p[0] == "sc" and p[1] == "ldouble")
        r = None
        if want is not None and want != "M" and can_regs and len(want) == nq:
            r = try_regs(want)
        if r is None and not (want == "M" and on_stack) and can_regs:
            r = try_regs()
        if r is not None:
            out.append(r[0])
            ni += r[1]
            nf += r[2]
        elif on_stack:
            out.append("M")
            sp = sp_al + (sz + 7) // 8 * 8
        else:
            out.append("?")
            # keep going with the psABI guess so that later arguments are still located
            sp = sp_al + (sz + 7) // 8 * 8
    return out


def gen_valued(rng):
    """a small aggregate with at least one nameable scalar leaf (so that its bytes can be recognised)"""
    for _ in range(50):
        t = G.gen_small(rng)
        if value_leaves(t, "x"):
            return t
    return ("agg", False, [("p", ("sc", "int"))])


def gen_proto(rng):
    n = 1 + rng.below(10) if rng.chance(3, 4) else 1 + rng.below(4)
    ps = []
    nagg = 0
    for i in range(n):
        r = rng.below(100)
        if r < 40 or (nagg >= 4):
            ps.append(("sc", rng.choice(["long", "int", "double", "float", "ptr", "char", "ushort", "ulong", "double", "long", "bool"])))
        else:
            ps.append(gen_valued(rng))
            nagg += 1
    if nagg == 0:
        ps[rng.below(n)] = gen_valued(rng)
    r = rng.below(100)
    ret = None if r < 25 else (("sc", rng.choice(["long", "double", "int", "float", "ldouble"])) if r < 35 else gen_valued(rng))
    return ret, ps


def proto_str(pr):
    ret, ps = pr
    return " ; ".join([G.to_str(ret) if ret is not None else "void"] + [G.to_str(p) for p in ps])


def proto_from_str(s):
    parts = [x.strip() for x in s.split(";")]
    ret = None if parts[0] == "void" else G.from_tokens(parts[0].split())
    return ret, [G.from_tokens(x.split()) for x in parts[1:] if x]


def proto_weight(pr):
    ret, ps = pr
    return (0 if ret is None else G.type_weight(ret) + 500) + sum(G.type_weight(p) + 500 for p in ps)


def proto_shrinks(pr):
    ret, ps = pr
    out = []
    if ret is not None:
        out.append((None, ps))
        if ret[0] == "agg":
            out += [(c, ps) for c in G.shrink_candidates(ret) if c[0] == "agg"]
    for i in range(len(ps)):
        if len(ps) > 1:
            out.append((ret, ps[:i] + ps[i + 1:]))
        p = ps[i]
        if p[0] == "agg":
            out.append((ret, ps[:i] + [("sc", "long")] + ps[i + 1:]))
            out += [(ret, ps[:i] + [c] + ps[i + 1:]) for c in G.shrink_candidates(p) if c[0] == "agg"]
        elif p[1] not in ("long", "double"):
            out.append((ret, ps[:i] + [("sc", "double" if p[1] == "float" else "long")] + ps[i + 1:]))
    return out


def run(ck, C2M, WORK, drv, runcmd, cases, QUICK, layout_eval):
    stats = {"protos": 0, "protos_reg_aggregate": 0, "aggregate_args": 0, "aggregate_rets": 0,
             "arg_loc_hist": {}, "ret_loc_hist": {}, "excluded_types_layout_differs": 0,
             "engines": ["-eg", "-ei"], "value_fail": 0, "loc_c2m_vs_gcc_differ": 0,
             "model_c2m_loc_mismatch": 0, "model_sysv_loc_mismatch": 0, "classes": {}, "positions": {},
             "class_types": 0, "class_side_condition_true": 0,
             "class_side_condition_true_equal": 0, "class_model_differs": 0, "class_invalid_pattern": 0}
    class_seen = set()
    reported = set()
    sig_count = {}
    _unused = {}
    layout_cache = {}
    nbatch = itertools.count(1)

    def lay_ok(types):
        """fills layout_cache: decl -> (size, align, same_layout)"""
        need = [t for t in types if t[0] == "agg" and G.to_str(t) not in layout_cache]
        if need:
            recs = layout_eval(need, "pl")
            bydecl = {r["decl"]: r for r in recs}
            # an aggregate is usable if it and all nested typedefs have equal real layouts

            def ok(t):
                if t[0] == "sc":
                    return True
                if t[0] == "arr":
                    return ok(t[2])
                r = bydecl.get(G.to_str(t))
                me = True
                if r is not None:
                    me = r["c2m"] is not None and r["c2m"] == r["gcc"]
                return me and all(ok(m[-1]) for m in t[2])
            for t in need:
                r = bydecl[G.to_str(t)]
                sz, al = (int(x) for x in (r["gcc"] or "0 1 -").split()[:2])
                layout_cache[G.to_str(t)] = (sz, al, ok(t))

    def layinfo(t):
        if t[0] == "sc":
            return (G.SC_SIZE[t[1]], G.SC_SIZE[t[1]], True)
        return layout_cache[G.to_str(t)]

    def run_batch(protos):
        """-> per proto: {'gcc': lines, '-eg': lines, '-ei': lines}"""
        nb = next(nbatch)
        b = Batch(protos)
        d = os.path.join(WORK, f"pb{nb}")
        os.makedirs(d, exist_ok=True)
        lib = f"c08p{nb}"
        with open(os.path.join(d, "lib.c"), "w") as f:
            f.write(b.lib_c())
        with open(os.path.join(d, "user.c"), "w") as f:
            f.write(b.user_c())
        rc, out, err = runcmd(["gcc", "-O1", "-w", "-shared", "-fPIC", "lib.c", "-o", f"lib{lib}.so"], cwd=d, timeout=600)
        if rc != 0:
            ck.broken_ties.append({"kind": "reference-compiler", "name": "gcc rejected lib.c", "log": err[-800:]})
            return None
        rc, out, err = runcmd(["gcc", "-O0", "-w", "user.c", "-o", "user.exe", "-L.", f"-l{lib}", f"-Wl,-rpath,{d}"], cwd=d, timeout=600)
        if rc != 0:
            ck.broken_ties.append({"kind": "reference-compiler", "name": "gcc rejected user.c", "log": err[-800:]})
            return None
        res = {}

        def engine(cmd_for):
            rc, out, err = runcmd(cmd_for(None), cwd=d, timeout=600)
            lines = parse_lines(out)
            if rc != 0 or "END" not in out:
                # a test crashed the process: run every test on its own
                def one(k):
                    r1, o1, e1 = runcmd(cmd_for(k), cwd=d, timeout=120)
                    pl = parse_lines(o1).get(k, {})
                    if r1 != 0 or "END" not in o1:
                        pl["crash"] = f"rc={r1} {e1[-200:]}"
                    return k, pl
                with ThreadPoolExecutor(max_workers=16) as ex:
                    lines = dict(ex.map(one, range(len(protos))))
            return lines
        res["gcc"] = engine(lambda k: ["./user.exe"] + ([str(k)] if k is not None else []))
        for eng in ("-eg", "-ei"):
            res[eng] = engine(lambda k, eng=eng: [C2M, "-L", d, f"-l{lib}", "user.c", eng] + ([str(k)] if k is not None else []))
        return res

    def model_locs(protos):
        """driver: argument locations for `void f(params)` -> (c2m list, sysv list) per proto"""
        lines = drv(["proto void ; " + " ; ".join(G.to_str(p) for p in ps) for _, ps in protos])
        out = []
        for ln in lines:
            parts = [x.strip() for x in ln.split("|")]
            if len(parts) >= 2 and parts[0].startswith("P c2m "):
                out.append((parts[0].split()[3:], parts[1].split()[2:]))
            else:
                out.append((None, None))
        return out

    def model_full(pr):
        ln = drv(["proto " + proto_str(pr)])[0]
        parts = [x.strip() for x in ln.split("|")]
        if len(parts) >= 2:
            return parts[0][6:], parts[1][5:]
        return None, None

    def evaluate(protos, res, mlocs):
        """-> list of verdict dicts"""
        out = []
        for k, (ret, ps) in enumerate(protos):
            v = {"proto": proto_str((ret, ps)), "fails": {}, "locs": {}}
            for eng in ("gcc", "-eg", "-ei"):
                d = res[eng].get(k, {})
                bad = values_ok(d, ret is not None)
                if "crash" in d:
                    bad.append("crash:" + d["crash"])
                if bad:
                    v["fails"][eng] = bad
                v["locs"][eng] = locate(d, ps, layinfo, mlocs[k][1] if eng == "gcc" else mlocs[k][0])
            v["m_c2m"], v["m_sysv"] = mlocs[k]
            out.append(v)
        return out

    def violated(v):
        """does the property fail on the real code for this prototype?"""
        if "gcc" in v["fails"]:
            return False      # the test itself is not valid (reported as a broken tie)
        if v["fails"].get("-eg") or v["fails"].get("-ei"):
            return True
        lg = v["locs"]["gcc"]
        return any(v["locs"][e] is not None and lg is not None and v["locs"][e] != lg for e in ("-eg", "-ei"))

    def shrink(pr):
        cur = pr
        for _ in range(30):
            cands, seen = [], set()
            for c in sorted(proto_shrinks(cur), key=proto_weight):
                s = proto_str(c)
                if s not in seen and proto_weight(c) < proto_weight(cur):
                    seen.add(s)
                    cands.append(c)
            if not cands:
                break
            cands = cands[:40]
            lay_ok([t for r, ps in cands for t in ([r] if r is not None else []) + ps])
            cands = [c for c in cands if all(layinfo(t)[2] for t in ([c[0]] if c[0] is not None else []) + c[1])]
            if not cands:
                break
            res = run_batch(cands)
            if res is None:
                break
            vs = evaluate(cands, res, model_locs(cands))
            nxt = None
            for c, v in zip(cands, vs):
                if violated(v):
                    nxt = c
                    break
            if nxt is None:
                break
            cur = nxt
        return cur

    def signature(pr, v):
        mc, ms = model_full(pr)
        ret, ps = pr
        aggs = [t for t in ([ret] if ret is not None else []) + ps if t[0] == "agg"]
        cls = drv(["class " + G.to_str(t) for t in aggs])
        straddle = any("aligned=0" in c and c.split("|")[0].split()[2:] != c.split("|")[1].split()[1:] for c in cls)
        if straddle and mc != ms:
            return "C08:class-nested-aggregate-straddles-eightbyte"
        zw = any("bf-zero" in G.features(t) and c.split("|")[0].split()[2:] != c.split("|")[1].split()[1:]
                 for t, c in zip(aggs, cls))
        if zw and mc != ms:
            return "C08:class-zero-width-bitfield-integer"
        ft = set()
        for t in aggs:
            ft |= G.features(t)
        ei, eg = v["fails"].get("-ei", []), v["fails"].get("-eg", [])
        if mc is not None and ms is not None:
            lc, ls = mc.split()[1:], ms.split()[1:]
            if ei and set(ei) <= {"A:args", "B:args"} and not eg and mc == ms:
                # interpreter FFI (mir-x86_64.c): an aggregate (partly) in general registers followed by
                # something in an SSE register
                agg_i = [i for i, (p, l) in enumerate(zip(ps, lc)) if p[0] == "agg" and "I" in l]
                agg_mixed = [i for i, (p, l) in enumerate(zip(ps, lc)) if p[0] == "agg" and l in ("IS", "SI")]
                if "B:args" in ei and agg_mixed and "S" in "".join(lc[agg_mixed[0] + 1:]):
                    return "C08:interp-va-block-mixed-fp-offset"
                if "A:args" in ei and agg_i and "S" in "".join(lc[agg_i[0]:]):
                    return "C08:interp-ffi-blk-advances-xmm-count"
            if mc == ms and ei and eg and all(b.split(":")[1] == "args" for b in ei + eg if ":" in b):
                # an aggregate with 16-byte alignment passed in memory: MIR blocks carry no alignment
                al16 = [i for i, (p, l) in enumerate(zip(ps, lc)) if p[0] == "agg" and l == "M" and layinfo(p)[1] >= 16]
                if al16:
                    return "C08:stack-aggregate-16-byte-alignment"
            if mc != ms and len(lc) == len(ls):
                diff = [i for i in range(len(lc)) if lc[i] != ls[i]]
                if diff and all(lc[i] == "M" and set(ls[i]) == {"S"} and ps[i][0] == "agg" for i in diff):
                    nint = sum(l.count("I") + (1 if (l == "M" and ps[j][0] == "sc" and ps[j][1] in INTK) else 0)
                               for j, l in enumerate(ls[:diff[0]]))
                    if nint >= 7 or (mc.split()[0] == "M" and nint >= 6):
                        return "C08:int-reg-counter-not-saturated"
        kinds = sorted({b.split(":")[1] if ":" in b else b for e in ("-eg", "-ei") for b in v["fails"].get(e, [])}) or ["loc"]
        return "C08:pass-" + ("model-differs-" if mc != ms else "") + "-".join(kinds)[:40] + ("-ldouble" if "ldouble" in ft or any(t == ("sc", "ldouble") for t in ps) else "")

    def process(protos, origin):
        lay_ok([t for r, ps in protos for t in ([r] if r is not None else []) + ps])
        keep = []
        for r, ps in protos:
            ts = ([r] if r is not None else []) + ps
            if all(layinfo(t)[2] for t in ts):
                keep.append((r, ps))
            else:
                stats["excluded_types_layout_differs"] += 1
        protos = keep
        if not protos:
            return
        aggs = []
        for r, ps in protos:
            for t in ([r] if r is not None else []) + ps:
                if t[0] == "agg" and G.to_str(t) not in class_seen:
                    class_seen.add(G.to_str(t))
                    aggs.append(t)
        for t, ln in zip(aggs, drv(["class " + G.to_str(t) for t in aggs])):
            parts = [x.strip() for x in ln.split("|")]
            if len(parts) != 3:
                continue
            fl = dict(kv.split("=") for kv in parts[2].split())
            mc, ms = parts[0].split()[2], parts[1].split()[1]
            stats["class_types"] += 1
            if fl.get("valid") != "1":
                stats["class_invalid_pattern"] += 1
                ck.broken_ties.append({"kind": "correspondence", "name": "validCls: classify_arg model returned an illegal class pattern",
                                       "first_diff": {"decl": G.to_str(t), "c2mClassify": mc}})
            if mc != ms:
                stats["class_model_differs"] += 1
            if fl.get("aligned") == "1" and fl.get("nobf") == "1":
                stats["class_side_condition_true"] += 1
                if mc == ms:
                    stats["class_side_condition_true_equal"] += 1
                else:
                    ck.broken_ties.append({"kind": "proof-vs-driver", "name": "class_meets_sysv_partial contradicted by the executable model",
                                           "first_diff": {"decl": G.to_str(t), "c2m": mc, "sysv": ms}})
        res = run_batch(protos)
        if res is None:
            return
        mlocs = model_locs(protos)
        vs = evaluate(protos, res, mlocs)
        bad = []
        cap = 6 if QUICK else 12
        for pr, v in zip(protos, vs):
            ret, ps = pr
            stats["protos"] += 1
            if v.get("m_c2m") is not None:
                # proto_meets_sysv_partial: the two models can differ only through the classes of an aggregate
                if v["m_c2m"] != v["m_sysv"] and not any(
                        c.split("|")[0].split()[2:] != c.split("|")[1].split()[1:]
                        for c in drv(["class " + G.to_str(t) for t in ps if t[0] == "agg"])):
                    ck.broken_ties.append({"kind": "proof-vs-driver", "name": "proto_meets_sysv_partial contradicted by the executable model",
                                           "first_diff": {"proto": v["proto"], "c2m": v["m_c2m"], "sysv": v["m_sysv"]}})
            if "gcc" in v["fails"]:
                ck.broken_ties.append({"kind": "reference-self-test", "name": "gcc<->gcc passing test fails",
                                       "first_diff": {"proto": v["proto"], "fails": v["fails"]["gcc"]}})
                continue
            lg = v["locs"]["gcc"]
            reg_agg = False
            for i, p in enumerate(ps):
                if p[0] == "agg":
                    stats["aggregate_args"] += 1
                    stats["positions"][str(i + 1)] = stats["positions"].get(str(i + 1), 0) + 1
                    if lg is not None:
                        stats["arg_loc_hist"][lg[i]] = stats["arg_loc_hist"].get(lg[i], 0) + 1
                        reg_agg = reg_agg or lg[i] not in ("M", "?")
            if ret is not None and ret[0] == "agg":
                stats["aggregate_rets"] += 1
                reg_agg = reg_agg or layinfo(ret)[0] <= 16
            if reg_agg:
                stats["protos_reg_aggregate"] += 1
            # ties of the two models
            if lg is not None and v["m_sysv"] is not None and lg != v["m_sysv"]:
                stats["model_sysv_loc_mismatch"] += 1
                ck.broken_ties.append({"kind": "correspondence", "name": "sysvProto vs gcc (captured argument locations)",
                                       "first_diff": {"proto": v["proto"], "gcc": lg, "model": v["m_sysv"]}})
            c2m_model_ok = True
            for e in ("-eg", "-ei"):
                if v["locs"][e] is not None and v["m_c2m"] is not None and v["locs"][e] != v["m_c2m"]:
                    c2m_model_ok = False
            if not c2m_model_ok:
                stats["model_c2m_loc_mismatch"] += 1
            if not violated(v):
                if not c2m_model_ok:
                    ck.broken_ties.append({"kind": "correspondence", "name": "c2mProto vs c2m (captured argument locations; c2m agrees with gcc)",
                                           "first_diff": {"proto": v["proto"], "c2m": v["locs"], "model": v["m_c2m"]}})
                continue
            if v["fails"].get("-eg") or v["fails"].get("-ei"):
                stats["value_fail"] += 1
            else:
                stats["loc_c2m_vs_gcc_differ"] += 1
            bad.append((pr, v))

        def shrink_one(x):
            pr, v = x
            pre = signature(pr, v)
            if ck.is_known(pre) and sig_count.get(pre, 0) >= (8 if QUICK else 16):
                stats["not_shrunk_listed_class"] = stats.get("not_shrunk_listed_class", 0) + 1
                return pr, v, pre
            small = shrink(pr)
            lay_ok([t for t in ([small[0]] if small[0] is not None else []) + small[1]])
            sres = run_batch([small])
            sv = evaluate([small], sres, model_locs([small]))[0] if sres else v
            sg = signature(small, sv)
            sig_count[sg] = sig_count.get(sg, 0) + 1
            return small, sv, sg
        # shrink (real compilers) a bounded number per pre-class, the rest only if classes are not uniform
        def preclass(v):
            return json.dumps([sorted(v["fails"]), sorted(b.split(" ")[0][:12] for e in v["fails"] for b in v["fails"][e])])
        groups = {}
        for x in bad:
            groups.setdefault(preclass(x[1]), []).append(x)
        todo, later = [], []
        for g in groups.values():
            todo += g[:cap]
            later.append(g[cap:])
        with ThreadPoolExecutor(max_workers=16) as ex:
            done = list(zip(todo, ex.map(shrink_one, todo)))
        bysig = {}
        for (pr, v), (small, sv, sig) in done:
            bysig.setdefault(preclass(v), set()).add(sig)
        extra = []
        for g in later:
            if not g:
                continue
            sigs = bysig.get(preclass(g[0][1]), set())
            if len(sigs) == 1 and ck.is_known(next(iter(sigs))):
                stats["not_shrunk_same_known_class"] = stats.get("not_shrunk_same_known_class", 0) + len(g)
                sg = next(iter(sigs))
                stats["classes"][sg] = stats["classes"].get(sg, 0) + len(g)
            else:
                extra += g
        if extra:
            with ThreadPoolExecutor(max_workers=16) as ex:
                done += list(zip(extra, ex.map(shrink_one, extra)))
        for (pr, v), (small, sv, sig) in done:
            if sig in ("C08:class-nested-aggregate-straddles-eightbyte", "C08:class-zero-width-bitfield-integer") and any(
                    sv["locs"].get(e) is not None and sv.get("m_c2m") is not None and sv["locs"][e] != sv["m_c2m"] for e in ("-eg", "-ei")):
                # the listed classification findings are what c2mClassify (model of the unchanged code) predicts;
                # argument locations it does not predict are a new deviation
                sig = "C08:code-deviates-from-model-of-current-code:" + sig.split(":", 1)[-1]
            if origin == "corpus-regression":
                sig = "C08:regression-of-fixed-finding:" + sig.split(":", 1)[-1]   # never listed: always a VIOLATION
            stats["classes"][sig] = stats["classes"].get(sig, 0) + 1
            if (sig, proto_str(small)) in reported:
                stats["duplicate_reports_suppressed"] = stats.get("duplicate_reports_suppressed", 0) + 1
                continue
            reported.add((sig, proto_str(small)))
            b = Batch([small])
            ck.violation({"stage": "tie", "theorem_or_correspondence": "passing: c2m vs gcc (class_meets_sysv / values intact)",
                          "input": {"kind": "proto", "proto": proto_str(small), "found_in": v["proto"], "origin": origin,
                                    "user_c": b.user_c(), "lib_c": b.lib_c()},
                          "model_output": {"c2mProto": model_full(small)[0], "sysvProto": model_full(small)[1]},
                          "impl_output": {"fails": sv["fails"], "arg_locations": sv["locs"]},
                          "spec_verdict": "aggregate passed/returned by value does not arrive intact or travels in other registers than the platform compiler uses",
                          "how_to_rerun": "cd /verif && ./check C08 --replay <this file>  (gcc -shared -fPIC lib.c -o libx.so; c2m -L . -lx user.c -eg)"},
                         what=f"by-value passing `{proto_str(small)}`: {sv['fails']} locs={sv['locs']}", signature=sig)

    def small_scope_protos():
        import itertools as it
        scs = ["char", "int", "long", "float", "double", "ldouble"]
        aggs = []
        for u in (False, True):
            aggs += [("agg", u, [("p", ("sc", a))]) for a in scs]
            aggs += [("agg", u, [("p", ("sc", a)), ("p", ("sc", b))]) for a, b in it.product(scs, repeat=2)]
        aggs += [("agg", False, [("p", ("sc", "int")), ("p", ("agg", False, [("p", ("sc", x)), ("p", ("sc", y))]))])
                 for x, y in it.product(["int", "float"], repeat=2)]
        pre = [("sc", "long")] * 5 + [("sc", "double")] * 7
        out = []
        for t in aggs:
            out.append((t, [t]))
            out.append((None, pre + [t]))
        return out, len(aggs)

    def boundary_protos():
        """each register-class pattern (I,S,II,SS,IS,SI) behind systematically counted scalars, followed by one
        long and one double, so that the aggregate ends one before, exactly at and one past the last register of
        each file; both call directions, both engines.  SSE scalars alternate double / float.
          - no long double: every count 0..9 of INTEGER scalars, of SSE scalars, and the 3x3 grid around 6 / 8
          - 1 and 2 long double scalars (first parameter; second one right before the aggregate): 0..6 INTEGER
            scalars for the patterns with an INTEGER eightbyte, 0..8 SSE scalars for those with an SSE eightbyte
          - thorough: the full grid 0..6 x 0..8 x 0..2
          - enumerated types on the int/unsigned/long boundaries as scalar parameter and struct members"""
        L, D, F, LD = ("sc", "long"), ("sc", "double"), ("sc", "float"), ("sc", "ldouble")
        pats = {"I": [L], "S": [D], "II": [L, L], "SS": [D, D], "IS": [L, D], "SI": [D, L]}
        pairs = [(i, 0) for i in range(10)] + [(0, f) for f in range(1, 10)] + [(i, f) for i in (4, 5, 6) for f in (6, 7, 8)]
        out, seen = [], set()

        def add(ps):
            k = proto_str((None, ps))
            if k not in seen:
                seen.add(k)
                out.append((None, ps))

        def params(ni, nf, nld, t):
            sse = [D if j % 2 == 0 else F for j in range(nf)]
            return ([LD] if nld >= 1 else []) + [L] * ni + sse + ([LD] if nld >= 2 else []) + [t, L, D]
        for name, ms in pats.items():
            t = ("agg", False, [("p", m) for m in ms])
            for ni, nf in pairs:
                add(params(ni, nf, 0, t))
            for nld in (1, 2):
                if "I" in name:
                    for ni in range(7):
                        add(params(ni, 0, nld, t))
                if "S" in name:
                    for nf in range(9):
                        add(params(0, nf, nld, t))
            if not QUICK:
                for ni in range(7):
                    for nf in range(9):
                        for nld in range(3):
                            add(params(ni, nf, nld, t))
        for en in G.ENUM_NAMES:
            e = ("sc", en)
            add([e, ("agg", False, [("p", e), ("p", F)]), ("agg", False, [("p", e), ("p", e)]), L])
        # arrays as members (classify_arg TM_ARR replicates the element's eightbyte classes): 1..3 elements of
        # 16-byte structs with two different classes, of 8-byte structs, of long double; as parameter and as
        # return value
        I4 = ("sc", "int")
        S = lambda *ms: ("agg", False, [("p", m) for m in ms])
        els = [S(L, D), S(D, L), S(D, D), S(L, L), S(F, F, L), S(L, F), S(I4, F), S(F, I4), S(F, F), S(D), S(L),
               ("agg", True, [("p", L), ("p", D)]), LD, D, F, L]
        for el in els:
            for n in (1, 2, 3):
                a = ("arr", n, el)
                for t in (S(a), S(a, L), S(D, a)) if n == 1 else (S(a),):
                    out.append((None, [L, t, D]))
                    out.append((t, [D]))
        return out

    cps = [proto_from_str(c["proto"]) for c in cases if c.get("expect") != "pass"]
    if cps:
        process(cps, "corpus")
    regs = [proto_from_str(c["proto"]) for c in cases if c.get("expect") == "pass"]
    if regs:   # replays of fixed findings: any failure here is reported, whatever class it looks like
        before = dict(stats["classes"])
        process(regs, "corpus-regression")
        stats["regressions_replayed"] = len(regs)
        stats["regressions_failing"] = sum(n - before.get(k, 0) for k, n in stats["classes"].items()
                                           if k.startswith("C08:regression-of-fixed-finding:"))
    if not ck.replay:
        bp = boundary_protos()
        before = stats["protos"]
        for i in range(0, len(bp), 84):
            process(bp[i:i + 84], f"boundary {i}")
        stats["boundary"] = {"protos": stats["protos"] - before,
                             "rule": "6 class patterns (I,S,II,SS,IS,SI) x ({0..9 long} u {0..9 double/float} u {4,5,6}x{6,7,8}; with 1 and 2 "
                                     "long double scalars: 0..6 long resp. 0..8 double/float" + ("" if QUICK else "; full grid 0..6 x 0..8 x 0..2") +
                                     ") preceding scalars, then long, double; boundary enums as scalar and struct members"}
    if not ck.replay:
        nb, per = (2, 60) if QUICK else (12, 100)
        for i in range(nb):
            batch = [gen_proto(ck.rng) for _ in range(per)]
            if i == 0:
                for pr in batch[:3]:
                    ck.sample({"proto": proto_str(pr)})
            process(batch, f"seed={ck.seed} pbatch={i}")
    if not ck.replay and not QUICK:
        sp, nagg = small_scope_protos()
        before = stats["protos"]
        for i in range(0, len(sp), 90):
            process(sp[i:i + 90], f"small-scope {i}")
        stats["small_scope"] = {"protos": stats["protos"] - before,
                                "rule": f"all {nagg} struct/union of 1..2 members over char,int,long,float,double,long double (plus 4 nested "
                                        "straddling structs), each as sole parameter + return value and as 13th parameter after 5 long and 7 double"}
    ck.log("passing tie:", stats)
    return stats
