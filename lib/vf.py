"""Shared machinery for the MIR verification checks (see DESIGN.md section 2.3).

Every check script in /verif/checks/cXX.py uses one `Check` object:

    ck = Check("C12")                    # parses --tier/--replay, VERIF_SEED, VERIF_TIER
    ck.proof_gate(["MirVerif.Props.C12"], exes=["mirdrv_c12"])   # lake build + axiom audit
    exe = ck.cc("c12_reduce", ["harness/c12_reduce.c"], flags=[...])  # harness from /repo's tree
    ...
    ck.violation({...}, what="...")      # writes replays/C12-<n>.json, prints VIOLATION line
    ck.finish()                          # writes evidence/C12.json, exits 0/1

Stdlib only (python3 of the sandbox has no third-party packages).
"""
import argparse, fcntl, hashlib, json, os, re, subprocess, sys, time, shutil, random

VERIF = os.path.dirname(os.path.dirname(os.path.abspath(__file__)))
REPO = os.environ.get("VERIF_REPO", "/repo")
LEAN = os.path.join(VERIF, "lean")
CACHE = os.path.join(VERIF, ".cache")
ALLOWED_AXIOMS = {"propext", "Classical.choice", "Quot.sound"}
FORBIDDEN_RE = re.compile(
    r"\b(sorry|admit|native_decide|implemented_by|unsafe)\b|^\s*axiom\s|maxHeartbeats\s+0\b")


def sh(cmd, **kw):
    """run a command, return (rc, stdout+stderr)"""
    kw.setdefault("stdout", subprocess.PIPE)
    kw.setdefault("stderr", subprocess.STDOUT)
    kw.setdefault("text", True)
    p = subprocess.run(cmd, **kw)
    return p.returncode, p.stdout


def file_hash(paths, extra=""):
    h = hashlib.sha256()
    h.update(extra.encode())
    for p in paths:
        h.update(p.encode())
        try:
            with open(p, "rb") as f:
                h.update(f.read())
        except OSError:
            h.update(b"<missing>")
    return h.hexdigest()[:20]


def repo_sources():
    """every file of /repo a harness may include (top-level, c2mir/, mir2c/, mir-utils/)"""
    out = []
    for d in ["", "c2mir", "c2mir/x86_64", "mir2c", "mir-utils"]:
        dd = os.path.join(REPO, d)
        if not os.path.isdir(dd):
            continue
        for f in sorted(os.listdir(dd)):
            if f.endswith((".c", ".h")):
                out.append(os.path.join(dd, f))
    return out


class SplitMix:
    """deterministic PRNG shared by python-side generators (one state per check run)"""

    def __init__(self, seed):
        self.s = seed & 0xFFFFFFFFFFFFFFFF

    def next(self):
        self.s = (self.s + 0x9E3779B97F4A7C15) & 0xFFFFFFFFFFFFFFFF
        z = self.s
        z = ((z ^ (z >> 30)) * 0xBF58476D1CE4E5B9) & 0xFFFFFFFFFFFFFFFF
        z = ((z ^ (z >> 27)) * 0x94D049BB133111EB) & 0xFFFFFFFFFFFFFFFF
        return z ^ (z >> 31)

    def below(self, n):
        return self.next() % n if n > 0 else 0

    def choice(self, xs):
        return xs[self.below(len(xs))]

    def chance(self, num, den):
        return self.below(den) < num


class Check:
    def __init__(self, pid, argv=None, level="proof"):
        ap = argparse.ArgumentParser()
        ap.add_argument("--tier", default=os.environ.get("VERIF_TIER", "quick"))
        ap.add_argument("--replay", default=None)
        ap.add_argument("--seed", type=int, default=None)
        a = ap.parse_args(argv)
        self.pid = pid
        self.tier = "thorough" if a.tier.startswith("t") else "quick"
        self.replay = a.replay
        seed = a.seed if a.seed is not None else int(os.environ.get("VERIF_SEED", "1") or 1)
        self.seed = seed
        self.rng = SplitMix(seed * 1000003 + sum(map(ord, pid)))
        self.level = level
        self.t0 = time.time()
        self.cov = {"obligations": 0, "discharged": 0, "checker_cmd": "", "trusted_base": [],
                    "theorems": [], "evaluations": 0, "distinct_nontrivial": 0, "rule": "",
                    "samples": [], "stages": []}
        self.assumptions = []
        self.n_viol = 0
        self.known = [k for k in self._load_known() if k.get("property") == pid]
        self.known_seen = []
        self.broken_ties = []
        os.makedirs(os.path.join(VERIF, "evidence"), exist_ok=True)
        os.makedirs(os.path.join(VERIF, "replays"), exist_ok=True)
        os.makedirs(CACHE, exist_ok=True)

    # ------------------------------------------------------------------ logging
    def log(self, *a):
        print(f"[{self.pid} {time.time() - self.t0:6.1f}s]", *a, flush=True)

    def stage(self, name, **info):
        d = {"stage": name, "t": round(time.time() - self.t0, 1)}
        d.update(info)
        self.cov["stages"].append(d)

    # ------------------------------------------------------------------ known findings
    def _load_known(self):
        out = []
        files = [os.path.join(VERIF, "known_findings.json")]
        d = os.path.join(VERIF, "known_findings.d")
        if os.path.isdir(d):
            files += [os.path.join(d, f) for f in sorted(os.listdir(d)) if f.endswith(".json")]
        for p in files:
            if os.path.exists(p):
                with open(p) as f:
                    out += json.load(f).get("findings", [])
        return out

    def is_known(self, signature):
        for k in self.known:
            if k.get("status") == "known" and k.get("signature") == signature:
                return k
        return None

    # ------------------------------------------------------------------ building C harnesses
    def cc(self, name, sources, flags=(), deps=None, compiler="gcc", libs=("-lm", "-ldl", "-lpthread")):
        """compile a harness against /repo's *current* tree; cached by content hash of all of
        /repo's C sources + harness sources + flags.  Returns path of the executable, or None
        (and records the compile log) if compilation failed."""
        srcs = [s if os.path.isabs(s) else os.path.join(VERIF, s) for s in sources]
        # headers of /verif/harness that the given sources (transitively) include
        hdir = os.path.join(VERIF, "harness")
        hdeps, todo = set(), [x for x in srcs if x.startswith(VERIF)]
        while todo:
            f = todo.pop()
            try:
                txt = open(f, errors="replace").read()
            except OSError:
                continue
            for m in re.findall(r'#\s*include\s*"([^"]+)"', txt):
                h = os.path.join(hdir, os.path.basename(m))
                if os.path.exists(h) and h not in hdeps:
                    hdeps.add(h)
                    todo.append(h)
        hdeps = sorted(hdeps)
        key = file_hash(repo_sources() + srcs + hdeps + list(deps or []), " ".join(flags) + compiler + REPO)
        d = os.path.join(CACHE, "bin")
        os.makedirs(d, exist_ok=True)
        exe = os.path.join(d, f"{name}-{key}")
        if os.path.exists(exe):
            try:
                os.utime(exe, None)   # in use: keep it young, so that no concurrent run evicts it
            except OSError:
                pass
            return exe
        # keep the cache small, but never delete a binary another concurrent run may be using:
        # only binaries of the same harness not used for 6 hours go
        now = time.time()
        for f in os.listdir(d):
            if f.startswith(name + "-"):
                fp = os.path.join(d, f)
                try:
                    if now - os.path.getmtime(fp) > 6 * 3600:
                        os.remove(fp)
                except OSError:
                    pass
        cmd = [compiler, "-I" + REPO, "-I" + os.path.join(VERIF, "harness"), "-DMIR_VERIF", *flags, *srcs, "-o", exe + ".tmp", *libs]
        t = time.time()
        rc, out = sh(cmd)
        self.log(f"cc {name}: rc={rc} {time.time() - t:.1f}s")
        if rc != 0:
            self.last_cc_log = out
            self.log(out[-3000:])
            return None
        os.replace(exe + ".tmp", exe)
        return exe

    def cc_par(self, jobs):
        """compile several harnesses concurrently: jobs = [(name, sources, flags)] -> {name: exe}"""
        from concurrent.futures import ThreadPoolExecutor
        with ThreadPoolExecutor(max_workers=8) as ex:
            futs = {j[0]: ex.submit(self.cc, *j) for j in jobs}
            return {k: f.result() for k, f in futs.items()}

    # ------------------------------------------------------------------ Lean
    def lake(self, targets, timeout=3000):
        """lake build under an exclusive lock (several checks may run at once)"""
        lock = open(os.path.join(CACHE, "lake.lock"), "w")
        fcntl.flock(lock, fcntl.LOCK_EX)
        try:
            t = time.time()
            rc, out = sh(["lake", "build", *targets], cwd=LEAN, timeout=timeout)
            self.log(f"lake build {' '.join(targets)}: rc={rc} {time.time() - t:.1f}s")
            return rc, out
        finally:
            fcntl.flock(lock, fcntl.LOCK_UN)
            lock.close()

    def regenerate(self, translators):
        """run T1 translators (python scripts in /verif/translate) that rewrite lean/MirVerif/Gen/*.lean
        from /repo's current tree.  Returns list of (translator, rc, output)."""
        res = []
        lock = open(os.path.join(CACHE, "lake.lock"), "w")
        fcntl.flock(lock, fcntl.LOCK_EX)
        try:
            for t in translators:
                rc, out = sh([sys.executable, os.path.join(VERIF, "translate", t)], cwd=VERIF)
                res.append((t, rc, out))
                if rc != 0:
                    self.log(f"translator {t} failed:\n{out[-2000:]}")
        finally:
            fcntl.flock(lock, fcntl.LOCK_UN)
            lock.close()
        return res

    def lean_module_files(self, modules):
        return [os.path.join(LEAN, m.replace(".", "/") + ".lean") for m in modules]

    def grep_forbidden(self, files):
        """forbidden constructs outside comments"""
        hits = []
        for f in files:
            try:
                src = open(f).read()
            except OSError:
                continue
            src = re.sub(r"/-.*?-/", lambda m: "\n" * m.group(0).count("\n"), src, flags=re.S)
            for i, line in enumerate(src.split("\n"), 1):
                line = line.split("--")[0]
                if FORBIDDEN_RE.search(line):
                    hits.append(f"{os.path.relpath(f, VERIF)}:{i}: {line.strip()}")
        return hits

    def count_theorems(self, files):
        n = []
        for f in files:
            try:
                src = open(f).read()
            except OSError:
                continue
            src = re.sub(r"/-.*?-/", "", src, flags=re.S)
            src = re.sub(r"--[^\n]*", "", src)
            n += re.findall(r"^\s*(?:@\[[^\]]*\]\s*)?(?:private\s+|protected\s+)?theorem\s+([^\s:({\[]+)", src, flags=re.M)
        return n

    def audit(self, modules, bridge_modules=()):
        """#print axioms for every theorem of the given modules.  Returns (ok, {thm: [axioms]})"""
        allm = list(modules) + list(bridge_modules)
        src = "import MirVerif.Audit\n" + "".join(f"import {m}\n" for m in allm) + \
              "".join(f"#audit_module {m}\n" for m in allm)
        p = os.path.join(CACHE, f"audit_{self.pid}.lean")
        with open(p, "w") as f:
            f.write(src)
        rc, out = sh(["lake", "env", "lean", p], cwd=LEAN)
        thms = {}
        for line in out.split("\n"):
            m = re.match(r".*AUDIT (\S+) (\S+) \[(.*)\]", line)
            if m:
                thms[m.group(2)] = (m.group(1), [a for a in m.group(3).split(",") if a])
        bad = []
        for t, (mod, axs) in thms.items():
            for a in axs:
                if a in ALLOWED_AXIOMS:
                    continue
                if "bv_decide" in a and mod in bridge_modules:
                    continue
                bad.append(f"{t}: {a}")
        return rc == 0 and not bad, thms, bad, out

    def proof_gate(self, prop_modules, support_modules=(), bridge_modules=(), exes=(), translators=()):
        """Stage 2+3 of the protocol.  Returns True when every obligation is discharged.
        On failure records the failing theorem/module names in self.broken_ties (the caller then
        runs its search stage and finally calls proof_failed_verdict())."""
        ok = True
        if translators:
            for t, rc, out in self.regenerate(translators):
                if rc != 0:
                    ok = False
                    self.broken_ties.append({"kind": "translator", "name": t, "log": out[-1500:]})
        targets = list(prop_modules) + list(bridge_modules) + list(exes)
        rc, out = self.lake(targets)
        files = self.lean_module_files(list(prop_modules) + list(bridge_modules))
        names = self.count_theorems(files)
        self.cov["obligations"] = len(names)
        self.cov["checker_cmd"] = (f"cd /verif/lean && lake build {' '.join(targets)} && "
                                   f"lake env lean <audit: #audit_module {' '.join(list(prop_modules) + list(bridge_modules))}>")
        if rc != 0:
            ok = False
            errs = re.findall(r"error: ([^\n]*\.lean):(\d+):(\d+): ([^\n]*)", out)
            failing = sorted({f"{os.path.basename(f)}:{l}: {msg[:160]}" for f, l, c, msg in errs})
            self.broken_ties.append({"kind": "lake-build", "targets": targets, "errors": failing[:20],
                                     "log_tail": out[-2500:]})
            self.cov["discharged"] = max(0, len(names) - max(1, len(failing)))
            self.log("PROOF GATE FAILED\n" + out[-3000:])
            self.stage("proof", ok=False)
            return False
        allfiles = self.lean_module_files(list(prop_modules) + list(support_modules) + list(bridge_modules))
        hits = self.grep_forbidden(allfiles + self._imported_files(allfiles))
        aok, thms, bad, aout = self.audit(prop_modules, bridge_modules)
        self.cov["theorems"] = [{"name": t, "module": m, "axioms": axs} for t, (m, axs) in sorted(thms.items())]
        # the audited theorem list (what the kernel accepted, private theorems included) is authoritative;
        # the textual count is kept for information (it also sees theorems inside comment blocks)
        self.cov["obligations"] = len(thms)
        self.cov["source_theorem_count"] = len(names)
        self.cov["discharged"] = len(thms) if (aok and not hits) else max(0, len(thms) - len(bad) - len(hits))
        axset = sorted({a for _, (m, axs) in thms.items() for a in axs})
        self.cov["trusted_base"] = ["Lean 4 kernel (lake build)"] + [f"axiom {a}" for a in axset]
        if hits or not aok:
            ok = False
            self.broken_ties.append({"kind": "audit", "forbidden": hits, "bad_axioms": bad,
                                     "log_tail": aout[-1500:] if not aok else ""})
            self.log("AUDIT FAILED", hits, bad, aout[-1500:] if not aok else "")
        self.stage("proof", ok=ok, theorems=len(thms))
        return ok

    def _imported_files(self, files):
        """transitive closure of `import MirVerif.*` below the given files"""
        seen, todo = set(files), list(files)
        while todo:
            f = todo.pop()
            try:
                src = open(f).read()
            except OSError:
                continue
            for m in re.findall(r"^import (MirVerif\.[\w.]+)", src, flags=re.M):
                p = os.path.join(LEAN, m.replace(".", "/") + ".lean")
                if p not in seen:
                    seen.add(p)
                    todo.append(p)
        return sorted(seen - set(files))

    def leanchecker(self, modules):
        res = []
        for m in modules:
            rc, out = sh(["lake", "env", "leanchecker", m], cwd=LEAN)
            res.append((m, rc))
            if rc != 0:
                self.broken_ties.append({"kind": "leanchecker", "module": m, "log_tail": out[-1000:]})
        self.stage("leanchecker", results=res)
        return all(rc == 0 for _, rc in res)

    def drv(self, exe, args=(), inp=None, timeout=600):
        """run a compiled Lean driver (lean/.lake/build/bin/<exe>)"""
        p = os.path.join(LEAN, ".lake", "build", "bin", exe)
        r = subprocess.run([p, *args], input=inp, stdout=subprocess.PIPE, stderr=subprocess.PIPE,
                           text=True, timeout=timeout)
        return r.returncode, r.stdout, r.stderr

    # ------------------------------------------------------------------ verdicts
    def _next_replay(self):
        n = 1
        while os.path.exists(os.path.join(VERIF, "replays", f"{self.pid}-{os.getpid()}-{n}.json")):
            n += 1
        return os.path.join(VERIF, "replays", f"{self.pid}-{os.getpid()}-{n}.json")

    def violation(self, replay, what, signature=None, found_input=True):
        """report one violation (or a KNOWN-FINDING if its signature is listed)"""
        if signature:
            k = self.is_known(signature)
            if k:
                if signature not in self.known_seen:
                    self.known_seen.append(signature)
                    print(f"KNOWN-FINDING: property={self.pid} {k.get('what', what)}", flush=True)
                return False
        path = self._next_replay()
        replay = dict(replay)
        replay.setdefault("property", self.pid)
        replay.setdefault("what", what)
        replay.setdefault("signature", signature)
        replay.setdefault("seed", self.seed)
        replay.setdefault("tier", self.tier)
        with open(path, "w") as f:
            json.dump(replay, f, indent=1, default=str)
        self.n_viol += 1
        tail = "" if found_input else " no-failing-input-found"
        print(f"VIOLATION property={self.pid} replay={path}{tail}", flush=True)
        self.log("violation:", what)
        return True

    def broken_tie_verdict(self, searched=""):
        """call after the search stage when a proof/tie gate broke but no failing input was found"""
        if self.broken_ties and self.n_viol == 0:
            self.violation({"stage": "proof-or-tie", "broken": self.broken_ties, "search": searched},
                           what="proof obligation or correspondence no longer checks: " +
                                "; ".join(str(b.get("kind")) + ":" + str(b.get("name", b.get("targets", "")))
                                          for b in self.broken_ties),
                           found_input=False)

    def sample(self, x, cap=8):
        if len(self.cov["samples"]) < cap:
            self.cov["samples"].append(x)

    def finish(self):
        for k in self.known:
            # known findings that are pinned by a check are reported by that check via violation();
            # nothing is printed here for entries the run did not re-observe
            pass
        self.broken_tie_verdict()
        ev = {"property_id": self.pid, "tier": self.tier, "seed": self.seed, "level": self.level,
              "coverage": self.cov, "assumptions": self.assumptions,
              "wall_s": round(time.time() - self.t0, 2), "violations": self.n_viol}
        self.cov["known_findings_seen"] = self.known_seen
        evdir = os.path.join(VERIF, "evidence")
        if os.path.realpath(REPO) != "/repo":   # run against a scratch worktree (seeded change): keep /verif/evidence for /repo
            evdir = os.path.join(VERIF, ".cache", "scratch-evidence")
            os.makedirs(evdir, exist_ok=True)
        with open(os.path.join(evdir, f"{self.pid}.json"), "w") as f:
            json.dump(ev, f, indent=1, default=str)
        self.log(f"done: violations={self.n_viol} obligations={self.cov['obligations']} "
                 f"discharged={self.cov['discharged']} evaluations={self.cov['evaluations']}")
        sys.exit(1 if self.n_viol else 0)
