"""Run generated MIR programs through the engine harness, compare engines, isolate and shrink failures.
Used by C01 (engines interp vs gen -O0..3), C03 (interfaces), C04, C16, C20."""
import os, struct, subprocess, shutil, copy
from concurrent.futures import ThreadPoolExecutor
import mirgen


def dbits(x):
    return struct.unpack("<Q", struct.pack("<d", x))[0]


def plan_for(entries, argsets):
    return "".join(f"prog {e} {a[0]:x} {a[1]:x} {a[2]:x} {a[3]:x} {dbits(a[4]):x} {dbits(a[5]):x}\n"
                   for e in entries for a in argsets)


def run_engine(exe, engines, mirtext, plan, workdir, tag, timeout=120, quiet=True):
    """returns (rc, lines, stderr)"""
    path = os.path.join(workdir, f"{tag}.mir")
    with open(path, "w") as f:
        f.write(mirtext)
    try:
        p = subprocess.run([exe, ",".join(engines), path] + (["-q"] if quiet else []), input=plan,
                           stdout=subprocess.PIPE, stderr=subprocess.PIPE, text=True, timeout=timeout)
        return p.returncode, p.stdout.split("\n"), p.stderr
    except subprocess.TimeoutExpired:
        return -99, [], "timeout"


def parse(lines):
    """-> list of dict(entry, args, same(bool), results[list])"""
    out = []
    errs = []
    for ln in lines:
        if ln.startswith("P "):
            left, right = ln[2:].split(" | ")
            lt = left.split()
            rs = right.split()
            same = rs[0].startswith("=")
            out.append({"entry": lt[0], "args": lt[1:], "same": same, "results": rs})
        elif ln.startswith("E "):
            errs.append(ln)
    return out, errs


def check_batch(exe, engines, progs, argsets, workdir, tag):
    """progs: list of (Prog, entries). Returns list of failures: dict(prog, entry, args, results, kind)"""
    text = "".join(P.text() for P, _ in progs)
    plan = plan_for([e for _, es in progs for e in es], argsets)
    rc, lines, err = run_engine(exe, engines, text, plan, workdir, tag)
    res, errs = parse(lines)
    nexp = sum(len(es) for _, es in progs) * len(argsets)
    fails = []
    if rc != 0 or errs or len(res) != nexp:
        if len(progs) == 1:
            P, es = progs[0]
            fails.append({"prog": P, "entry": es[0], "args": None, "kind": "engine-abort",
                          "results": (errs + [err.strip()[-300:]])[:3], "rc": rc})
            return fails, 0
        # isolate: run each program alone
        n = 0
        for i, pe in enumerate(progs):
            f, k = check_batch(exe, engines, [pe], argsets, workdir, f"{tag}_{i}")
            fails += f
            n += k
        return fails, n
    byentry = {e: P for P, es in progs for e in es}
    for r in res:
        if not r["same"]:
            fails.append({"prog": byentry[r["entry"]], "entry": r["entry"], "args": r["args"], "kind": "engines-differ",
                          "results": r["results"]})
    return fails, len(res)


def still_fails(exe, engines, P, entry, args, workdir, kind):
    plan = ("prog " + entry + " " + " ".join(args) + "\n") if args else plan_for([entry], mirgen.ARGSETS)
    rc, lines, err = run_engine(exe, engines, P.text(), plan, workdir, "shrink", timeout=25)
    res, errs = parse(lines)
    if kind == "engine-abort":
        return rc != 0 or bool(errs)
    if rc != 0 or errs or not res:
        return False
    # reference engine must still run cleanly (no signal) and some engine must differ
    r = res[0]
    if r["same"]:
        return False
    if r["results"][0].startswith("!"):
        return False
    return True


def glued(insns, j):
    """insn j must stay with insn j-1 (extension of a 32-bit result, branch on overflow flag)"""
    x, p = insns[j], insns[j - 1]
    if x[0] in ("bo", "bno", "ubo", "ubno"):
        return True
    return False


def shrink(exe, engines, fail, workdir, budget=120):
    """greedy removal of body pieces (generator groups) and helper calls while the failure persists"""
    P = copy.deepcopy(fail["prog"])
    entry, args, kind = fail["entry"], fail["args"], fail["kind"]
    fi = [i for i, f in enumerate(P.funcs) if f[0] == entry][0]
    name, header, locs, insns = P.funcs[fi]
    insns = list(insns)
    # protected: prologue (up to first block label) and epilogue (from END label)
    first = next(i for i, x in enumerate(insns) if x[0] == "label")
    last = max(i for i, x in enumerate(insns) if x[0] == "label" and "_END" in x[1])
    tries = 0
    chunk = max(1, (last - first) // 4)
    while chunk >= 1 and tries < budget:
        i = first
        progress = False
        while i < last and tries < budget:
            rm = {j for j in range(i, min(i + chunk, last))
                  if insns[j][0] != "label" and "fuel" not in insns[j][1:]
                  and not any(isinstance(a, str) and a[:2] == "sn" and a[2:].isdigit() for a in insns[j][1:])
                  and not (insns[j][0] in ("ext32", "uext32") and insns[j][1] == insns[j][2])}
            changed = True
            while changed:   # keep glued units together (S-op + ext, overflow op + bo)
                changed = False
                for j in list(rm):
                    if j + 1 < last and glued(insns, j + 1) and j + 1 not in rm:
                        rm.add(j + 1); changed = True
                    if glued(insns, j) and j - 1 not in rm and j - 1 >= first:
                        rm.add(j - 1); changed = True
            cand = [x for j, x in enumerate(insns) if j not in rm]
            if len(cand) < len(insns):
                P.funcs[fi] = (name, header, locs, cand)
                tries += 1
                if still_fails(exe, engines, P, entry, args, workdir, kind):
                    removed = len(insns) - len(cand)
                    insns = cand
                    last -= removed
                    progress = True
                    continue
            i += chunk
        if not progress or chunk == 1:
            chunk //= 2
        P.funcs[fi] = (name, header, locs, insns)
    P.funcs[fi] = (name, header, locs, insns)
    return P


def run_programs(ck, exe, engines, nprogs, opts=None, argsets=None, per_batch=12, workers=14, name="m", budget_s=None):
    """generate nprogs programs from ck.rng, run in parallel batches.  Returns (failures, nevals, stats).
    budget_s: wall-clock budget; batches not started when it is used up are skipped and counted in
    stats["skipped_batches"] (a broken tree can make generated code hang until the per-call alarm)"""
    import time
    t_end = None if budget_s is None else time.time() + budget_s
    argsets = argsets or mirgen.ARGSETS
    work = os.path.join(os.path.dirname(os.path.dirname(os.path.abspath(__file__))), ".cache", f"prog_{ck.pid}_{os.getpid()}")
    os.makedirs(work, exist_ok=True)
    batches = []
    stats = {}
    k = 0
    while k < nprogs:
        b = []
        for _ in range(min(per_batch, nprogs - k)):
            P, es = mirgen.gen_program(ck.rng, f"{name}{k}", opts=opts)
            for s, v in P.stats.items():
                stats[s] = stats.get(s, 0) + v
            b.append((P, es))
            k += 1
        batches.append(b)
    fails = []
    nev = 0
    with ThreadPoolExecutor(max_workers=workers) as ex:
        def job(b, i):
            if t_end is not None and time.time() > t_end:
                return None
            return check_batch(exe, engines, b, argsets, work, f"b{i}")
        futs = [ex.submit(job, b, i) for i, b in enumerate(batches)]
        for f in futs:
            r = f.result()
            if r is None:
                stats["skipped_batches"] = stats.get("skipped_batches", 0) + 1
                continue
            fl, n = r
            fails += fl
            nev += n
    return fails, nev, stats, work


def shrink_text(exe, engines, text, plan, entry, workdir, kind="engines-differ", budget=200):
    """delta-debugging on the lines of the entry function's body (labels, fuel checks and
    extensions of 32-bit results are kept, so the program stays well defined)"""
    lines = text.split("\n")
    s = next(i for i, l in enumerate(lines) if l.startswith(entry + ":"))
    first = next(i for i in range(s, len(lines)) if lines[i].startswith(entry + "_") and lines[i].endswith(":"))
    last = max(i for i in range(s, len(lines)) if lines[i].startswith(entry + "_END"))

    def fails(ls):
        rc, out, err = run_engine(exe, engines, "\n".join(ls), plan, workdir, "shrinkt", timeout=25)
        res, errs = parse(out)
        if kind == "engine-abort":
            return rc != 0 or bool(errs)
        if rc != 0 or errs or not res:
            return False
        return any((not r["same"]) and not r["results"][0].startswith("!") for r in res)

    def protected(l):
        t = l.split()
        if not t or l.endswith(":"):
            return True
        if "fuel" in l or " sn0" in l or " sn1" in l:
            return True
        if t[0] in ("ext32", "uext32") and len(t) == 3 and t[1].rstrip(",") == t[2]:
            return True
        if t[0] in ("bo", "bno", "ubo", "ubno"):
            return True
        return False
    tries = 0
    chunk = max(1, (last - first) // 4)
    while chunk >= 1 and tries < budget:
        i = first
        progress = False
        while i < last and tries < budget:
            rm = [j for j in range(i, min(i + chunk, last)) if not protected(lines[j])]
            # an overflow insn must keep its branch: drop the pair together
            rm2 = set(rm)
            for j in rm:
                if j + 1 < last and lines[j + 1].split()[:1] and lines[j + 1].split()[0] in ("bo", "bno", "ubo", "ubno"):
                    rm2.add(j + 1)
            if rm2:
                cand = [l for j, l in enumerate(lines) if j not in rm2]
                tries += 1
                if fails(cand):
                    lines = cand
                    last -= len(rm2)
                    progress = True
                    continue
            i += chunk
        if not progress or chunk == 1:
            chunk //= 2
    return "\n".join(lines)
