"""Random generator of well-defined MIR programs (shared by C01, C03, C04, C16, C20).

Every program is a module with an entry function
    p<k>: func i64, p:buf, i64:a0, i64:a1, i64:a2, i64:a3, d:x0, d:x1
plus helper functions it calls.  Well-definedness holds by construction:
  * every register is initialised at function entry; 32-bit results are extended before any 64-bit use;
  * divisors are forced non-zero and positive-small for signed division; shift counts are masked;
  * memory accesses stay inside buf[0..448) or inside an alloca block; narrow accesses at any alignment;
  * every basic block starts with a fuel check, so any CFG (incl. irreducible, switch, jmpi) terminates;
  * float->int conversions are applied only to values of bounded magnitude.
Instructions are kept as tuples so that they can be printed as MIR text (to_text) and in the token
format read by the Lean interpreter MirCore (to_lean)."""

M64 = (1 << 64) - 1

INT3 = ["add", "sub", "mul", "and", "or", "xor"]
INT3S = ["adds", "subs", "muls", "ands", "ors", "xors"]
CMP = ["eq", "ne", "lt", "le", "gt", "ge", "ult", "ule", "ugt", "uge"]
BCMP = ["beq", "bne", "blt", "ble", "bgt", "bge", "ublt", "uble", "ubgt", "ubge"]
MEMT = ["i8", "u8", "i16", "u16", "i32", "u32", "i64", "u64"]
TSIZE = {"i8": 1, "u8": 1, "i16": 2, "u16": 2, "i32": 4, "u32": 4, "i64": 8, "u64": 8, "d": 8, "f": 4, "p": 8}
CONSTS = [0, 1, 2, 3, 5, 7, 8, 16, 31, 32, 63, 64, 127, 128, 130, 255, 256, 1000, 65535, 65536, (1 << 31) - 1, 1 << 31,
          (1 << 32) - 1, 1 << 32, 1 << 40, (1 << 63) - 1, -1, -2, -128, -129, -(1 << 31), -(1 << 31) - 1, -(1 << 63)]


class Prog:
    def __init__(self, name):
        self.name = name
        self.funcs = []      # (name, header, locals, insns)
        self.protos = set()
        self.imports = set()
        self.stats = {}

    def text(self):
        out = [f"{self.name}: module"]
        for p in sorted(self.protos):
            out.append(p)
        for i in sorted(self.imports):
            out.append(f"import {i}")
        out.append("export " + ", ".join(f[0] for f in self.funcs))
        for name, header, locs, insns in self.funcs:
            out.append(f"{name}: func {header}")
            if locs:
                out.append("  local " + ", ".join(locs))
            for ins in insns:
                out.append(fmt_insn(ins))
            out.append("  endfunc")
        out.append("  endmodule")
        return "\n".join(out) + "\n"


LDREGS = ["l0", "l1"]
LOOPREGS = [f"s{x}{d}" for d in (0, 1) for x in "abcnsdeq"]


def fmt_op(o):
    if isinstance(o, tuple):
        if o[0] == "mem":
            _, t, disp, base, index, scale = o[:6]
            alias = o[6] if len(o) > 6 else None
            s = f"{t}:"
            if disp != 0 or (base is None and index is None):
                s += str(disp)
            if base is not None or index is not None:
                s += "(" + (base or "")
                if index is not None:
                    s += f", {index}"
                    if scale != 1:
                        s += f", {scale}"
                s += ")"
            if alias:
                s += ":" + alias
            return s
        if o[0] == "d":
            return repr(float(o[1]))
        if o[0] == "f":
            return repr(float(o[1])) + "f"
    return str(o)


def fmt_insn(ins):
    if ins[0] == "label":
        return f"{ins[1]}:"
    return "  " + ins[0] + (" " + ", ".join(fmt_op(o) for o in ins[1:]) if len(ins) > 1 else "")


class FuncGen:
    def __init__(self, rng, prog, fname, entry=True, helpers=(), opts=None):
        self.r = rng
        self.prog = prog
        self.fname = fname
        self.entry = entry
        self.helpers = list(helpers)
        self.o = dict(nblocks=6, ninsn=8, nint=10, ndbl=4, fuel=40, mem=True, calls=True, fp=True, alloca=True,
                      switch=True, jmpi=True, ovf=True, xcalls=False)
        self.o.update(opts or {})
        self.ins = []
        self.ints = [f"i{k}" for k in range(self.o["nint"])]
        self.dbls = [f"d{k}" for k in range(self.o["ndbl"])]
        self.flts = ["f0", "f1"]
        self.nlab = 0
        self.loopdepth = 0
        self.st = prog.stats

    def stat(self, k):
        self.st[k] = self.st.get(k, 0) + 1

    def lab(self, hint="L"):
        self.nlab += 1
        return f"{self.fname}_{hint}{self.nlab}"

    def emit(self, *ins):
        self.ins.append(tuple(ins))

    def ireg(self):
        return self.r.choice(self.ints)

    def dreg(self):
        return self.r.choice(self.dbls)

    def isrc(self):
        """integer source operand: register or immediate"""
        if self.r.chance(1, 4):
            return self.r.choice(CONSTS) if self.r.chance(3, 4) else (self.r.next() >> self.r.below(64)) - (1 << 62 if self.r.chance(1, 2) else 0)
        return self.ireg()

    def mem(self, t=None, store=False):
        """memory operand inside buf (or the alloca block) with random addressing form"""
        t = t or self.r.choice(MEMT)
        sz = TSIZE[t]
        form = self.r.below(5)
        if self.o["alloca"] and self.r.chance(1, 4):
            base, limit = "tal", 64
        else:
            base, limit = "buf", 448
        if form == 0:
            return ("mem", t, self.r.below(limit - sz + 1), base, None, 1)
        scale = self.r.choice([1, 2, 4, 8])
        maxidx = min(31, (limit - sz) // scale // 2)
        mask = 1
        while mask * 2 - 1 <= maxidx:
            mask *= 2
        mask -= 1
        idx = "tx"
        self.emit("and", idx, self.ireg(), mask)
        disp = self.r.below(limit - sz - mask * scale + 1)
        self.stat("mem_indexed")
        if form == 1:
            return ("mem", t, disp, base, idx, scale)
        if form == 2:   # base moved into a temp with negative displacement
            self.emit("add", "tb", base, 72)
            return ("mem", t, disp - 72, "tb", idx, scale)
        if form == 3:   # index only + base folded by add
            self.emit("mul", "tb", idx, scale)
            self.emit("add", "tb", "tb", base)
            return ("mem", t, disp, "tb", None, 1)
        return ("mem", t, disp, base, idx, scale)

    # ---------------------------------------------------------------- straight-line pieces
    def gen_int(self):
        r = self.r
        k = r.below(22)
        d = self.ireg()
        if k <= 2:
            self.emit(r.choice(INT3), d, self.isrc(), self.isrc()); self.stat("int3")
        elif k == 3:
            op = r.choice(INT3S)
            self.emit(op, d, self.isrc(), self.isrc())
            self.emit(r.choice(["ext32", "uext32"]), d, d); self.stat("int3s")
        elif k == 4:
            op = r.choice(["div", "mod", "udiv", "umod", "divs", "mods", "udivs", "umods"])
            self.emit("and", "t0", self.ireg(), 0xff if not r.chance(1, 3) else 0xffffff)
            self.emit("add", "t0", "t0", 1)
            self.emit(op, d, self.isrc(), "t0")
            if op.endswith("s"):
                self.emit(r.choice(["ext32", "uext32"]), d, d)
            self.stat("div")
        elif k == 5:   # division / multiplication by constant powers of two and others
            c = r.choice([1, 2, 4, 8, 16, 256, 1 << 20, 1 << 30, 1 << 31, 1 << 32, 1 << 40, 1 << 62, 3, 5, 10, 130, 1000])
            op = r.choice(["mul", "muls", "div", "divs", "udiv", "udivs", "mod", "umod"])
            if op.endswith("s") and (c & 0xffffffff) == 0:
                c = 8
            self.emit(op, d, self.ireg(), c)
            if op.endswith("s"):
                self.emit(r.choice(["ext32", "uext32"]), d, d)
            self.stat("muldiv_const")
        elif k == 6:
            op = r.choice(["lsh", "rsh", "ursh"])
            if r.chance(1, 2):
                self.emit(op, d, self.isrc(), r.below(64))
            else:
                self.emit("and", "t0", self.ireg(), 63)
                self.emit(op, d, self.isrc(), "t0")
            self.stat("shift")
        elif k == 7:
            op = r.choice(["lshs", "rshs", "urshs"])
            if r.chance(1, 2):
                self.emit(op, d, self.isrc(), r.below(32))
            else:
                self.emit("and", "t0", self.ireg(), 31)
                self.emit(op, d, self.isrc(), "t0")
            self.emit(r.choice(["ext32", "uext32"]), d, d); self.stat("shift")
        elif k == 8:
            op = r.choice(CMP) + ("s" if r.chance(1, 3) else "")
            self.emit(op, d, self.isrc(), self.isrc()); self.stat("cmp")
        elif k == 9:
            self.emit(r.choice(["ext8", "ext16", "ext32", "uext8", "uext16", "uext32"]), d, self.ireg()); self.stat("ext")
            if r.chance(1, 2):   # extension chains (copy_prop rewrites)
                self.emit(r.choice(["ext8", "ext16", "ext32", "uext8", "uext16", "uext32"]), self.ireg(), d)
        elif k == 10:
            if r.chance(1, 2):
                self.emit("neg", d, self.ireg())
            else:
                self.emit("negs", d, self.ireg()); self.emit("ext32", d, d)
            self.stat("neg")
        elif k == 11:
            if r.chance(1, 3):   # swap / rotation of registers (parallel-copy problems of out-of-SSA in loops)
                a, b, c = self.ireg(), self.ireg(), self.ireg()
                t = self.ireg()
                if r.chance(1, 2):
                    self.emit("mov", t, a); self.emit("mov", a, b); self.emit("mov", b, t)
                else:
                    self.emit("mov", t, a); self.emit("mov", a, b); self.emit("mov", b, c); self.emit("mov", c, t)
                self.stat("swap")
            else:
                self.emit("mov", d, self.isrc()); self.stat("mov")
        elif k == 12 and self.o["mem"]:
            t = r.choice(MEMT)
            m = self.mem(t)
            self.emit("mov", d, m); self.stat("load")
        elif k == 13 and self.o["mem"]:
            t = r.choice(MEMT)
            m = self.mem(t, store=True)
            self.emit("mov", m, self.isrc()); self.stat("store")
            if r.chance(1, 2):   # store then load of the same / another type at the same place
                t2 = t if r.chance(1, 2) else r.choice(MEMT)
                if TSIZE[t2] <= TSIZE[t]:
                    self.emit("mov", self.ireg(), ("mem", t2) + m[2:]); self.stat("store_load")
        elif k == 14 and self.o["mem"]:
            # arithmetic directly on memory operands
            m = self.mem(r.choice(["i64", "u64", "i32", "u32", "i16", "u8"]))
            if r.chance(1, 2):
                self.emit(r.choice(INT3), d, self.ireg(), m)
            else:
                self.emit(r.choice(INT3), m, self.ireg(), self.isrc())
            self.stat("mem_arith")
        elif k == 15 and self.o["mem"]:
            # address arithmetic chains (combine / addr re-association)
            c1, c2 = r.choice([1, 2, 3, 4, 8, 32, 64, 65, 128, 130]), r.choice([1, 2, 4, 8])
            prod = c1 * c2
            mask = 3 if 3 * prod + 8 <= 448 else 1 if prod + 8 <= 448 else 0
            self.emit("and", "t0", self.ireg(), mask)
            self.emit("mul", "t1", "t0", c1)
            self.emit("mul", "t1", "t1", c2)
            self.emit("add", "t1", "t1", "buf")
            lim = mask * prod
            if lim + 8 <= 448:
                self.emit("mov", d, ("mem", r.choice(MEMT), r.below(448 - lim - 8 + 1), "t1", None, 1)); self.stat("addr_chain")
        elif k in (16, 17) and self.o["mem"] and self.o["alloca"]:
            # partially overlapping accesses of different widths inside one word (dead-store / forwarding tests):
            # wide store, then a narrower load (or store + wide load) strictly inside it, directly off the
            # alloca block or the buffer, through a constant offset or a computed pointer
            base = "tal" if r.chance(2, 3) else "buf"
            wt = r.choice(["i64", "u64", "i32", "u32", "i16", "u16"])
            nt = r.choice([t for t in MEMT if TSIZE[t] < TSIZE[wt]])
            off = 8 * r.below(7)
            delta = r.below(TSIZE[wt] - TSIZE[nt] + 1)
            self.emit("mov", ("mem", wt, off, base, None, 1), self.isrc())
            if r.chance(1, 2):
                self.emit("add", "tb", base, off + delta)
                nm = ("mem", nt, 0, "tb", None, 1)
            else:
                nm = ("mem", nt, off + delta, base, None, 1)
            if r.chance(2, 3):
                self.emit("mov", d, nm)
            else:
                self.emit("mov", nm, self.isrc())
                self.emit("mov", d, ("mem", wt, off, base, None, 1))
            self.stat("overlap_access")
        elif k == 21:
            # chains of operations with large constants (the optimizer combines the constants)
            BIG = [2147483647, 2147483648, 6442450944, -2147483648, -2147483649, 9223372036854775807, 255, -1]
            op = r.choice(["add", "sub", "mul", "and", "or", "xor"])
            sfx = "s" if r.chance(1, 4) else ""
            self.emit(op + sfx, d, self.ireg(), r.choice(BIG))
            for _ in range(1 + r.below(2)):
                op2 = r.choice([op, op, "add", "sub"])
                self.emit(op2 + sfx, d, d, r.choice(BIG))
            if sfx:
                self.emit("ext32", d, d)
            self.stat("const_chain")
        elif k == 20:
            # address of a register (ADDR, ADDR8/16/32): accesses of the variable's own width, narrower loads and
            # narrower stores through the pointer, next to direct uses of the register
            code, w = r.choice([("addr", 8), ("addr32", 4), ("addr16", 2), ("addr8", 1)])
            full = {8: ["i64", "u64"], 4: ["i32", "u32"], 2: ["i16", "u16"], 1: ["i8", "u8"]}[w]
            narrower = [t for t in ["i8", "u8", "i16", "u16", "i32", "u32"] if TSIZE[t] < w]
            self.emit("mov", "av", self.isrc())
            self.emit(code, "ap", "av")
            for _ in range(1 + r.below(3)):
                kk = r.below(5)
                if kk == 0:
                    self.emit("mov", ("mem", r.choice(full), 0, "ap", None, 1), self.isrc())
                elif kk == 1 and narrower:
                    self.emit("mov", ("mem", r.choice(narrower), 0, "ap", None, 1), self.isrc())
                elif kk == 2:
                    self.emit("mov", self.ireg(), ("mem", r.choice(full), 0, "ap", None, 1))
                elif kk == 3 and narrower:
                    self.emit("mov", self.ireg(), ("mem", r.choice(narrower), 0, "ap", None, 1))
                else:
                    self.emit("mov", "t1", "ap")          # the address travels through a copy
                    self.emit("mov", ("mem", r.choice(full), 0, "t1", None, 1), self.isrc())
            if w == 8:
                self.emit("mov", d, "av")
            else:                                          # only the variable's own width is defined
                self.emit(r.choice(["ext", "uext"]) + str(8 * w), d, "av")
            self.stat("addr_reg")
        elif k == 19 and self.o["mem"] and self.o["alloca"]:
            # alias-annotated accesses to the alloca block: every word has its own alias name (accesses with
            # different non-zero alias names never overlap: true here), mixed with unannotated accesses to the
            # same word (alias 0 may alias anything) -- the cases may_alias_p has to tell apart
            off1, off2 = 8 * r.below(8), 8 * r.below(8)
            a1 = ("mem", "i64", off1, "tal", None, 1, f"w{off1}")
            u1 = ("mem", "i64", off1, "tal", None, 1)
            a2 = ("mem", "i64", off2, "tal", None, 1, f"w{off2}")
            form = r.below(5)
            self.emit("mov", a1, self.isrc())
            if form == 4:
                # the word is reused under another name (as C storage changing its effective type), then read
                # without annotation; an unannotated store closes the episode so later named accesses are exact
                offo = (off1 + 8 * (1 + r.below(7))) % 64
                self.emit("mov", ("mem", "i64", offo, "tal", None, 1), self.isrc())   # the named load is a real load
                self.emit("mov", "t0", a1)
                if r.chance(1, 2):
                    self.emit("mov", ("mem", "i64", off1, "tal", None, 1, f"v{off1}"), self.isrc())
                else:                                                                # two halves under the new name
                    self.emit("mov", ("mem", "i32", off1, "tal", None, 1, f"v{off1}"), self.isrc())
                    self.emit("mov", ("mem", "i32", off1 + 4, "tal", None, 1, f"v{off1}"), self.isrc())
                self.emit("mov", d, u1)
                self.emit("add", d, d, "t0")
                self.emit("mov", u1, d)
                self.stat("alias_reuse")
                return
            if form == 0:      # annotated store, unannotated store to the same word, annotated reload
                self.emit("mov", u1, self.isrc())
            elif form == 1:    # unannotated then annotated
                self.emit("mov", u1, self.isrc()); self.emit("mov", a1, self.isrc())
            elif form == 2:    # another word under its own name in between
                self.emit("mov", a2, self.isrc())
            else:              # same name twice
                self.emit("mov", a1, self.isrc())
            self.emit("mov", d, a1 if r.chance(2, 3) else u1)
            self.stat("alias_access")
        else:
            self.emit(r.choice(INT3), d, self.ireg(), self.ireg()); self.stat("int3")

    def gen_fp(self):
        r = self.r
        k = r.below(11)
        d = self.dreg()
        if k <= 2:
            self.emit(r.choice(["dadd", "dsub", "dmul", "ddiv"]), d, self.dreg(), self.dreg()); self.stat("dop")
        elif k == 3:
            self.emit("and", "t0", self.ireg(), 0xfffff)
            self.emit("i2d", d, "t0"); self.stat("i2d")
        elif k == 4:
            self.emit("and", "t0", self.ireg(), 0xffff)
            self.emit("i2d", "dt", "t0")
            self.emit("dmul", "dt", "dt", ("d", 0.375))
            self.emit("d2i", self.ireg(), "dt"); self.stat("d2i")
        elif k == 5:
            self.emit("d" + r.choice(["eq", "ne", "lt", "le", "gt", "ge"]), self.ireg(), self.dreg(), self.dreg()); self.stat("dcmp")
        elif k == 6 and self.o["mem"]:
            off = r.below(55) * 8
            if r.chance(1, 2):
                self.emit("dmov", ("mem", "d", off, "buf", None, 1), self.dreg())
            else:
                self.emit("dmov", ("mem", "d", off, "buf", None, 1), self.dreg())
                self.emit("dmov", d, ("mem", "d", off, "buf", None, 1))
            self.stat("dmem")
        elif k == 7:
            f = r.choice(self.flts)
            self.emit("d2f", f, self.dreg())
            self.emit(r.choice(["fadd", "fsub", "fmul"]), f, f, r.choice(self.flts))
            self.emit("f2d", d, f); self.stat("fop")
        elif k >= 9:   # long double (x87 paths of the generator)
            l, l2 = r.choice(LDREGS), r.choice(LDREGS)
            kk = r.below(6)
            if kk == 0:
                self.emit("d2ld", l, self.dreg())
            elif kk == 1:
                self.emit(r.choice(["ldadd", "ldsub", "ldmul"]), l, l, l2)
            elif kk == 2:
                self.emit("and", "t0", self.ireg(), 0xffffff)
                self.emit("i2ld", l, "t0")
                self.emit("ldadd", l, l, l2)
            elif kk == 3:
                self.emit("ld" + r.choice(["eq", "ne", "lt", "le", "gt", "ge"]), self.ireg(), l, l2)
            elif kk == 4 and self.o["mem"]:
                off = r.below(27) * 16
                self.emit("ldmov", ("mem", "ld", off, "buf", None, 1), l)
                self.emit("ldmov", l2, ("mem", "ld", off, "buf", None, 1))
            else:
                self.emit("ldneg", l, l2)
            self.emit("ld2d", d, l)
            self.stat("ldop")
        else:
            self.emit("dneg", d, self.dreg()); self.stat("dop")

    def gen_call(self):
        r = self.r
        k = r.below(10 if self.o["xcalls"] else 8)
        P = self.prog
        if k == 8:
            # a call with two results and the same operation applied to each of them
            P.protos.add("pe2r: proto i64, i64, i64:a"); P.imports.add("extpair")
            d1, d2 = self.ireg(), self.ireg()
            self.emit("call", "pe2r", "extpair", "t0", "t1", self.isrc())
            op, c = r.choice(["add", "xor", "mul", "sub"]), r.choice([5, 3, 0x1234, -7])
            self.emit(op, d1, "t0", c)
            self.emit(op, d2, "t1", c)
            if d1 == d2:
                self.emit(op, d1, d1, "t0")
            self.stat("pair_call")
            return
        if k == 9 and self.o["fp"]:
            # a long double local whose address escapes to a call (it must live in memory: two stack slots)
            # while other values stay live across the call
            P.protos.add("pepl: proto p:p, i64:a"); P.imports.add("extld")
            l = r.choice(LDREGS)
            self.emit("ldmov", "lv", l)
            self.emit("addr", "t1", "lv")
            self.emit("call", "pepl", "extld", "t1", self.isrc())
            if r.chance(1, 2):
                self.emit("ldadd", l, l, "lv")
            else:
                self.emit("ldmov", r.choice(LDREGS), ("mem", "ld", 0, "t1", None, 1))
            self.stat("ld_addr_call")
            return
        if k >= 8:
            k = r.below(8)
        if k == 0:
            P.protos.add("pe1: proto i64, i64:a"); P.imports.add("ext1")
            self.emit("call", "pe1", "ext1", self.ireg(), self.isrc())
        elif k == 1:
            P.protos.add("pe2: proto i64, i64:a, i64:b"); P.imports.add("ext2")
            self.emit("call", "pe2", "ext2", self.ireg(), self.isrc(), self.isrc())
        elif k == 2:
            P.protos.add("pe4: proto i64, i64:a, i64:b, i64:c, i64:d"); P.imports.add("ext4")
            self.emit("call", "pe4", "ext4", self.ireg(), self.isrc(), self.isrc(), self.isrc(), self.isrc())
        elif k == 3 and self.o["fp"]:
            P.protos.add("ped: proto d, d:x, i64:a"); P.imports.add("extd")
            self.emit("call", "ped", "extd", self.dreg(), self.dreg(), self.isrc())
        elif k == 4:
            P.protos.add("pev: proto i64:a"); P.imports.add("extv")
            self.emit("call", "pev", "extv", self.isrc())
        elif k == 5 and self.o["mem"]:
            P.protos.add("pep: proto p:p, i64:v"); P.imports.add("extp")
            self.emit("add", "t1", "buf", r.below(55) * 8)
            self.emit("call", "pep", "extp", "t1", self.isrc())
        elif self.helpers:
            h = r.choice(self.helpers)
            P.protos.add("ph: proto i64, i64:a, i64:b, d:x")
            self.emit(r.choice(["call", "call", "inline"]), "ph", h, self.ireg(), self.isrc(), self.isrc(), self.dreg())
            self.stat("mir_call")
            return
        else:
            P.protos.add("pe0: proto i64"); P.imports.add("ext0")
            self.emit("call", "pe0", "ext0", self.ireg())
        self.stat("ext_call")

    def gen_ovf(self):
        r = self.r
        op = r.choice(["addo", "subo", "mulo", "umulo", "addos", "subos", "mulos", "umulos"])
        d = self.ireg()
        l = self.lab("ov")
        if op.startswith("umul"):
            br = r.choice(["ubo", "ubno"])
        elif op.startswith("mul"):
            br = r.choice(["bo", "bno"])
        else:
            br = r.choice(["bo", "bno", "ubo", "ubno"])
        self.emit(op, d, self.isrc(), self.isrc())
        self.emit(br, l)
        self.emit("add", "acc", "acc", 1)
        self.emit("label", l)
        if op.endswith("s"):
            self.emit("ext32", d, d)
        self.stat("ovf")

    def gen_loop(self):
        """a small counted inner loop whose carried registers are swapped / rotated every iteration and read
        only inside the loop (phis reading each other's results: the lost-copy and swap problems of out-of-SSA);
        the body optionally spans several blocks and the carried values are optionally live after the loop"""
        r = self.r
        dep = self.loopdepth
        self.loopdepth += 1
        sa, sb, sc, sn, ss, sd, se, sq = (f"s{x}{dep}" for x in "abcnsdeq")
        head, skip, skipd = self.lab("LH"), self.lab("LS"), self.lab("LD")
        gdiv = r.chance(1, 2)   # a guarded division by a loop-invariant, possibly zero divisor (must not be hoisted)
        if gdiv:
            self.emit("mov", sd, r.choice([0, 0, -1, 1, 3, self.isrc(), self.isrc()]))
            self.emit("mov", se, self.isrc())
        self.emit("mov", sa, self.isrc()); self.emit("mov", sb, self.isrc()); self.emit("mov", sc, self.isrc())
        self.emit("mov", ss, 0)
        self.emit("mov", sn, 1 + r.below(5))
        walk = self.o["mem"] and self.o["alloca"] and r.chance(1, 2)   # loop-carried pointer; an address derived from
        if walk:                                                        # it inside the loop is used after the loop
            self.emit("mov", sq, "tal")
            self.emit("mov", "tb", "tal")
        self.emit("label", head)
        if walk:
            self.emit("add", "tb", sq, 8 * r.below(3))
            if r.chance(1, 2):
                self.emit("xor", ss, ss, ("mem", "i64", 0, "tb", None, 1))
        self.emit("mul", ss, ss, 10)
        self.emit(r.choice(["add", "xor", "sub"]), ss, ss, r.choice([sa, sb]))
        form = r.below(4)
        if form == 0:
            self.emit("mov", "t0", sa); self.emit("mov", sa, sb); self.emit("mov", sb, "t0")
        elif form == 1:
            self.emit("mov", "t0", sa); self.emit("mov", sa, sb); self.emit("mov", sb, sc); self.emit("mov", sc, "t0")
        elif form == 2:   # lost copy: the old value is read after the new one is made
            self.emit("mov", "t0", sa); self.emit("add", sa, sa, 1); self.emit("mov", sb, "t0")
        else:
            self.emit("mov", "t0", sb); self.emit("add", sb, sa, sc); self.emit("mov", sa, "t0")
        if gdiv:
            op = r.choice(["div", "udiv", "mod", "umod", "divs", "udivs", "mods", "umods"])
            if op.endswith("s"):
                self.emit("uext32" if op[0] == "u" else "ext32", "t0", sd)
            else:
                self.emit("mov", "t0", sd)
            self.emit("beq", skipd, "t0", 0)
            if op[0] != "u":
                self.emit("beq", skipd, "t0", -1)
            self.emit(op, "t1", se, sd)
            if op.endswith("s"):
                self.emit("ext32", "t1", "t1")
            self.emit("xor", ss, ss, "t1")
            self.emit("label", skipd)
            self.stat("guarded_div")
        if r.chance(2, 3):   # several blocks in the loop
            self.emit(r.choice(BCMP), skip, self.ireg(), self.isrc())
            if walk or r.chance(1, 2):   # (nothing that could redirect tb while the pointer walk uses it)
                self.emit("add", ss, ss, 0)
            else:
                self.body_insns(1 + r.below(2))
            self.emit("label", skip)
        if walk:
            self.emit("add", sq, sq, 8)
        self.emit("sub", sn, sn, 1)
        self.emit("bgt", head, sn, 0)
        d = self.ireg()
        self.emit("mov", d, ss)
        if walk:
            if r.chance(1, 2):
                self.emit("xor", d, d, ("mem", "i64", 0, "tb", None, 1))
            else:
                self.emit("mov", ("mem", "i64", 0, "tb", None, 1), self.ireg())
            self.stat("loop_ptr_walk")
        if r.chance(1, 3):
            self.emit("xor", d, d, r.choice([sa, sb, sc]))
        self.loopdepth -= 1
        self.stat("inner_loop")

    def body_insns(self, n):
        for _ in range(n):
            k = self.r.below(21)
            if k == 20 and self.loopdepth < 2:
                self.gen_loop()
            elif k < 11:
                self.gen_int()
            elif k < 14 and self.o["fp"]:
                self.gen_fp()
            elif k < 16 and self.o["calls"]:
                self.gen_call()
            elif k < 17 and self.o["ovf"]:
                self.gen_ovf()
            else:
                self.gen_int()
            if self.r.chance(1, 6):
                self.emit("xor", "acc", "acc", self.ireg())
                self.emit("mul", "acc", "acc", 31)

    # ---------------------------------------------------------------- whole function
    def build(self):
        r = self.r
        o = self.o
        nb = 1 + r.below(o["nblocks"])
        labs = [self.lab("B") for _ in range(nb)]
        lend = self.lab("END")
        # prologue: initialise every register
        srcs = ["a0", "a1", "a2", "a3"] if self.entry else ["a0", "a1"]
        for i, reg in enumerate(self.ints):
            if r.chance(2, 3):
                self.emit("mov", reg, r.choice(srcs))
                if r.chance(1, 2):
                    self.emit(r.choice(["add", "xor", "mul"]), reg, reg, r.choice(CONSTS))
            else:
                self.emit("mov", reg, r.choice(CONSTS))
        dsrcs = ["x0", "x1"] if self.entry else ["x0"]
        for reg in self.dbls + ["dt"]:
            self.emit("dmov", reg, r.choice(dsrcs) if r.chance(2, 3) else ("d", r.choice([0.0, 1.0, -1.5, 3.25, 1e10, -0.0])))
        for reg in self.flts:
            self.emit("fmov", reg, ("f", r.choice([0.0, 1.0, -2.5, 0.125])))
        for reg in LDREGS + (["lv"] if self.o["xcalls"] else []):
            self.emit("d2ld", reg, r.choice(dsrcs))
        for reg in ["acc", "t0", "t1", "tx", "tb", "tj", "av", "ap"] + LOOPREGS:
            self.emit("mov", reg, 0)
        self.emit("mov", "fuel", o["fuel"])
        if not self.entry:
            self.emit("mov", "buf", 0)
        if o["alloca"]:
            self.emit("alloca", "tal", 64)
            for k in range(0, 64, 8):
                self.emit("mov", ("mem", "i64", k, "tal", None, 1), r.choice(self.ints))
        else:
            self.emit("mov", "tal", 0)
        jmpi_targets = []
        for b in range(nb):
            self.emit("label", labs[b])
            self.emit("sub", "fuel", "fuel", 1)
            self.emit("ble", lend, "fuel", 0)
            self.body_insns(1 + r.below(o["ninsn"]))
            # terminator
            k = r.below(10)
            tgt = lambda: r.choice(labs + [lend]) if r.chance(1, 4) else (labs[b + 1] if b + 1 < nb and r.chance(2, 3) else r.choice(labs))
            if k < 3:
                op = r.choice(BCMP) + ("s" if r.chance(1, 3) else "")
                self.emit(op, tgt(), self.ireg(), self.isrc()); self.stat("br_cmp")
            elif k == 3:
                self.emit(r.choice(["bt", "bf", "bts", "bfs"]), tgt(), self.ireg()); self.stat("br_bt")
            elif k == 4 and o["fp"]:
                if r.chance(1, 4):
                    self.emit("ldb" + r.choice(["eq", "ne", "lt", "le", "gt", "ge"]), tgt(), r.choice(LDREGS), r.choice(LDREGS))
                else:
                    self.emit("db" + r.choice(["eq", "ne", "lt", "le", "gt", "ge"]), tgt(), self.dreg(), self.dreg())
                self.stat("br_fp")
            elif k == 5 and o["switch"]:
                n = 2 + r.below(3)
                m = 1 if n == 2 else 3
                self.emit("and", "t0", self.ireg(), m)
                tg = [tgt() for _ in range(m + 1)]
                self.emit("switch", "t0", *tg); self.stat("switch")
            elif k == 6 and o["jmpi"]:
                l1, l2 = tgt(), tgt()
                la = self.lab("J")
                self.emit("laddr", "tj", l1)
                self.emit("bt", la, self.ireg())
                self.emit("laddr", "tj", l2)
                self.emit("label", la)
                self.emit("jmpi", "tj"); self.stat("jmpi")
                jmpi_targets += [l1, l2]
            elif k == 7:
                self.emit("jmp", tgt()); self.stat("jmp")
            # else fall through
        self.emit("label", lend)
        # epilogue: fold everything observable
        for reg in self.ints:
            self.emit("mul", "acc", "acc", 1000003)
            self.emit("xor", "acc", "acc", reg)
        if o["fp"]:
            for i, reg in enumerate(self.dbls):
                if self.entry and o["mem"]:
                    self.emit("dmov", ("mem", "d", 456 + 8 * (i % 6), "buf", None, 1), reg)
                else:
                    self.emit("dle", "t0", reg, ("d", 0.5))
                    self.emit("add", "acc", "acc", "t0")
        if o["fp"]:
            for reg in LDREGS:
                self.emit("ld2d", "dt", reg)
                self.emit("dle", "t0", "dt", ("d", 0.5))
                self.emit("add", "acc", "acc", "t0")
                self.emit("ldlt", "t0", reg, LDREGS[0])
                self.emit("add", "acc", "acc", "t0")
        if o["alloca"]:
            for k in range(0, 64, 8):
                self.emit("xor", "acc", "acc", ("mem", "i64", k, "tal", None, 1))
        if self.entry:
            header = "i64, p:buf, i64:a0, i64:a1, i64:a2, i64:a3, d:x0, d:x1"
            locs = [f"i64:{x}" for x in self.ints + ["acc", "t0", "t1", "tx", "tb", "tj", "av", "ap", "fuel", "tal"] + LOOPREGS]
        else:
            header = "i64, i64:a0, i64:a1, d:x0"
            locs = [f"i64:{x}" for x in self.ints + ["acc", "t0", "t1", "tx", "tb", "tj", "av", "ap", "fuel", "tal", "buf"] + LOOPREGS]
        locs += [f"d:{x}" for x in self.dbls + ["dt"]] + [f"f:{x}" for x in self.flts] + [f"ld:{x}" for x in LDREGS + (["lv"] if self.o["xcalls"] else [])]
        self.emit("ret", "acc")
        self.prog.funcs.append((self.fname, header, locs, self.ins))


def gen_program(rng, name, nentries=1, nhelpers=2, opts=None):
    """one module with `nhelpers` leaf helpers (no memory: they get no buffer) and `nentries` entries"""
    P = Prog(name)
    helpers = []
    for h in range(nhelpers):
        hn = f"{name}_h{h}"
        ho = dict(opts or {})
        ho.update(mem=False, alloca=rng.chance(1, 3), nblocks=3, ninsn=5, nint=5, ndbl=2, fuel=12,
                  calls=rng.chance(1, 2), jmpi=False)
        FuncGen(rng, P, hn, entry=False, helpers=[], opts=ho).build()
        helpers.append(hn)
    entries = []
    for e in range(nentries):
        en = f"{name}_e{e}"
        eo = dict(opts or {})
        if rng.chance(1, 5):   # high register pressure: more live values than hard registers (spills, reloads, splits)
            eo.setdefault("nint", 22)
            eo.setdefault("ndbl", 18)
        FuncGen(rng, P, en, entry=True, helpers=helpers, opts=eo).build()
        entries.append(en)
    return P, entries


ARGSETS = [
    (0, 0, 0, 0, 0.0, 0.0), (1, 2, 3, 4, 1.0, 2.0), (-1 & M64, (1 << 63), (1 << 31), 0xffffffff, -1.5, 1e300),
    (0x7fffffffffffffff, 0x80000000, 130, 255, 0.1, -0.0), (12345678901234567, 3, -7 & M64, 1 << 40, 3.5, 2.5e-10),
]
