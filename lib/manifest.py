#!/usr/bin/env python3
"""Regenerates /verif/MANIFEST.json from the table below (run by hand when a check is added)."""
import json, os

VERIF = os.path.dirname(os.path.dirname(os.path.abspath(__file__)))
TB = ("Trusted: Lean 4.33 kernel; axioms propext, Classical.choice, Quot.sound (audited per theorem on every run by "
      "#audit_module); the translator/correspondence harness named in DESIGN.md section 4; gcc 12 and the x86-64 CPU.")

# id -> (category, technique, text, note, design_ref)
CHECKS = {
    "C20": ("proof", "Lean 4 proofs that mir2c's per-opcode C templates (table regenerated from mir2c/mir2c.c) have the documented meaning under a model of C's conversions, plus termination of the data-section printer + compile-and-run correspondence of emitted C against MIR_interp",
            "PROVED for all register contents: every integer arithmetic/logic/shift/compare/branch/extension/negation/bt/overflow template of out_insn yields the documented result whenever the emitted C is defined "
            "(with the exact list of rows where the C is undefined although MIR is defined: signed wrap, a listed finding); the opcode enum of mir.h is covered by the translator's switch; the data-section printer's item loop "
            "terminates for every item list. Correspondence: one-instruction functions for every row emitted by MIR_module2c, compiled by gcc at -O0/-O2/-O2 -fwrapv -fno-strict-aliasing and run over a boundary grid next to MIR_interp, "
            "the Lean model of the regenerated row and the documented result; random well-defined programs (results, buffer bytes, external-call log vs MIR_interp); data-section modules (termination, member lists, bytes read back); "
            "the repository's own modules (translation outcome classes).",
            TB + " gcc 12 compiles the emitted C. Partial: whole-function translation (declarations, labels, calls, memory operands, alloca), fp and long double rows are compiled and run, not modelled.", "4 C20"),
    "C03": ("proof", "Lean 4 proofs about the thunk codec (BitVec 64) and the link/first-call/generation state machine (public address stable, progress, code published once) + byte-level, history, register-contract and whole-program correspondence across interfaces",
            "PROVED for all addresses and every history of load/link/set-interface/first-call/generation events: redirecting a thunk makes it decode to the new target in both encodings (short/long boundary exact), "
            "a function's public address is its first thunk and never changes, lazy and lazy-bb first calls make progress and publish machine code once, the thunk always targets code of the kind the state machine says. "
            "Correspondence: real _MIR_get_thunk/_MIR_redirect_thunk bytes and execution at boundary displacements; random API histories replayed by the Lean state machine; wrappers' register contract with a clobbering hook; "
            "multi-module programs (recursion across modules, indirect calls through ref data, callbacks re-entering MIR, 17 arguments, permuted first-call orders) under interp / interp C interface / eager / lazy / lazy-bb "
            "and mixed per-module interfaces; the repository's C tests under -ei/-eg/-el/-eb.",
            TB + " bv_decide axioms only on named codec bridge lemmas if any are reported by the audit. Machine code of wrappers is observed, not modelled; one listed finding (bb wrapper does not save xmm8-15).", "4 C03"),
    "C04": ("proof", "Lean 4 proofs of the simplifier's rewrite rules over a small-step MIR core semantics (tables regenerated from mir.c) + instruction-by-instruction correspondence of the simplified text and whole-program differential runs under three inlining thresholds",
            "PROVED for all operand values / all states of the core semantics: memory-operand lowering, algebraic shortcuts (the unsound MULO row refuted), constant bt/bf, branch reversal, jump-to-next and branch-over-jump removal, "
            "alloca consolidation layout, ret/arg extension, injectivity of the inliner's renaming, soundness of inlining for the modelled call shape (inline_sound_partial: no variable-size alloca, no block arguments). "
            "Correspondence: MIR_output_item after MIR_link(NULL interface) = the Lean simplifier's text for small functions over all operand shapes; generated programs linked by three builds (default thresholds / never / always inline) "
            "and run by MIR_interp and MIR_gen agree with each other, with the Lean core semantics on the program as written and on the model-simplified program.",
            TB + " Partial: inlining with dynamic allocas/block arguments is decided by the differential runs only; seven listed findings.", "4 C04"),
    "C07": ("proof", "Lean 4 proofs that c2mir's conversion, promotion, opcode-selection and constant-folding tables (regenerated from c2mir.c) agree with C11 and with the documented MIR results + differential execution of generated UB-free C programs and the repository's C tests against gcc",
            "PROVED for all values: integer promotions and usual arithmetic conversions = C11 6.3.1 (one listed deviation visible only through _Generic), type representation, opcode and compare-branch selection per type pair, "
            "compile-time folding = the run-time result of the selected instruction, cast_value = C conversion (except _Bool: listed finding), bit-field extract/insert round trip, small block move. "
            "Correspondence: typed random C programs (UB-free by construction) and c-tests/ run as c2m -ei | -eg -O0..-O3 | -el | -eb and as gcc -O0/-O2 executables; stdout and exit status compared; "
            "expression values also against the generator's evaluator and the Lean evaluator.",
            TB + " gcc 12 is the reference compiler. Partial: the translator beyond the modelled tables (statements, initialisers, calls, aggregates) is decided by the differential runs only.", "4 C07"),
    "C09": ("proof", "Lean 4 model of the C11 #if evaluator and macro expander with theorems (evaluator = C11 intmax/uintmax semantics, expander facts, stringify/destringify) + three-way differential c2mir / gcc -E / Lean on generated inputs",
            "PROVED for all constant expressions over the modelled grammar: the #if evaluator model computes the C11 value and signedness (intmax_t/uintmax_t, usual arithmetic conversions, unevaluated operands); "
            "expander facts (no re-expansion of a macro being expanded, argument pre-expansion except next to # and ##, termination with explicit fuel bound), destringify (stringify s) = s. "
            "Correspondence: the Lean expander/evaluator is the specification, gcc -E -P is an independent reference for it, c2mir's preprocessor is driven in-process and through c2m -E on generated macro sets, "
            "invocations, #if expressions and include/conditional structures; a case where spec = gcc != c2m is a violation.",
            TB + " gcc 12 cpp validates the specification. Partial: pragmas, __COUNTER__-style extensions and diagnostics wording are out of scope; listed findings are the #if typing and pasting/stringifying defects.", "4 C09"),
    "C11": ("proof", "Lean 4 proof of read(write ms) = ms for a token-by-token model of the binary writer/reader, parametric in reader facts regenerated from mir.c + byte-exact correspondence",
            "PROVED for every module list satisfying an explicit decidable WF predicate over the whole vocabulary (all item kinds, all operand kinds and memory shapes, fixed and variable operand counts, data of every type): "
            "readModules (writeModules ms) = ok ms; the format is injective (write_deterministic) and uniquely decodable; int/uint/float/long double tokens and 1-4 byte string indexes round-trip for all values; "
            "label identity within a function. The reader facts (insn-code bound, lref labels, global-variable name, data of type p, labels before endfunc) are regenerated from the source, so the theorem is re-checked "
            "against what the code says now. Composes with C12 (write_emits_bytes). Correspondence: raw bytes of MIR_write (after the real reduce_decode) = model bytes through the FILE and callback APIs, two writes identical "
            "also across processes, structure/text/execution before = after MIR_read, model reader = real reader, modules up to several compression buffers.",
            TB + " bv_decide axioms only on the uint_length/int_length bridge lemmas (Lemmas/BridgeC11). API-level validation inside the reader is not modelled.", "4 C11"),
    "C05": ("proof", "Lean 4 induction over argument lists (FFI trampoline and generated-call placement state machines = psABI placement) + assembly probe correspondence and gcc-compiled callees",
            "PROVED for every argument list of any length and mix (i8..u64,p,f,d,ld,blk0-4,rblk, variadic tail): each argument's register/stack location, the stack size/alignment and the xmm count of _MIR_get_ff_call and "
            "machinize_call equal the psABI placement (full statements for the repaired code; the pre-fix variants are refuted by kernel-checked counterexamples), %al, result placement, narrowing of i8..u32. "
            "Correspondence: an assembly probe callee snapshots all argument registers and 96 stack words; sentinels observe the placement under the interpreter FFI and gen -O0..-O3; second oracle: gcc-compiled callees.",
            TB + " The check detects from pinned witness prototypes which variant (pre/post fix) the tree implements; emitted machine code is observed, not modelled.", "4 C05"),
    "C16": ("proof", "Lean 4 proofs about a heap model of _MIR_duplicate_func_insns/_MIR_restore_func_insns and the MIR_gen state machine + structural and behavioural correspondence",
            "PROVED for every well-formed function and every sequence of legal generator edits: the working copy is closed (all label operands and lrefs point into it), prints like the original, and restore returns "
            "exactly the original insn list, lrefs, vars and register tables; repeated MIR_gen returns the same address and publishes code once. Correspondence: the real duplicate/restore with random edit scripts on "
            "mir-tests, c2m -S corpus and generated functions (struct dumps diffed with the model); behavioural plans (gen in any order/repetition at -O0..3, eager/lazy, interleaved with MIR_output_item, MIR_interp, "
            "later modules that call or inline generated functions).",
            TB + " That the optimizer's real edits are legal in the model's sense is only checked behaviourally.", "4 C16"),
    "C08": ("proof", "Lean 4 proofs about literal models of c2mir's layout and eightbyte classification vs a psABI specification + c2m/gcc/model three-way correspondence on generated declarations and by-value passing",
            "PROVED for every well-formed type: layout well-formedness (alignment divides size, members aligned, inside the object, ordered and disjoint), termination of the backwards search loop, "
            "c2mir layout = psABI layout for all types without bit-fields and for bit-fields under an explicit decidable side condition; classification merge laws; classification and register assignment = psABI "
            "under explicit side conditions; the full statements are shown false by kernel-checked counterexamples (listed findings). Correspondence: c2m built from the current tree vs gcc vs the model on random and "
            "small-scope-exhaustive declarations (sizeof/_Alignof/offsetof/bit-field images) and on by-value passing in both directions with register/stack capture.",
            TB + " gcc 12 is the psABI reference. Bit-field classification is not proved.", "4 C08"),
    "C10": ("proof", "Lean 4 proof of scan(print m) round trip for a literal model of MIR_output and the text scanner (lexer, parser, elaborator) + byte-exact correspondence in both directions",
            "PROVED for every module satisfying an explicit decidable WF predicate (all item kinds, all operand forms incl. alias/nonalias, blk/rblk parameters, hard-register globals, vararg, multi-result): "
            "scanText (printText m) = ok (normText m) and printText (normText m) = printText m; string and integer codecs for all byte strings / all 64-bit values with the exact conditions the code forces. "
            "Correspondence: writer model = MIR_output bytes, scanner model = MIR_scan_string verdict and re-output on generated modules, free-form spellings, mutated texts, mir-tests and c2m -S corpus; "
            "execution before/after. Floating literals: exact Lean model of %.*e / strtod compared with glibc on every run.",
            TB + " libc printf/strtod equality is checked per literal, not proved; label renumbering outside WF is checked, not proved.", "4 C10"),
    "C12": ("proof", "Lean 4 proof of the byte-exact encoder/decoder model (round trip, prefix-freeness, hash binding, in-bounds accesses) + byte-exact correspondence with mir-reduce.h under ASan/UBSan/MSan",
            "PROVED for every byte string of every length (multi-buffer included): decode (encode d) = d for the exact model of _reduce_encode_buf (hash-table dictionary, eviction, MAX_SYMB_LEN flush); "
            "any valid parse decodes to its data; the accepted language is prefix-free (every truncation and extension of an accepted stream is rejected); an accepted stream carries the chain hash of its "
            "decoded data; no decoder access is out of bounds. Constants regenerated from mir-reduce.h. Correspondence: encoder bytes C vs model, both decoders on arbitrary/corrupted streams "
            "(exhaustive over {a,b}^<=10/12 with all single-byte corruptions, truncations and extensions; multi-buffer sizes), three sanitizer flavours.",
            TB + " Hash collision resistance is not claimed (accepted_hash states what an accepted stream must satisfy).", "4 C12"),
    "C19": ("proof", "Lean 4 refinement proofs (HTAB = abstract map incl. termination of probing, bitmap = set algebra incl. change flag and aliasing, VARR/DLIST = lists) + exhaustive and random correspondence on the real headers",
            "PROVED for every operation history: bitmap operations yield the set-algebra result and report 'changed' exactly when the destination changed (also for aliased operands), the iterator yields the members "
            "once in increasing order, VARR and DLIST preserve contents and order with the list invariants; HTAB part: see Props/C19/Htab.lean. Correspondence: real headers under ASan+UBSan and NDEBUG, "
            "exhaustive short sequences over small universes plus long random histories, colliding hash functions, free-function counts. Consumer of the flags: solve_dataflow (mir-gen.c) is modelled "
            "(Model/Dataflow.lean) and solve_fixpoint proves that with flags that never under-report the solver stops only at a solution of the dataflow equations, for every CFG, transfer function and visiting order "
            "(termination not proved); the function's text is cut from mir-gen.c on every run, compiled over the real headers and compared (visiting trace, final sets) with the model on random union/intersection, forward/backward problems.",
            TB, "4 C19"),
    "C01": ("proof", "Lean 4 theorems about the optimizer's tables, rewrites and decision predicates (regenerated from mir-gen.c/mir.c/mir.h) + differential execution of random well-defined programs across interpreter and -O0..-O3",
            "PROVED for all operand values: GVN constant folding = interpreter macro = documented result for every integer opcode; the folder never evaluates a "
            "trapping division; MIR_reverse_branch_code, get_combined_br_code and commutative_insn_code are sound for every integer row; mul/udiv/div by 2^k = "
            "the emitted shift sequences under exactly the guards the code checks (64- and 32-bit); store->load forwarding is sound only for 64-bit memory types; "
            "extension-chain rewrites of copy_prop for every width/sign pair; the overlap test of alloca_mem_intersect_p and may_alias_p (translated expressions) "
            "meet their specifications; out-of-SSA: the copy form implements the parallel phi assignment for every phi list and the rename shortcut is sound exactly "
            "under the condition the code checks; LICM hoists only pure opcodes and neither dead-code eliminator deletes an effect (opcode lists translated from the source); the x86 immediate-range predicates are sound and every row of the x86 pattern table (729 rows, regenerated after gcc -E) places operands only into encoding fields that can carry what its constraint admits; constant chains combine as the pinned expressions say. "
            "The rest of the pipeline (SSA construction, RA, combine, encoder) is decided by running random well-defined programs (any CFG incl. irreducible loops, "
            "switch and jmpi, inner loops with swapped/rotated carried registers, guarded invariant divisions and loop-carried pointers, memory operands, overlapping and alias-annotated accesses, ADDR of registers, long double code, alloca, overflow insns, calls, high register pressure) "
            "and a compare-and-branch operand-shape sweep under MIR_interp, the interp C interface and MIR_gen -O0..-O3, comparing results, buffer and call log.",
            TB + " Partial: the unmodelled passes are only exercised.", "4 C01"),
    "C06": ("proof", "Lean 4 simulation proofs (callee placement, va_start/va_arg walk, frame arithmetic) over tables extracted from mir-gen-x86_64.c + assembly trampoline correspondence",
            "PROVED for all signatures: incoming-argument placement of target_machinize and of the interpreter shim = psABI (partial where the code deviates, with counterexamples), "
            "va_start/va_arg walk, frame alignment, disjoint save slots, alloca alignment, callee-saved set on the regenerated table. Correspondence: gcc-compiled callers enter MIR "
            "functions through an assembly trampoline that records callee-saved registers, rsp, MXCSR and x87 state; sentinel probes observe placement.",
            TB + " bv_decide axiom on one bridge lemma (Lemmas/BridgeAbiCallee). Register allocation is only tested through the trampoline.", "4 C06"),
    "C13": ("proof", "Lean 4 invariant proofs over load/link histories (lastDef defined on the history) + exhaustive short histories against the real library",
            "PROVED for every history: environment = last definition, binding_spec (the property statement), resolver/undeclared behaviour, redefinition rejection/permission, "
            "frozen bindings once translated. Correspondence: all 14^4 (quick) / 14^5 (thorough) histories plus random ones run on the real library under NULL/interp/gen/lazy interfaces.",
            TB + " The model is tied to mir.c only by the correspondence.", "4 C13"),
    "C14": ("proof", "Lean 4 induction over item lists for both passes of load_bss_data_section + exhaustive item words against the real loader under ASan",
            "PROVED for every item list: contiguity, maximality of sections, in-bounds, agreement of the size and placement passes, image contents, link-time ref/expr fill-in; "
            "type-size table regenerated from mir.c. Correspondence: every word of length <= 3 (quick) / 4 (thorough) over a 16-symbol item alphabet plus random sequences, ASan and NDEBUG builds.",
            TB + " lref values are validated behaviourally.", "4 C14"),
    "C15": ("proof", "decide +kernel over the full (opcode x position x operand kind) grid on insn_descs regenerated from mir.c + exhaustive API correspondence",
            "PROVED: per-operand structure of the checker's verdict; the whole verdict grid of the regenerated insn_descs equals the documented operand classes except at the listed deviations; "
            "arity, ret/results, call/proto, overflow-branch adjacency, declaration errors for all inputs. Correspondence: every grid cell built through the public API under a longjmp-ing error function (ASan+UBSan).",
            TB + " Operand values are abstracted to kinds.", "4 C15"),
    "C17": ("proof", "Lean 4 ledger monitor + proofs that every VARR and code-page history is ledger-accepted + call-site inventory regenerated from the sources + checking allocators on API histories",
            "PROVED for all histories: every realloc issued by mir-varr.h reports the block's true size (and MIR_realloc has no other call site, by the regenerated inventory); "
            "every byte written by _MIR_set_code/_MIR_change_code lies inside its write/execute protection bracket; code_finish unmaps everything. Monitored: checking MIR_alloc/MIR_code_alloc and libc "
            "interposition on API histories (scan/read/c2mir, load, link at every interface and level, gen, write/output, finish).",
            TB + " Whole-library leak freedom is monitored on generated histories, not proved.", "4 C17"),
    "C18": ("proof", "Lean 4 interleaving-independence theorem over a footprint inventory regenerated from clang's AST + ThreadSanitizer validation of the inventory",
            "PROVED: if no operation writes a shared location and each thread touches only its own context, every interleaving gives each thread its sequential results (any number of threads, any trace); "
            "per-run obligation: every write site of every non-const static object in the library sources (regenerated by translate/c18_inventory.py) is a listed finding. Dynamic: TSan runs of 2/4/8 threads "
            "with overlapping init/finish; every report must name an inventory object.",
            TB + " clang-14 AST as inventory source; schedules are sampled.", "4 C18"),
    "C02": ("proof", "Lean 4 theorems over BitVec 64/32 (docSem vs interpreter macro semantics) + dispatch table regenerated from mir-interp.c + value-grid correspondence over 6 engines",
            "All 46 integer arithmetic/logic/shift/compare opcodes, 20 compare-and-branch opcodes, EXT/UEXT, NEG/NEGS, the 8 overflow "
            "opcodes (flag formulas incl. the division-based MULO test) and narrow load/store are PROVED equal to the documented "
            "result for every 64-bit operand value (kernel-checked, no bound), about a model whose dispatch rows and macro texts are "
            "regenerated from mir-interp.c on every run. Generated code (-O0..-O3), the interpreter's C interface, operand shapes "
            "(reg/imm/mem/dst==src) and floating point are decided by executing one-instruction functions over a boundary grid "
            "against the Lean specification.",
            TB + " FP uses Lean's native Float as oracle (not kernel-checked); long double not covered; x86 instruction selection "
                 "is exercised, not modelled.", "4 C02"),
}
NOT_YET = {}

props = [json.loads(l) for l in open(os.path.join(VERIF, "properties.jsonl"))]
checks = []
na = []
for p in props:
    pid = p["id"]
    if pid in CHECKS and os.path.exists(os.path.join(VERIF, "checks", pid.lower() + ".py")):
        cat, tech, text, note, ref = CHECKS[pid]
        checks.append({
            "property_id": pid,
            "quick_cmd": f"./check {pid} --tier quick",
            "thorough_cmd": f"./check {pid} --tier thorough",
            "evidence_file": f"/verif/evidence/{pid}.json",
            "replay_cmd_template": f"./check {pid} --replay {{path}}",
            "engine": "lean4-mirverif",
            "level_claimed": {"category": cat, "text": text, "design_ref": "DESIGN.md section " + ref},
            "level_note": note,
            "technique": tech,
        })
    else:
        na.append({"property_id": pid, "reason": NOT_YET.get(pid, "check under construction in this round (Lean model and "
                                                              "correspondence exist in the tree but are not yet registered); see DESIGN.md section 4")})
m = {
    "version": 1,
    "setup_cmd": "./setup.sh",
    "hooks": {"guard": "MIR_VERIF",
              "enable": "no hook commits: harnesses are compiled by the checks against /repo's current sources with -DMIR_VERIF "
                        "and #include the library .c files to reach static functions",
              "baseline_off_cmd": "cmake --build /repo/_build -- -k 0 ; ctest --test-dir /repo/_build -j8 --timeout 900",
              "source_commits": [], "add_only": True},
    "engines": [{"name": "lean4-mirverif", "path": "/verif/lean", "serves_properties": [c["property_id"] for c in checks],
                 "kind_free_text": "Lean 4.33 lake project: models, lemmas, property theorems, per-property line-protocol drivers; "
                                   "python check drivers in /verif/checks using /verif/lib/vf.py"}],
    "checks": checks,
    "not_applicable": na,
    "notes": "Every check: regenerate Gen/*.lean from /repo, lake build the property theorems, audit axioms, run the "
             "correspondence, search for a failing input on any break. Fix commits in /repo are recorded in known_findings.json.",
}
json.dump(m, open(os.path.join(VERIF, "MANIFEST.json"), "w"), indent=1)
print(f"{len(checks)} checks, {len(na)} not_applicable")
