#!/usr/bin/env python3
"""Regenerates /verif/MANIFEST.json from the table below (run by hand when a check is added)."""
import json, os

VERIF = os.path.dirname(os.path.dirname(os.path.abspath(__file__)))
TB = ("Trusted: Lean 4.33 kernel; axioms propext, Classical.choice, Quot.sound (audited per theorem on every run by "
      "#audit_module); the translator/correspondence harness named in DESIGN.md section 4; gcc 12 and the x86-64 CPU.")

# id -> (category, technique, text, note, design_ref)
CHECKS = {
    "C02": ("proof", "Lean 4 theorems over BitVec 64/32 (docSem vs interpreter macro semantics) + dispatch table regenerated from mir-interp.c + value-grid correspondence over 6 engines",
            "All 46 integer arithmetic/logic/shift/compare opcodes, 20 compare-and-branch opcodes, EXT/UEXT, NEG/NEGS, the 8 overflow "
            "opcodes (flag formulas incl. the division-based MULO test) and narrow load/store are PROVED equal to the documented "
            "result for every 64-bit operand value (kernel-checked, no bound), about a model whose dispatch rows and macro texts are "
            "regenerated from mir-interp.c on every run. Generated code (-O0..-O3), the interpreter's C interface, operand shapes "
            "(reg/imm/mem/dst==src) and floating point are decided by executing one-instruction functions over a boundary grid "
            "against the Lean specification.",
            TB + " FP uses Lean's native Float as oracle (not kernel-checked); long double not covered; x86 instruction selection "
                 "is exercised, not modelled.", "4 C02"),
}
NOT_YET = {}

props = [json.loads(l) for l in open(os.path.join(VERIF, "properties.jsonl"))]
checks = []
na = []
for p in props:
    pid = p["id"]
    if pid in CHECKS and os.path.exists(os.path.join(VERIF, "checks", pid.lower() + ".py")):
        cat, tech, text, note, ref = CHECKS[pid]
        checks.append({
            "property_id": pid,
            "quick_cmd": f"./check {pid} --tier quick",
            "thorough_cmd": f"./check {pid} --tier thorough",
            "evidence_file": f"/verif/evidence/{pid}.json",
            "replay_cmd_template": f"./check {pid} --replay {{path}}",
            "engine": "lean4-mirverif",
            "level_claimed": {"category": cat, "text": text, "design_ref": "DESIGN.md section " + ref},
            "level_note": note,
            "technique": tech,
        })
    else:
        na.append({"property_id": pid, "reason": NOT_YET.get(pid, "check under construction in this round (Lean model and "
                                                              "correspondence exist in the tree but are not yet registered); see DESIGN.md section 4")})
m = {
    "version": 1,
    "setup_cmd": "./setup.sh",
    "hooks": {"guard": "MIR_VERIF",
              "enable": "no hook commits: harnesses are compiled by the checks against /repo's current sources with -DMIR_VERIF "
                        "and #include the library .c files to reach static functions",
              "baseline_off_cmd": "cmake --build /repo/_build -- -k 0 ; ctest --test-dir /repo/_build -j8 --timeout 900",
              "source_commits": [], "add_only": True},
    "engines": [{"name": "lean4-mirverif", "path": "/verif/lean", "serves_properties": [c["property_id"] for c in checks],
                 "kind_free_text": "Lean 4.33 lake project: models, lemmas, property theorems, per-property line-protocol drivers; "
                                   "python check drivers in /verif/checks using /verif/lib/vf.py"}],
    "checks": checks,
    "not_applicable": na,
    "notes": "Every check: regenerate Gen/*.lean from /repo, lake build the property theorems, audit axioms, run the "
             "correspondence, search for a failing input on any break. Fix commits in /repo are recorded in known_findings.json.",
}
json.dump(m, open(os.path.join(VERIF, "MANIFEST.json"), "w"), indent=1)
print(f"{len(checks)} checks, {len(na)} not_applicable")
