#!/bin/sh
# MANIFEST.setup_cmd: regenerate Gen/*.lean from /repo, build the Lean library, every property
# module and every driver, offline.  A target that fails to build here is reported by its own check
# (each check rebuilds exactly the targets it needs), so one failure must not stop the others.
cd "$(dirname "$0")"
mkdir -p .cache evidence replays lean/MirVerif/Gen
for t in translate/c*.py; do [ -f "$t" ] && python3 "$t" >/dev/null 2>&1; done
cd lean
lake build MirVerif 2>&1 | tail -1
for i in 01 02 03 04 05 06 07 08 09 10 11 12 13 14 15 16 17 18 19 20; do
  lake build MirVerif.Props.C$i mirdrv_c$i >/dev/null 2>&1 || echo "setup: C$i targets did not build (its check will report it)"
done
lake build mirdrv_c19b mirdrv_c19d >/dev/null 2>&1 || true
exit 0
