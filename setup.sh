#!/bin/sh
# MANIFEST.setup_cmd: build the Lean library, every property module and every driver, offline.
set -e
cd "$(dirname "$0")"
mkdir -p .cache evidence replays
for t in translate/c*.py; do [ -f "$t" ] && python3 "$t"; done
cd lean
lake build MirVerif $(ls MirVerif/Props/C??.lean | sed 's|/|.|g; s|\.lean$||') $(for i in $(seq -w 1 20); do echo mirdrv_c$i; done)
