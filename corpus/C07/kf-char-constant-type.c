/* C07-corpus: pass   (was known C07:char-constant-type, repaired in /repo)
   C11 6.4.4.4p10: an integer character constant has type int; c2mir gives it type char
   (sizeof 'a' == 1) */
#include <stdio.h>
int main (void) {
  printf ("%d %d %d %d\n", (int) sizeof ('a'), (int) sizeof ('a' + 0), '\377' < 0, (int) sizeof (L'a'));
  return 0;
}
