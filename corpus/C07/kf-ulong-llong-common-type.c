/* C07-corpus: pass   (was known C07:ulong-llong-common-type until /repo 584db93a)
   C11 6.3.1.8: unsigned long x long long -> unsigned long long (c2mir: unsigned long; same width,
   visible through _Generic) */
#include <stdio.h>
int main (void) {
  volatile unsigned long a = 5; volatile long long b = -1;
  printf ("%d %d\n", _Generic (a * b, unsigned long long: 1, unsigned long: 2, default: 3),
          _Generic (1 ? a : b, unsigned long long: 1, unsigned long: 2, default: 3));
  return 0;
}
