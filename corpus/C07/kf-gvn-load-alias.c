/* C07-corpus: known C07:gvn-load-alias
   MIR generator, GVN (mir-gen.c expr_eq): loads are matched by address value and type only, and the
   availability bit consulted is that of the EARLIER load, computed for ITS alias name; a later load of
   the same address with another (or no) alias name reuses the stale value although stores with a
   third alias name intervened.  From C at -O2/-O3/-el/-eb: small functions are inlined, the frames of
   the inlined callees overlay each other, `i64:(fp):l` of one callee, `i32:(fp):i` stores and the
   un-named `i64:(fp)` load of the next.  MIR-level reproducer: corpus/C07/aux/gvn-load-alias.mir */
/* Two struct-returning calls in one full expression: both returned temporaries must stay
   alive (and distinct) until the enclosing call / operator has used them. */
#include <stdio.h>
struct big { long a, b, c; };   /* returned through a hidden address (memory class) */
struct small { int x, y; };     /* returned in a register */
static struct big mkbig (long v) { struct big r = {v, v * 10, v * 100}; return r; }
static struct small mksmall (int v) { struct small r = {v, -v}; return r; }
static long diffbig (struct big p, struct big q) { return (p.a - q.a) + (p.b - q.b) + (p.c - q.c); }
static int diffsmall (struct small p, struct small q) { return (p.x - q.x) * 1000 + (p.y - q.y); }
int main (void) {
  int bad = 0;
  long d1 = diffbig (mkbig (7), mkbig (2));       /* 5 + 50 + 500 */
  int d2 = diffsmall (mksmall (9), mksmall (4));  /* 5 * 1000 - 5 */
  long d3 = mkbig (3).c + mkbig (4).b;            /* 300 + 40 */
  struct big one = mkbig (1);                     /* a single call is always fine */
  printf ("diffbig (mkbig (7), mkbig (2))        = %ld\n", d1);
  printf ("diffsmall (mksmall (9), mksmall (4))  = %d\n", d2);
  printf ("mkbig (3).c + mkbig (4).b             = %ld\n", d3);
  printf ("mkbig (1)                             = %ld %ld %ld\n", one.a, one.b, one.c);
  if (d1 != 555) bad |= 1;
  if (d2 != 4995) bad |= 2;
  if (d3 != 340) bad |= 4;
  if (one.a != 1 || one.b != 10 || one.c != 100) bad |= 8;
  printf (bad ? "FAIL (mask %d)\n" : "PASS (mask %d)\n", bad);
  return bad != 0;
}
