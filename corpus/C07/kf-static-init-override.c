/* C07-corpus: pass   (was known C07:static-init-override until /repo 3fd51b71)
   C11 6.7.9p19: a later initializer for the same subobject overrides an earlier one; c2mir keeps
   the FIRST one in initializers of objects with static storage duration */
#include <stdio.h>
struct S { int a; int b; };
struct B { int f:5; unsigned g:7; int h:20; };
union U { int i; unsigned char c; };
static struct S g = { 1, .a = 2, 3 };
static int ga[3] = { 1, 2, [0] = 7 };
static struct B gb = { 1, 2, 3, .g = 9, .f = -3 };
static union U gu = { .i = 0x01020304, .c = 9 };
static struct { struct S s[2]; char t[4]; } gn = { { { 1, 2 }, { 3, 4 } }, "ab", .s[1].a = 8 };
int main (void) {
  struct S l = { 1, .a = 2, 3 };
  int la[3] = { 1, 2, [0] = 7 };
  printf ("%d %d | %d %d %d | %d %d | %d %d %d\n", g.a, g.b, ga[0], ga[1], ga[2], l.a, l.b, la[0], la[1], la[2]);
  printf ("%d %d %d | %d | %d %d %d %d %s\n", gb.f, gb.g, gb.h, gu.c, gn.s[0].a, gn.s[1].a, gn.s[1].b, gn.s[0].b, gn.t);
  return 0;
}
