/* C07-corpus: pass   (was known C07:bitfield-alias until /repo 39040589)
   the expression type of a bit-field narrower than int is `int`, and c2mir derives the alias name of
   the storage-unit access from the expression type: accesses to ONE 64-bit unit get alias "i" (f0)
   and "L" (f1), so the MIR optimizer (-O2, -O3, -el, -eb) treats the read-modify-write sequences
   of neighbouring bit-fields as independent */
#include <stdio.h>
#include <string.h>
struct S { long long f0:24; long long f1:40; };
int main (void) {
  struct S z;
  memset (&z, 0, sizeof (z));
  { volatile long long s = 2LL; z.f0 = s; }
  { volatile long long s = 4096LL; z.f0 = s; }
  { volatile long long s = 91LL; z.f1 = s; }
  { volatile long long s = 161983469103LL; z.f1 = s; }
  printf ("%lld\n", (long long) z.f1);
  { volatile long long s = 32560237990462141LL; z.f1 = s; }
  { volatile long long s = 16276742337988746LL; z.f0 = s; }
  { volatile long long s = (-9223372036854775807LL-1); z.f1 = s; }
  printf ("%lld\n", (long long) z.f1);
  printf ("%lld %lld\n", (long long) z.f0, (long long) z.f1);
  return 0;
}
