/* C07-corpus: known C07:bool-conversion
   C11 6.3.1.2: conversion to _Bool is (value != 0); c2mir truncates to 8 bits, at compile time
   (cast_value) and at run time (cast emits UEXT8) */
#include <stdio.h>
_Bool g1 = 256, g2 = 2, g3 = 0.5;
static _Bool f (_Bool b) { return b; }
static _Bool r (int x) { return x; }
static _Bool rd (double x) { return x; }
int main (void) {
  volatile int v256 = 256, v2 = 2; volatile double vd = 0.5; volatile long long big = 1LL << 40;
  volatile float vf = 0.25f;
  _Bool b1 = (_Bool) 256, b2 = (_Bool) 2, b3 = (_Bool) 0.5;
  _Bool r1 = (_Bool) v256, r2 = (_Bool) v2, r3 = (_Bool) vd, r4 = v256, r5 = vd, r6, r7 = big, r8 = vf;
  struct { _Bool b; _Bool a[2]; } s = { v256, { v2, vd } };
  r6 = v256;
  printf ("%d %d %d | %d %d %d | %d %d %d %d %d %d %d %d\n", g1, g2, g3, b1, b2, b3, r1, r2, r3, r4, r5, r6, r7, r8);
  printf ("%d %d | %d %d %d | %d %d %d %d\n", (_Bool) 256 + 0, (int) (_Bool) 2, s.b, s.a[0], s.a[1], f (v256), r (v256), rd (vd), f (vd));
  r6 = 1; r6 += v2; printf ("%d\n", r6);
  r6 = 0; r6 |= v256; printf ("%d\n", r6);
  r6 = 0; r6++; r6++; printf ("%d\n", r6);
  return 0;
}
