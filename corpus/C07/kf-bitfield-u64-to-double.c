/* C07-corpus: known C07:bitfield-u64-to-double
   an unsigned bit-field of width 64 with its top bit set converts to float/double/long double as if
   it were signed (force_val extracts every bit-field into a signed 64-bit temporary) */
#include <stdio.h>
struct S { unsigned long f:64; unsigned long long h:64; unsigned long g:63; };
static double wid (double x) { return x; }
int main (void) {
  struct S s; volatile unsigned long v = 0xffffffffffffffffUL; double d;
  s.f = v; s.g = v; s.h = 0x8000000000000000ULL + v / 4; d = s.f;
  printf ("%a %a %a %a %a %La\n", (double) s.f, (double) (float) s.f, (double) s.g, d, wid (s.h), (long double) s.h);
  return 0;
}
