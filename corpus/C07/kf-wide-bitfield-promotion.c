/* C07-corpus: known C07:wide-bitfield-promotion
   bit-fields whose declared type is wider than int (an implementation-defined extension, C11
   6.7.2.1p5) and whose width is <= 32: gcc promotes them by value range like int bit-fields (int,
   or unsigned int for an unsigned field of exactly 32 bits); c2mir keeps the declared type for
   width 32, so / % and comparisons with negative operands differ */
#include <stdio.h>
#define T(x) _Generic ((x), int: 6, unsigned: 7, long: 8, unsigned long: 9, long long: 10, unsigned long long: 11, default: 99)
struct S { long a:32; unsigned long b:32; long c:31; unsigned long d:31; unsigned g:32; unsigned h:31; int i:32; long long j:32; unsigned long long k:32; };
int main (void) {
  struct S s; s.a = -1; s.b = 0xffffffffu; s.g = 0xffffffffu; s.k = 0xffffffffu; s.j = -1; s.c = 1; s.d = 1; s.h = 1; s.i = -1;
  printf ("%d %d %d %d %d %d %d %d %d\n", T (+s.a), T (+s.b), T (+s.c), T (+s.d), T (+s.g), T (+s.h), T (+s.i), T (+s.j), T (+s.k));
  printf ("%d %d %d %d\n", (int) sizeof (+s.a), (int) sizeof (+s.b), (int) sizeof (+s.j), (int) sizeof (+s.k));
  printf ("%d %d %d %d %lld\n", s.b > -1, s.g > -1, s.b / -1 == 0, s.k > -1, (long long) (s.a >> 1));
  return 0;
}
