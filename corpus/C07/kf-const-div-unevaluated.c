/* C07-corpus: pass   (was known C07:const-div-unevaluated until /repo f1ed87c1)
   a constant division by zero in an operand that is never evaluated is not an error (gcc warns);
   c2mir rejects the translation unit with "Division by zero" */
#include <stdio.h>
#define SDIV(a, b) ((b) == 0 ? (a) : (a) / (b))
int main (void) {
  volatile int x = 7;
  int r = SDIV (10, 0) + SDIV (x, 0) + (0 ? 1 % 0 : 2) + (1 || 3 / 0);
  if (0) r = 5 / 0;
  printf ("%d\n", r);
  return 0;
}
