/* C07-corpus: pass   (was known C07:generic-no-promotion, repaired in /repo)
   C11 6.5.1.1 (DR 481): the controlling expression of _Generic undergoes lvalue conversion only;
   c2mir also applies the integer promotions, so every type narrower than int selects `int` */
#include <stdio.h>
#define T(x) _Generic ((x), _Bool: 0, char: 1, signed char: 2, unsigned char: 3, short: 4, unsigned short: 5, int: 6, unsigned: 7, default: 99)
struct B { unsigned f:3; };
enum E { A };
int main (void) {
  unsigned short v = 2; volatile unsigned short vv = 2; const unsigned short cv = 2; _Bool b = 1; struct B s = { 1 };
  printf ("%d %d %d %d %d %d %d %d %d\n", T ((unsigned short) 2), T ((short) v), T (v), T (vv), T (cv), T ((char) v), T (b), T (v + 0), T (A));
  return 0;
}
