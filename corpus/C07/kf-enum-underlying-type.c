/* C07-corpus: pass   (was known C07:enum-underlying-type until /repo c84937eb)
   gcc (and the psABI compilers) make an enumerated type without negative enumerators compatible with
   `unsigned int`, c2mir with `int`; and c2mir reads enum bit-fields narrower than int as unsigned
   even when the enumeration has negative values */
#include <stdio.h>
enum E { A, B }; enum N { M = -1, P = 1 };
struct S { enum E e:2; enum N n:2; int i:3; };
int main (void) {
  volatile enum E e = A; volatile enum N n = M;
  struct S s;
  printf ("%d %d %d %d\n", e < -1, n < 0, A - 1 < 0, (int) sizeof (enum E));
  s.e = 3; s.n = M; s.i = -3;
  printf ("%d %d %d\n", s.e, s.n, s.i);
  printf ("%d %d\n", _Generic (A, int: 1, default: 2), _Generic (e + 0, unsigned: 1, int: 2, default: 3));
  return 0;
}
