/* C07-corpus: pass   (was known C07:init-string-path, repaired in /repo)   (was filed as C07:init-array-size-brace-elision: same root cause)
   the size of an array of unknown bound whose initializer list mixes a braced/string element with
   brace-elided scalars: `char bar[][6] = {"Hello", 0}` has 2 rows (C11 6.7.9p20,22); c2mir counts 1
   (from c-tests/lacc/initialize-string.c) */
#include <stdio.h>
char bar[][6] = { "Hello", '\0' };
int m[][2] = { { 1, 2 }, 3 };
int main (void) {
  printf ("%d %d\n", (int) sizeof (bar), (int) sizeof (m));
  printf ("%d %d %d %d\n", m[0][0], m[0][1], m[1][0], m[1][1]);
  return 0;
}
