/* C07-corpus: pass   (was known C07:init-string-path, repaired in /repo)
   a string literal initialises the whole character array (C11 6.7.9p14) and the next initializer
   of the list continues AFTER the array; c2mir's initializer path stays inside the array, so the
   following members are taken as its 2nd, 3rd ... characters (truncated to char, misplaced, object
   over-long); static and automatic objects; also the cause of finding C07-8 */
#include <stdio.h>
static struct { char tag[3]; char kind; short code; } r = { "abc", 'x', 1234 };
static struct { char tag[3]; char kind; short code; } r2 = { "ab", 'x', 1234 };
static struct { char tag[5]; long v; } r5 = { "ab", 0x1122334455667788L };
static struct { int n; char a[2][3]; int m; } r6 = { 1, "ab", "cd", 7 };
static void dump (const char *t, const void *p, int n) {
  const unsigned char *b = p; int i;
  printf ("%s", t); for (i = 0; i < n; i++) printf (" %02x", b[i]); printf ("\n");
}
int main (void) {
  struct { char tag[3]; char kind; short code; } l = { "abc", 'x', 1234 };
  printf ("%d %d %d %ld %d %d\n", r.code, r2.code, l.code, r5.v, r6.m, r6.a[1][0]);
  dump ("r", &r, sizeof r); dump ("r2", &r2, sizeof r2); dump ("r5", &r5, sizeof r5); dump ("r6", &r6, sizeof r6);
  return 0;
}
