/* C07-corpus: pass   (was known C07:init-local-string-place, repaired in /repo)
   automatic aggregate initialisers: a string literal element is copied with its terminating zero
   even when it fits the array exactly (writes one byte past the array), and the next non-scalar
   element is stored at the running offset instead of its own offset, so a string member that
   follows an exact-fit one lands one byte late */
#include <stdio.h>
struct T { unsigned m0; char m1[1]; unsigned char m2[4]; char m3[2]; char z; };
int main (void) {
  struct T b = { .m0 = 1u, .m1 = "x", .m2 = "Svf", .m3 = "pq", .z = 5 };
  printf ("%d | %d %d %d %d | %d %d | %d\n", b.m1[0], b.m2[0], b.m2[1], b.m2[2], b.m2[3], b.m3[0], b.m3[1], b.z);
  return 0;
}
