/* C07-corpus: pass   (was known C07:engines-disagree:gen-opt:crash until /repo e56bef25)
   MIR generator (copy_prop, mir-gen.c ext-of-ext rewrite) dereferences a NULL ssa edge at -O2/-O3 (also -el/-eb):
   def_insn == insn for `ext16 x,x` in a loop; interpreter and -O0/-O1 run the same MIR correctly. C01 territory. */
#include <stdio.h>
static void u3 (void) {
  short x1 = -32768;
  int x4 = 1666216470;
  int i3, j;
  for (i3 = 0; i3 < 3; i3++) {
    if ((_Bool) ((char) (-127) < (unsigned short) x4)) continue;
    if ((_Bool) ((unsigned long long) x4 * 6430032218824919246ULL < (short) (0u - (unsigned int) (short) x1))) {
      j = 1; while (j-- > 0) { x1 = (short) x1; }
    } else {
    }
  }
}
int main (void) { u3 (); printf ("ok\n"); return 0; }
