/* found only through the LAST -I directory (see inc_src.c) */
#define HDRVAL 41
#ifdef C17_EXTRA
#define HDRVAL2 C17_EXTRA
#else
#define HDRVAL2 0
#endif
