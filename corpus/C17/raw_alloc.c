/* minimal program that drives every raw-allocator site of c2mir.c: object-like and function-like
   macros (new_macro, new_macro_call, free_macro_call), conditionals (new_ifstate, pop_ifstate),
   an include-less stream (free_stream) and all four pass contexts */
#define TWICE(x) ((x) + (x))
#define N 3
#if N > 2
#define M TWICE (N)
#else
#define M 0
#endif
#ifdef UNDEFINED_THING
int never;
#endif
int main (void) { return M - 6; }
