/* declarations that complete an earlier incomplete-type declaration of the same object:
   c2mir replaces the symbol's definition list in its symbol table (symbol_def_replace -> HTAB_REPLACE) */
extern int a[];
struct S;
extern struct S s;
union U;
extern union U u;
extern int b[];
int a[3] = {1, 2, 3};
struct S { int x, y; };
struct S s = {4, 5};
union U { long l; char c[8]; };
union U u = {6};
int b[2];
extern int a[3];
int main (void) { return a[1] + s.y + (int) u.l + b[1] - 13; }
