/* erroneous translation unit: syntax errors after macro expansion (c2mir error recovery path) */
#define F(x) x +
int main (void) { int a = F (1); return undeclared_thing + ; }
