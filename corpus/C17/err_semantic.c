/* erroneous translation unit: semantic errors (type checker error path) */
struct s { int a; };
int f (int x) { struct s v; return v + x; }
int main (void) { int *p = 1.5; goto nowhere; return f (1, 2); }
