/* the header is not next to this file: c2mir has to walk the -I directory list for it */
#include "c17_hdr.h"
#include "c17_hdr.h"
int main (void) { return HDRVAL + HDRVAL2 - 41; }
