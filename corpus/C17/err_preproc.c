/* erroneous translation unit: preprocessor errors (unterminated conditional, bad directive, missing include) */
#include "no_such_header_c17.h"
#define G(a, b) a##b
#if 1
#if G(1,
int x;
#foo
int main (void) { return 0; }
