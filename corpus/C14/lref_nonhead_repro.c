/* C reproducer of known finding C14:lref-nonhead-unregistered (not read by the check):
   `c2m lref_nonhead_repro.c -ei` (or -eg, -el) segfaults on the unfixed tree, gcc prints "ok".
   c2mir emits `S0_main_s: i64 1 / lref L1`: the lref is not the first item of its section. */
#include <stdio.h>
int main (void) {
  static struct { long a; void *p; } s = {1, &&l1};
  goto *s.p;
l1:
  printf ("ok\n");
  return 0;
}
