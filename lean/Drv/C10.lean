/-! line-protocol driver for property C10 (stub) -/
def main (_args : List String) : IO Unit := pure ()
