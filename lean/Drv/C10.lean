import MirVerif.Model.TextIOWF
/-! line-protocol driver for property C10 (textual MIR round trip).

  mirdrv_c10 print   : module descriptions (same lines the C harness builds from) -> writer model bytes + WF verdict
  mirdrv_c10 scan    : framed texts -> scanner model verdict and re-printed bytes
  mirdrv_c10 table   : the instruction table of the model
  mirdrv_c10 float   : libc correspondence of the floating literal codec (fmt / parse)
-/
open TextIO

def bytesToChars (b : ByteArray) (lo hi : Nat) : List Char :=
  (List.range (hi - lo)).map fun i => Char.ofNat (b.get! (lo + i)).toNat

def charsToBytes (cs : List Char) : ByteArray :=
  cs.foldl (fun acc c => acc.push c.toNat.toUInt8) ByteArray.empty

def strBytes (s : String) : ByteArray := s.toUTF8

partial def readAll (h : IO.FS.Stream) (acc : ByteArray) : IO ByteArray := do
  let chunk ← h.read 65536
  if chunk.isEmpty then return acc else readAll h (acc ++ chunk)

/-- index of the next '\n' at or after `i` (or size) -/
partial def findNl (b : ByteArray) (i : Nat) : Nat :=
  if i ≥ b.size then b.size else if b.get! i == 10 then i else findNl b (i + 1)

def splitOnC (sep : Char) (s : List Char) : List (List Char) :=
  let rec go : List Char → List Char → List (List Char)
    | [], cur => [cur.reverse]
    | c :: cs, cur => if c = sep then cur.reverse :: go cs [] else go cs (c :: cur)
  go s []

def words (s : List Char) : List (List Char) := (splitOnC ' ' s).filter (· ≠ [])

def natOf? (s : List Char) : Option Nat :=
  if s.isEmpty || !(s.all isDigitC) then none else some (digitsVal s 0)

def intOf? (s : List Char) : Option Int :=
  match s with
  | '-' :: t => (natOf? t).map fun n => -(n : Int)
  | _ => (natOf? s).map fun n => (n : Int)

def hexOf? (s : List Char) : Option Nat :=
  if s.isEmpty || !(s.all isXDigit) then none else some (accDigits 16 s 0)

def hexBytes : List Char → List Char
  | a :: b :: rest => Char.ofNat (hexVal a * 16 + hexVal b) :: hexBytes rest
  | _ => []

def decName (s : List Char) : Str :=
  match s with
  | '~' :: h => hexBytes h
  | _ => s

def optName (s : List Char) : Option Str := if s = ['-'] then none else some (decName s)

def i64Of (s : List Char) : Option (BitVec 64) := (intOf? s).map fun i => BitVec.ofInt 64 i

def parseOpD (s : List Char) : Option Op :=
  match splitOnC ':' s with
  | [['r'], n] => some (.reg (decName n))
  | [['i'], v] => (i64Of v).map .int
  | [['u'], v] => (natOf? v).map fun n => .uint (BitVec.ofNat 64 n)
  | [['f'], v] => (hexOf? v).map fun n => .flt (BitVec.ofNat 32 n)
  | [['d'], v] => (hexOf? v).map fun n => .dbl (BitVec.ofNat 64 n)
  | [['l', 'd'], v] => (hexOf? v).map fun n => .ldbl (BitVec.ofNat 80 n)
  | [['r', 'e', 'f'], n] => some (.ref (decName n))
  | [['s'], h] => some (.str (hexBytes h))
  | [['s']] => some (.str [])
  | [['l'], v] => (natOf? v).map .label
  | [['m'], ty, disp, base, index, scale, al, nal] =>
    match str2type ty, i64Of disp, natOf? scale with
    | some t, some d, some sc =>
      some (.mem ⟨t, d, optName base, optName index, BitVec.ofNat 8 sc, optName al, optName nal⟩)
    | _, _, _ => none
  | _ => none

def parseVarD (s : List Char) : Option Var :=
  match splitOnC ':' s with
  | [ty, n, sz] =>
    match str2type ty, natOf? sz with
    | some t, some k => some ⟨t, decName n, k⟩
    | _, _ => none
  | _ => none

def allSome {α} : List (Option α) → Option (List α)
  | [] => some []
  | none :: _ => none
  | some x :: xs => (allSome xs).map (x :: ·)

structure B where
  mods : List Module := []
  cur : Option Module := none
  fn : Option Func := none
  /-- index of the open function in the module's item list (`add_item` appends it at `MIR_new_func`) -/
  fnPos : Nat := 0

def addIt (b : B) (it : Item) : Option B :=
  b.cur.map fun m => { b with cur := some { m with items := m.items ++ [it] } }

/-- `vararg nres res… nargs arg…` -/
def parseSig (ws : List (List Char)) : Option (Bool × List Ty × List Var) :=
  match ws with
  | va :: nres :: rest =>
    match natOf? va, natOf? nres with
    | some v, some nr =>
      match allSome ((rest.take nr).map str2type), rest.drop nr with
      | some res, nargs :: args =>
        match natOf? nargs with
        | some na =>
          if args.length ≠ na then none else
          (allSome (args.map parseVarD)).map fun a => (v == 1, res, a)
        | none => none
      | _, _ => none
    | _, _ => none
  | _ => none

def stepLine (b : B) (ws : List (List Char)) : Option B :=
  match ws with
  | [] => some b
  | kw :: args =>
    let k := String.ofList kw
    match k, args with
    | "labels", _ => some b
    | "run", _ => some b
    | "module", [n] => some { b with cur := some ⟨decName n, []⟩ }
    | "endmodule", [] => b.cur.map fun m => { b with mods := b.mods ++ [m], cur := none }
    | "export", [n] => addIt b (.export (decName n))
    | "import", [n] => addIt b (.import (decName n))
    | "forward", [n] => addIt b (.forward (decName n))
    | "bss", [n, len] => (natOf? len).bind fun l => addIt b (.bss (optName n) (BitVec.ofNat 64 l))
    | "strdata", [n, h] => addIt b (.data (optName n) .u8 ((hexBytes h).map (·.toNat)))
    | "strdata", [n] => addIt b (.data (optName n) .u8 [])
    | "data", n :: ty :: cnt :: vals =>
      (match str2type ty, natOf? cnt, allSome (vals.map hexOf?) with
       | some t, some c, some vs => if vs.length = c then addIt b (.data (optName n) t vs) else none
       | _, _, _ => none)
    | "ref", [n, it, d] => (i64Of d).bind fun dv => addIt b (.ref (optName n) (decName it) dv)
    | "lref", [n, l1, l2, d] =>
      (match natOf? l1, i64Of d with
       | some a, some dv =>
         if l2 = ['-'] then addIt b (.lref (optName n) a none dv)
         else (natOf? l2).bind fun c => addIt b (.lref (optName n) a (some c) dv)
       | _, _ => none)
    | "expr", [n, f] => addIt b (.expr (optName n) (decName f))
    | "proto", n :: sig =>
      (parseSig sig).bind fun (v, res, a) => addIt b (.proto (decName n) res a v)
    | "func", n :: sig =>
      (parseSig sig).map fun (v, res, a) =>
        { b with fn := some ⟨decName n, res, a, v, [], [], []⟩, fnPos := ((b.cur.map (·.items.length)).getD 0) }
    | "local", [ty, n] =>
      (match str2type ty, b.fn with
       | some t, some f => some { b with fn := some { f with locals := f.locals ++ [(t, decName n)] } }
       | _, _ => none)
    | "global", [ty, n, hr] =>
      (match str2type ty, b.fn with
       | some t, some f => some { b with fn := some { f with globals := f.globals ++ [(t, decName n, decName hr)] } }
       | _, _ => none)
    | "label", [l] =>
      (match natOf? l, b.fn with
       | some k, some f => some { b with fn := some { f with body := f.body ++ [.label k] } }
       | _, _ => none)
    | "insn", nm :: cnt :: ops =>
      (match findInsn nm, natOf? cnt, allSome (ops.map parseOpD), b.fn with
       | some c, some k, some os, some f =>
         if os.length = k then some { b with fn := some { f with body := f.body ++ [.insn c os] } } else none
       | _, _, _, _ => none)
    | "endfunc", [] =>
      (match b.fn, b.cur with
       | some f, some m =>
         some { b with fn := none, cur := some { m with items := m.items.take b.fnPos ++ [.func f] ++ m.items.drop b.fnPos } }
       | _, _ => none)
    | _, _ => none

def buildCase (lines : List (List Char)) : Option (List Module) :=
  let rec go : B → List (List Char) → Option B
    | b, [] => some b
    | b, l :: ls => (stepLine b (words l)).bind fun b' => go b' ls
  (go {} lines).map (·.mods)

def errStr : Err → String
  | .syntax m => "syntax " ++ m
  | .api m => "api " ++ m
  | .unmodelled m => "unmodelled " ++ m
  | .internal => "internal"

def emit (out : IO.FS.Stream) (s : String) : IO Unit := out.write (strBytes s)

def emitBlob (out : IO.FS.Stream) (tag : String) (cs : List Char) : IO Unit := do
  let b := charsToBytes cs
  out.write (strBytes s!"{tag} {b.size}\n")
  out.write b
  out.write (strBytes "\n")

/-- all lines of the input as char lists -/
def allLines (b : ByteArray) : List (List Char) := splitOnC '\n' (bytesToChars b 0 b.size)

def isCaseLine (l : List Char) : Option (List Char) :=
  match words l with
  | [['c', 'a', 's', 'e'], id] => some id
  | _ => none

partial def runPrint (out : IO.FS.Stream) (lines : List (List Char)) : IO Unit := do
  match lines with
  | [] => return
  | l :: rest =>
    match isCaseLine l with
    | none => runPrint out rest
    | some id =>
      let body := rest.takeWhile fun x => x ≠ ['e', 'n', 'd']
      let rest' := (rest.dropWhile fun x => x ≠ ['e', 'n', 'd']).drop 1
      emit out s!"case {String.ofList id}\n"
      match buildCase body with
      | none => emit out "baddesc\n"
      | some ms =>
        emitBlob out "text" (printText ms)
        emit out s!"wf {wfReport ms}\n"
        emitBlob out "norm" (printText (normText ms))
      runPrint out rest'

partial def runScan (out : IO.FS.Stream) (b : ByteArray) (i : Nat) : IO Unit := do
  if i ≥ b.size then return
  let e := findNl b i
  let hdr := words (bytesToChars b i e)
  match hdr with
  | [['c', 'a', 's', 'e'], id, len] =>
    match natOf? len with
    | none => return
    | some n =>
      let txt := bytesToChars b (e + 1) (e + 1 + n)
      emit out s!"case {String.ofList id}\n"
      match scanText txt with
      | .ok ms =>
        emitBlob out "ok" (printText ms)
        match scanLastTemps txt with
        | .ok ks => emit out s!"lasttemp {" ".intercalate (ks.map toString)}\n"
        | .error _ => pure ()
      | .error err => emit out s!"err {errStr err}\n"
      runScan out b (e + 1 + n + 1)
  | _ => runScan out b (e + 1)

def runTable (out : IO.FS.Stream) : IO Unit := do
  for i in List.range insnTable.length do
    emit out s!"{i} {String.ofList (insnName i)} {insnNops i} {if isBranchCode i then 1 else 0} {if isCallCode i then 1 else 0} {if isVarNops i then 1 else 0}\n"
  emit out s!"codes {opJMP} {opUBNO} {opLADDR} {opSWITCH} {opRET} {opJRET} {opPRBEQ} {opPRBNE} {opUNSPEC} {opUSE} {opPHI} {opLABEL} {opINVALIDINSN} {insnTable.length}\n"
  emit out s!"digits {fmtF.prec} {fmtD.prec} {fmtLD.prec}\n"

def hexOfNat (n : Nat) (digits : Nat) : String := String.ofList (padLeft digits '0' (natHex n))

/-- lines: `fmt f|d|ld <hexbits>` -> printed literal ; `parse f|d|ld <lexeme>` -> hex bits -/
def runFloat (out : IO.FS.Stream) (lines : List (List Char)) : IO Unit := do
  for l in lines do
    match words l with
    | [['f', 'm', 't'], k, h] =>
      let fm := if k = ['f'] then fmtF else if k = ['d'] then fmtD else fmtLD
      match hexOf? h with
      | some bits =>
        match fmtSci fm bits with
        | some s => emit out s!"{String.ofList s}\n"
        | none => emit out "special\n"
      | none => emit out "bad\n"
    | [['p', 'a', 'r', 's', 'e'], k, lx] =>
      let fm := if k = ['f'] then fmtF else if k = ['d'] then fmtD else fmtLD
      match parseSci fm lx with
      | some bits => emit out s!"{hexOfNat bits (fm.totalBits / 4)}\n"
      | none => emit out "none\n"
    | _ => pure ()

def main (args : List String) : IO Unit := do
  let inp ← readAll (← IO.getStdin) ByteArray.empty
  let out ← IO.getStdout
  match args with
  | ["print"] => runPrint out (allLines inp)
  | ["scan"] => runScan out inp 0
  | ["table"] => runTable out
  | ["float"] => runFloat out (allLines inp)
  | _ => IO.eprintln "usage: mirdrv_c10 print|scan|table|float"
