import MirVerif.Model.Sem
import MirVerif.Model.SemFp
/-! `mirdrv_c02`: evaluates the documented semantics (`docSem` & co.) on lines
`<key> <hex a> <hex b>` and prints the documented result as hex (`undef` outside the domain).
keys:  bin:<aop>:<0|1>   br:<aop>:<0|1>   ext:<k>:<0|1>   ext2:<k1>:<s1>:<k2>:<s2>   ldext:<t>:<k>:<s>   neg:<0|1>
       ov:<add|sub|mul|umul>:<0|1>:<res|sov|uov>   fp:<name>   ld:<type>   st:<type> -/
open MirVerif

def parseHex (s : String) : UInt64 :=
  s.foldl (fun acc c =>
    let d := if c.isDigit then c.toNat - '0'.toNat
             else if 'a' ≤ c ∧ c ≤ 'f' then c.toNat - 'a'.toNat + 10
             else if 'A' ≤ c ∧ c ≤ 'F' then c.toNat - 'A'.toNat + 10 else 0
    acc * 16 + d.toUInt64) 0

def hex (x : W64) : String := String.ofList (Nat.toDigits 16 x.toNat)

def aopOf : String → Option AOp
  | "add" => some .add | "sub" => some .sub | "mul" => some .mul | "div" => some .div
  | "udiv" => some .udiv | "mod" => some .mod | "umod" => some .umod | "and" => some .and
  | "or" => some .or | "xor" => some .xor | "lsh" => some .lsh | "rsh" => some .rsh
  | "ursh" => some .ursh | "eq" => some .eq | "ne" => some .ne | "lt" => some .lt
  | "ult" => some .ult | "le" => some .le | "ule" => some .ule | "gt" => some .gt
  | "ugt" => some .ugt | "ge" => some .ge | "uge" => some .uge | _ => none

def b2s (b : Bool) : String := if b then "1" else "0"

def evalLine (toks : List String) : String :=
  match toks with
  | [key, sa, sb] =>
    let a : W64 := BitVec.ofNat 64 (parseHex sa).toNat
    let b : W64 := BitVec.ofNat 64 (parseHex sb).toNat
    match key.splitOn ":" with
    | ["bin", o, s] =>
      match aopOf o with
      | some ao => match docSem ao (s == "1") a b with
        | some r => hex r
        | none => "undef"
      | none => "bad-key"
    | ["br", o, s] =>
      match aopOf o with
      | some ao => match docSem ao (s == "1") a b with
        | some _ => b2s (docBranch ao (s == "1") a b)
        | none => "undef"
      | none => "bad-key"
    | ["ext", k, s] => hex (docExt k.toNat! (s == "1") a)
    | ["ext2", k1, s1, k2, s2] =>   -- two extensions in a row (the optimizer merges them)
      hex (docExt k2.toNat! (s2 == "1") (docExt k1.toNat! (s1 == "1") a))
    | ["ldext", t, k, s] =>   -- an extension of a value loaded from memory of type t
      match docLoad t a with
      | some v => hex (docExt k.toNat! (s == "1") v)
      | none => "bad-key"
    | ["neg", s] => hex (docNeg (s == "1") a)
    | ["ov", o, s, what] =>
      let short := s == "1"
      let r : W64 × Bool × Bool :=
        match o, short with
        | "add", false => let (r, sv, uv) := docAddO a b; (r, sv, uv)
        | "add", true => let (r, sv, uv) := docAddO (lo32 a) (lo32 b); (sext32 r, sv, uv)
        | "sub", false => let (r, sv, uv) := docSubO a b; (r, sv, uv)
        | "sub", true => let (r, sv, uv) := docSubO (lo32 a) (lo32 b); (sext32 r, sv, uv)
        | "mul", false => let (r, sv) := docMulO a b; (r, sv, false)
        | "mul", true => let (r, sv) := docMulO (lo32 a) (lo32 b); (sext32 r, sv, false)
        | "umul", false => let (r, uv) := docUMulO a b; (r, false, uv)
        | _, _ => let (r, uv) := docUMulO (lo32 a) (lo32 b); (sext32 r, false, uv)
      match what with
      | "res" => hex r.1
      | "sov" => b2s r.2.1
      | _ => b2s r.2.2
    | ["fp", name] => fpEval name (parseHex sa) (parseHex sb)
    | ["ld", t] => match docLoad t a with | some r => hex r | none => "bad-key"
    | ["btld", t, kind] =>   -- bt/bf/bts/bfs on a value loaded from memory of type t
      match docLoad t a with
      | some v => b2s (docBT (kind == "bts" || kind == "bfs") (kind == "bf" || kind == "bfs") v)
      | none => "bad-key"
    | ["bt", kind] => b2s (docBT (kind == "bts" || kind == "bfs") (kind == "bf" || kind == "bfs") a)
    | ["btimm", kind] => b2s (docBT (kind == "bts" || kind == "bfs") (kind == "bf" || kind == "bfs") b)
    | ["st", t] => match docStore t a b with | some r => hex r | none => "bad-key"
    | _ => "bad-key"
  | _ => "bad-line"

partial def loop (h : IO.FS.Stream) (out : IO.FS.Stream) : IO Unit := do
  let line ← h.getLine
  if line.isEmpty then return ()
  out.putStrLn (evalLine (line.trimAscii.toString.splitOn " "))
  loop h out

def main (_args : List String) : IO Unit := do
  loop (← IO.getStdin) (← IO.getStdout)
