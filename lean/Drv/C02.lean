/-! line-protocol driver for property C02 (stub) -/
def main (_args : List String) : IO Unit := pure ()
