import MirVerif.Model.ReduceFast
/-! line-protocol driver for property C12: the same lines as harness/c12_reduce.c
     E <hex>   -> "E 1 <hex of model encoder output>"
     D <hex>   -> "D <ok> <hex of decoded bytes>"   (ok = 0: "D 0 -"; a model `oob` prints "D oob -")
     G <spec>  -> like E on generated data (rep:/lcg:/mix:, same generators as the harness)
     X <spec>  -> "X 1 <ok_dec> <same> <len>"  model encoder followed by model decoder -/
open MirVerif.Reduce

def hexDigit (c : Char) : Option Nat :=
  if '0' ≤ c ∧ c ≤ '9' then some (c.toNat - '0'.toNat)
  else if 'a' ≤ c ∧ c ≤ 'f' then some (c.toNat - 'a'.toNat + 10)
  else if 'A' ≤ c ∧ c ≤ 'F' then some (c.toNat - 'A'.toNat + 10)
  else none

def parseHex (s : String) : List UInt8 := Id.run do
  if s.startsWith "-" then return []
  let mut out : Array UInt8 := #[]
  let mut hi : Option Nat := none
  for c in s.toList do
    match hexDigit c with
    | none => break
    | some v =>
      match hi with
      | none => hi := some v
      | some h => out := out.push (UInt8.ofNat (h * 16 + v)); hi := none
  return out.toList

def hexChars : Array Char := "0123456789abcdef".toList.toArray

def toHex (bs : List UInt8) : String :=
  if bs.isEmpty then "-" else
  String.ofList (bs.foldr (fun b acc => hexChars[b.toNat / 16]! :: hexChars[b.toNat % 16]! :: acc) [])

def lcgNext (x : UInt64) : UInt64 := x * 6364136223846793005 + 1442695040888963407

def genOne (spec : String) : Option (List UInt8) :=
  match spec.splitOn ":" with
  | ["rep", n, pat] =>
    let p := (parseHex pat).toArray
    let n := n.toNat!
    if p.size = 0 then (if n = 0 then some [] else none) else
    some ((List.range n).map fun i => p[i % p.size]!)
  | ["lcg", n, seed, mod] => Id.run do
    let n := n.toNat!
    let mod := mod.toNat!
    if mod = 0 then return none
    let mut x : UInt64 := UInt64.ofNat seed.toNat!
    let mut out : Array UInt8 := Array.mkEmpty n
    for _ in [0:n] do
      x := lcgNext x
      out := out.push (UInt8.ofNat ((x >>> 33).toNat % mod))
    return some out.toList
  | ["mix", n, seed, mod, run] => Id.run do
    let n := n.toNat!
    let mod := mod.toNat!
    let run := run.toNat!
    if mod = 0 ∨ run = 0 then return none
    let mut x : UInt64 := UInt64.ofNat seed.toNat!
    let mut out : Array UInt8 := Array.mkEmpty n
    for i in [0:n] do
      if (i / run) % 2 == 1 then
        out := out.push out[i - run]!
      else
        x := lcgNext x
        out := out.push (UInt8.ofNat ((x >>> 33).toNat % mod))
    return some out.toList
  | _ => none

/-- a spec may be a '+'-separated concatenation of segments (as in the harness) -/
def genData (spec : String) : Option (List UInt8) :=
  (spec.splitOn "+").foldl (fun acc s => match acc, genOne s with
    | some a, some b => some (a ++ b)
    | _, _ => none) (some [])

def encLine (d : List UInt8) : String := "E 1 " ++ toHex (encode mirCfg d)

def step (line : String) : String :=
  let op := line.take 1
  let arg := (line.drop 2).toString
  if op == "E" then encLine (parseHex arg)
  else if op == "G" then
    match genData arg with
    | some d => encLine d
    | none => "? bad spec"
  else if op == "X" then
    match genData arg with
    | some d =>
      match decodeF mirCfg (encode mirCfg d) with
      | .ok d' => s!"X 1 1 {if d' = d then 1 else 0} {d.length}"
      | .error _ => s!"X 1 0 0 {d.length}"
    | none => "? bad spec"
  else if op == "D" then
    match decodeF mirCfg (parseHex arg) with
    | .ok d => "D 1 " ++ toHex d
    | .error .reject => "D 0 -"
    | .error .oob => "D oob -"
  else "? bad op"

partial def loop (h : IO.FS.Stream) (out : IO.FS.Stream) : IO Unit := do
  let line ← h.getLine
  if line.isEmpty then return ()
  let l := line.trimAscii.toString
  if l.length ≥ 2 then
    out.putStrLn (step l)
    out.flush
  loop h out

def main (_args : List String) : IO Unit := do loop (← IO.getStdin) (← IO.getStdout)
