/-! line-protocol driver for property C12 (stub) -/
def main (_args : List String) : IO Unit := pure ()
