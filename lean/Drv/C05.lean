import MirVerif.Model.AbiX64
/-! line-protocol driver for property C05.

args:  `ldff=0|1 ldgen=0|1 blkxmm=0|1 alblk=0|1`  (which defects are repaired; default all 0 = pinned tree)
stdin: one prototype per line   `r:<t,t,…> a:<t,t,…> v:<t,…>|!`
       (`v:!` = not variadic, `v:` = variadic with empty tail; the tail is placed after the named args)
stdout per line:
  `SYSV <locs> | stk=.. xmm=.. ; FF <locs> | stk=.. xmm=.. al=8 ; GEN <locs> | stk=.. xmm=.. al=.. ; RES sysv=.. ff=.. gen=.. ; WS=0|1`
-/
open MirVerif.AbiX64

def parseList {α} (p : String → Option α) (s : String) : Option (List α) :=
  if s.isEmpty then some [] else (s.splitOn ",").mapM p

def resStr : Option (List RLoc) → String
  | none => "err"
  | some [] => "-"
  | some ls => ",".intercalate (ls.map RLoc.str)

def field (pre : String) (toks : List String) : Option String :=
  (toks.find? (·.startsWith pre)).map (fun t => (t.drop pre.length).toString)

def hexToNat (s : String) : Nat :=
  s.foldl (fun acc c =>
    let d := if c.isDigit then c.toNat - 48 else if 'a' ≤ c ∧ c ≤ 'f' then c.toNat - 87 else 0
    acc * 16 + d) 0

def natToHex (n : Nat) : String := String.ofList (Nat.toDigits 16 n)

def answer (cfg : Cfg) (line : String) : String :=
  let toks := (line.splitOn " ").filter (· ≠ "")
  -- `x:<type> <hex>` : the 64-bit register image the receiver sees for a value passed as <type>
  if line.startsWith "x:" then
    match toks with
    | [t, v] =>
      match parseRes (t.drop 2).toString with
      | some ty => natToHex (passInt ty (hexToNat v))
      | none => "ERR type"
    | _ => "ERR x"
  else
  match field "r:" toks, field "a:" toks, field "v:" toks with
  | some r, some a, some v =>
    let variadic := v ≠ "!"
    match parseList parseRes r, parseList parseArg a, parseList parseArg (if variadic then v else "") with
    | some rs, some as, some vs =>
      let all := as ++ vs
      let ws := if all.all (fun x => decide x.WellSized) then "1" else "0"
      let gal := if variadic then toString (genAl cfg all) else "-"
      s!"SYSV {(sysvPlace all).str} ; FF {(ffPlace cfg all).str} al={ffAl} ; GEN {(genPlace cfg all).str} al={gal} ; RES sysv={resStr (sysvRes rs)} ff={resStr (ffRes rs)} gen={resStr (genRes rs)} ; WS={ws}"
    | _, _, _ => "ERR parse"
  | _, _, _ => "ERR fields"

partial def loop (h : IO.FS.Stream) (cfg : Cfg) : IO Unit := do
  let line ← h.getLine
  if line.isEmpty then return ()
  IO.println (answer cfg line.trimAscii.toString)
  loop h cfg

def flag (args : List String) (name : String) : Bool := args.contains (name ++ "=1")

def main (args : List String) : IO Unit := do
  let cfg : Cfg := ⟨flag args "ldff", flag args "ldgen", flag args "blkxmm", flag args "alblk"⟩
  loop (← IO.getStdin) cfg
