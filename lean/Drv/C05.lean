/-! line-protocol driver for property C05 (stub) -/
def main (_args : List String) : IO Unit := pure ()
