/-! line-protocol driver for property C16 (stub) -/
def main (_args : List String) : IO Unit := pure ()
