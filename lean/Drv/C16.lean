import MirVerif.Model.DupRestore
import MirVerif.Lemmas.DupRestoreWfCheck
/-!
Line-protocol driver for property C16 (exe `mirdrv_c16`).

Input (stdin), one command per line:

  F ovn=<n> ng=<n> ltn=<n> lab=<n>     start a new function description (lab = ctx->curr_label_num)
  V <ty> <name>                        next element of func->vars
  RD <ty> <reg> <name> <hard>          next element of reg_descs (`-` for an empty name)
  N2R <rdn>*   /   R2R <rdn>*          members of name2rdn_tab / reg2rdn_tab
  I @<id> <name> d=<@id|-> n=<nops> <op>*   an instruction; appended to func->insns (W) in order
  LR <@id|-> <@id|-> <@id|-> <@id|->   label label2 orig_label orig_label2 of the next lref
  WF                                   evaluate `wfCheck` (hypothesis of the C16 theorems) on the state
  DUP | RESTORE                        run the model function
  E <edit…>                            position-based edit of the working copy (see `runEdit`)
  DUMP                                 print the canonical description of the current state
  PRINT                                print what `MIR_output_item` would show (model `print`)
  KINDS <name>*                        print the classification of each opcode name

operands:  L@<id> | L-   label pointer;  R<reg>;  M<ty>,<base>,<index>,<rest>;  X<text>
Every edit is executed through `applyEdit` of the model, after checking `Edit.legal mark`.
-/
open MirVerif.DupRestore

structure St where
  s : State := { heap := ⟨fun _ => none⟩, next := 0, func := default }
  mark : Nat := 0          -- allocation mark at the last DUP
  labnum : Nat := 0        -- ctx->curr_label_num
  illegal : Nat := 0       -- number of edits that were not legal (must stay 0)

def parsePtr (t : String) : Option Nat :=
  if t == "-" then none else (t.drop 1).toNat?

def showPtr : Option Nat → String
  | none => "-"
  | some i => s!"@{i}"

def parseOp (t : String) : Op :=
  if t.startsWith "L" then .lab (parsePtr (t.drop 1).toString)
  else if t.startsWith "R" then .reg ((t.drop 1).toNat?.getD 0)
  else if t.startsWith "M" then
    match ((t.drop 1).toString.splitOn ",") with
    | ty :: b :: i :: rest => .mem ty (b.toNat?.getD 0) (i.toNat?.getD 0) (",".intercalate rest)
    | _ => .other t
  else .other ((t.drop 1).toString)

def showOp : Op → String
  | .lab p => "L" ++ showPtr p
  | .reg r => s!"R{r}"
  | .mem ty b i rest => s!"M{ty},{b},{i},{rest}"
  | .other t => "X" ++ t

def kv (t : String) : String := ((t.splitOn "=").getD 1 "")

def showKind : Kind → String
  | .label => "label" | .jmpi => "jmpi" | .switch => "switch" | .laddr => "laddr"
  | .branch => "branch" | .other => "other"

def sortNat (l : List Nat) : List Nat := l.mergeSort (· ≤ ·)

def nopsOf (i : Insn) : Nat := if i.kind = .label then 0 else i.ops.length

def showInsn (h : Heap) (id : Nat) : String :=
  match h id with
  | none => s!"I @{id} <freed>"
  | some i =>
    s!"I @{id} {i.name} d={showPtr i.data} n={nopsOf i}" ++
      String.join (i.ops.map (fun o => " " ++ showOp o))

def orDash (s : String) : String := if s.isEmpty then "-" else s

def dump (st : St) : List String :=
  let f := st.s.func
  [s!"F ovn={f.originalVarsNum} ng={f.nglobals} ltn={f.lastTempNum} lab={st.labnum}"] ++
  f.vars.map (fun v => s!"V {v.ty} {v.name}") ++
  (f.regDescs.drop 1).map (fun d => s!"RD {d.ty} {d.reg} {orDash d.name} {orDash d.hard}") ++
  ["N2R" ++ String.join ((sortNat f.name2rdn).map (fun r => s!" {r}")),
   "R2R" ++ String.join ((sortNat f.reg2rdn).map (fun r => s!" {r}"))] ++
  f.vars.map (fun v =>
    match lookupName f v.name with
    | none => s!"LK {v.name} ?"
    | some d => s!"LK {v.name} {d.ty} {d.reg} {orDash d.hard} {regName f d.reg}") ++
  ["O" ++ String.join (f.originalInsns.map (fun i => s!" @{i}")),
   "W" ++ String.join (f.insns.map (fun i => s!" @{i}"))] ++
  (f.originalInsns ++ f.insns).map (showInsn st.s.heap) ++
  f.lrefs.map (fun r =>
    s!"LR {showPtr r.label} {showPtr r.label2} {showPtr r.origLabel} {showPtr r.origLabel2}")

def showPrinted (p : Printed) : List String :=
  p.vars.map (fun (a, b, c) => s!"PV {a} {b} {orDash c}") ++
  p.insns.map (fun (n, ops) => s!"PI {n}" ++ String.join (ops.map (fun o => " " ++ o))) ++
  p.lrefs.map (fun (a, b) => s!"PL {a} {orDash b}")

/-- labels of the working list, in list order -/
def wlabels (s : State) : List Nat :=
  s.func.insns.filter (fun i => match s.heap i with
    | some insn => insn.kind == .label
    | none => false)

def nthLabel (s : State) (k : Nat) : Option Nat :=
  let ls := wlabels s
  if ls.isEmpty then none else ls[k % ls.length]?

def applyChecked (st : St) (e : Edit) : St :=
  if decide (e.legal st.mark) then { st with s := applyEdit st.s e }
  else { st with illegal := st.illegal + 1 }

def applyAll (st : St) (es : List Edit) : St := es.foldl applyChecked st

def insertAt (l : List Nat) (p : Nat) (x : Nat) : List Nat := l.take p ++ [x] ++ l.drop p

def mkInsn (name : String) (ops : List Op) : Insn :=
  { kind := kindOfName name, name := name, ops := ops, data := none }

/-- insert a freshly allocated instruction before position `pos % (len+1)` -/
def insNew (st : St) (pos : Nat) (insn : Insn) : St :=
  let w := st.s.func.insns
  let p := pos % (w.length + 1)
  let id := st.s.next
  applyAll st [.setInsn id insn, .setList (insertAt w p id)]

def natOf (t : String) : Nat := t.toNat?.getD 0

/-- position-based edits, the same interpretation as harness/c16_struct.c `run_edit` -/
def runEdit (st : St) (ws : List String) : St :=
  let w := st.s.func.insns
  let len := w.length
  match ws with
  | ["ins", pos, "mov", a, b] => insNew st (natOf pos) (mkInsn "mov" [.reg (natOf a), .reg (natOf b)])
  | ["ins", pos, "label"] =>
    let st1 := { st with labnum := st.labnum + 1 }
    insNew st1 (natOf pos) (mkInsn "label" [.other s!"int:{st1.labnum}"])
  | ["ins", pos, "jmp", k] =>
    match nthLabel st.s (natOf k) with
    | none => st
    | some l => insNew st (natOf pos) (mkInsn "jmp" [.lab (some l)])
  | ["ins", pos, "bt", k, r] =>
    match nthLabel st.s (natOf k) with
    | none => st
    | some l => insNew st (natOf pos) (mkInsn "bt" [.lab (some l), .reg (natOf r)])
  | ["ins", pos, "switch", r, k1, k2] =>
    match nthLabel st.s (natOf k1), nthLabel st.s (natOf k2) with
    | some l1, some l2 =>
      insNew st (natOf pos) (mkInsn "switch" [.reg (natOf r), .lab (some l1), .lab (some l2)])
    | _, _ => st
  | ["del", pos] =>
    if len = 0 then st else
    let p := natOf pos % len
    match w[p]? with
    | none => st
    | some id =>
      match st.s.heap id with
      | none => st
      | some insn =>
        if insn.kind = .label then st
        else applyAll st [.setList (w.take p ++ w.drop (p + 1)), .free id]
  | ["move", a, b] =>
    if len = 0 then st else
    let p := natOf a % len
    match w[p]? with
    | none => st
    | some id =>
      let w1 := w.take p ++ w.drop (p + 1)
      let q := natOf b % (w1.length + 1)
      applyAll st [.setList (insertAt w1 q id)]
  | ["setop", pos, idx, kind, v] =>
    if len = 0 then st else
    match w[natOf pos % len]? with
    | none => st
    | some id =>
      match st.s.heap id with
      | none => st
      | some insn =>
        if insn.kind = .label || insn.ops.isEmpty then st
        else
          let i := natOf idx % insn.ops.length
          let newOp : Option Op :=
            if kind == "reg" then some (.reg (natOf v))
            else if kind == "int" then some (.other s!"int:{v}")
            else (nthLabel st.s (natOf v)).map (fun l => Op.lab (some l))
          match newOp with
          | none => st
          | some o => applyAll st [.setInsn id { insn with ops := insn.ops.set i o }]
  | ["setdata", pos, k] =>
    if len = 0 then st else
    match w[natOf pos % len]? with
    | none => st
    | some id =>
      match st.s.heap id with
      | none => st
      | some insn =>
        let d := if k == "-" then none else nthLabel st.s (natOf k)
        applyAll st [.setInsn id { insn with data := d }]
  | ["setcode", pos, name] =>
    if len = 0 then st else
    match w[natOf pos % len]? with
    | none => st
    | some id =>
      match st.s.heap id with
      | none => st
      | some insn =>
        -- only between plain three-operand arithmetic codes (same nops, no labels)
        if insn.kind = .other && insn.ops.length = 3 && kindOfName name = .other then
          applyAll st [.setInsn id { insn with name := name }]
        else st
  | ["newtemp", ty] => applyAll st [.newTemp ty]
  | ["addreg", ty, name] => applyAll st [.addReg ty name]
  | ["lref", j, k1, k2] =>
    let n := st.s.func.lrefs.length
    if n = 0 then st else
    match nthLabel st.s (natOf k1) with
    | none => st
    | some l1 =>
      let l2 := if k2 == "-" then none else nthLabel st.s (natOf k2)
      applyAll st [.setLref (natOf j % n) (some l1) l2]
  | _ => st

def addInsn (st : St) (ws : List String) : St :=
  match ws with
  | idt :: name :: d :: _n :: ops =>
    let id := (parsePtr idt).getD 0
    let insn : Insn := { kind := kindOfName name, name := name, ops := ops.map parseOp,
                         data := parsePtr (kv d) }
    let s := st.s
    { st with s := { heap := s.heap.set id (some insn), next := max s.next (id + 1),
                     func := { s.func with insns := s.func.insns ++ [id] } } }
  | _ => st

def undash (s : String) : String := if s == "-" then "" else s

def step (st : St) (ws : List String) : St × List String :=
  match ws with
  | "F" :: a :: b :: c :: d :: _ =>
    ({ s := { heap := ⟨fun _ => none⟩, next := 0,
              func := { (default : Func) with originalVarsNum := natOf (kv a), nglobals := natOf (kv b),
                                              lastTempNum := natOf (kv c),
                                              regDescs := [⟨"i64", 0, "", ""⟩] } },
       mark := 0, labnum := natOf (kv d), illegal := 0 }, [])
  | ["V", ty, name] =>
    ({ st with s := { st.s with func := { st.s.func with vars := st.s.func.vars ++ [⟨ty, name⟩] } } }, [])
  | ["RD", ty, reg, name, hard] =>
    ({ st with s := { st.s with func := { st.s.func with
        regDescs := st.s.func.regDescs ++ [⟨ty, natOf reg, undash name, undash hard⟩] } } }, [])
  | "N2R" :: rs =>
    ({ st with s := { st.s with func := { st.s.func with name2rdn := rs.map natOf } } }, [])
  | "R2R" :: rs =>
    ({ st with s := { st.s with func := { st.s.func with reg2rdn := rs.map natOf } } }, [])
  | "I" :: rest => (addInsn st rest, [])
  | ["LR", a, b, c, d] =>
    ({ st with s := { st.s with func := { st.s.func with
        lrefs := st.s.func.lrefs ++ [⟨parsePtr a, parsePtr b, parsePtr c, parsePtr d⟩] } } }, [])
  | ["WF"] => (st, [s!"WF {if wfCheck st.s then 1 else 0}"])
  | ["DUP"] => ({ st with s := duplicate st.s, mark := st.s.next }, [])
  | ["RESTORE"] => ({ st with s := restore st.s }, [])
  | "E" :: e => (runEdit st e, [])
  | ["DUMP"] => (st, dump st ++ [s!"END illegal={st.illegal}"])
  | ["PRINT"] => (st, showPrinted (print st.s) ++ ["END"])
  | "KINDS" :: names => (st, names.map (fun n => s!"K {n} {showKind (kindOfName n)}"))
  | _ => (st, [])

partial def loop (h : IO.FS.Stream) (out : IO.FS.Stream) (st : St) : IO Unit := do
  let line ← h.getLine
  if line.isEmpty then return ()
  let ws := (line.trimAscii.toString.splitOn " ").filter (· ≠ "")
  let (st', o) := step st ws
  for l in o do out.putStrLn l
  loop h out st'

def main (_args : List String) : IO Unit := do
  let out ← IO.getStdout
  loop (← IO.getStdin) out {}
  out.flush
