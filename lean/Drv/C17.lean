/-! line-protocol driver for property C17 (stub) -/
def main (_args : List String) : IO Unit := pure ()
