/-
mirdrv_c17 — line-protocol front end of the C17 models.

  mirdrv_c17 ledger   stdin: allocator event trace recorded by harness/c17_harness.c
                      runs `Alloc.stepLenient` (the proven `step` + repair) on `Std.HashMap`;
                      prints one `V <line> <label> <violation>` per violation, `LEAK <addr> <size>`
                      lines at `F`, and `END events=… live=… maps=… wr=… violations=…`
  mirdrv_c17 varr     stdin: VARR operation lines (with the allocator's answers) — prints the events
                      and the array state the model `VarrAlloc.sysStep` predicts after each operation
  mirdrv_c17 code     stdin: `ps N` then code-page operation lines — prints the events and result the
                      model `AllocCode.codeStep` predicts

Event syntax (decimal numbers):
  m size ret | c num size ret | r ptr old new ret | f ptr | R fn ptr size caller
  M len ret | U ptr len | P ptr len w|x | W ptr len | q | F | ps N | # label
-/
import MirVerif.Model.Alloc
import MirVerif.Model.VarrAlloc
import MirVerif.Model.AllocCode

open MirVerif.Alloc MirVerif.VarrAlloc MirVerif.AllocCode

abbrev HM := Std.HashMap Nat Nat

def rawFnOfNat : Nat → RawFn
  | 0 => .malloc | 1 => .calloc | 2 => .realloc | 3 => .free | 4 => .mmap | 5 => .munmap | _ => .mprotect

def rawFnName : RawFn → String
  | .malloc => "malloc" | .calloc => "calloc" | .realloc => "realloc" | .free => "free"
  | .mmap => "mmap" | .munmap => "munmap" | .mprotect => "mprotect"

def fmtEv : Ev → String
  | .malloc s r => s!"m {s} {r}"
  | .calloc n s r => s!"c {n} {s} {r}"
  | .realloc p o n r => s!"r {p} {o} {n} {r}"
  | .free p => s!"f {p}"
  | .raw fn p s c => s!"R {rawFnName fn} {p} {s} {c}"
  | .map l r => s!"M {l} {r}"
  | .unmap p l => s!"U {p} {l}"
  | .protect p l .writeExec => s!"P {p} {l} w"
  | .protect p l .readExec => s!"P {p} {l} x"
  | .write p l => s!"W {p} {l}"
  | .quiesce => "q"
  | .fin => "F"

def fmtViolation : Violation → String
  | .badTrace w => s!"badTrace {w}"
  | .freeNotLive p => s!"freeNotLive {p}"
  | .reallocNotLive p => s!"reallocNotLive {p}"
  | .reallocOldSize p rep act => s!"reallocOldSize {p} reported={rep} actual={act}"
  | .reallocNullOld rep => s!"reallocNullOld reported={rep}"
  | .rawUse fn p s c => s!"rawUse {rawFnName fn} {p} {s} caller={c}"
  | .rawOnLedgerBlock fn p c => s!"rawOnLedgerBlock {rawFnName fn} {p} caller={c}"
  | .unmapMismatch p l => s!"unmapMismatch {p} {l}"
  | .unmapWritable p l => s!"unmapWritable {p} {l}"
  | .protectUnaligned p => s!"protectUnaligned {p}"
  | .protectOutside p l => s!"protectOutside {p} {l}"
  | .writeOutsideWindow p l => s!"writeOutsideWindow {p} {l}"
  | .windowLeftOpen pg => s!"windowLeftOpen page={pg}"
  | .leak n a s => s!"leak blocks={n} first={a} size={s}"
  | .mapLeak n a l => s!"mapLeak regions={n} first={a} len={l}"

def nat? (s : String) : Option Nat := s.toNat?

def parseEv (ws : List String) : Option Ev :=
  match ws with
  | ["m", a, b] => do pure (.malloc (← nat? a) (← nat? b))
  | ["c", a, b, c] => do pure (.calloc (← nat? a) (← nat? b) (← nat? c))
  | ["r", a, b, c, d] => do pure (.realloc (← nat? a) (← nat? b) (← nat? c) (← nat? d))
  | ["f", a] => do pure (.free (← nat? a))
  | ["R", k, a, b, c] => do pure (.raw (rawFnOfNat (← nat? k)) (← nat? a) (← nat? b) (← nat? c))
  | ["M", a, b] => do pure (.map (← nat? a) (← nat? b))
  | ["U", a, b] => do pure (.unmap (← nat? a) (← nat? b))
  | ["P", a, b, "w"] => do pure (.protect (← nat? a) (← nat? b) .writeExec)
  | ["P", a, b, "x"] => do pure (.protect (← nat? a) (← nat? b) .readExec)
  | ["W", a, b] => do pure (.write (← nat? a) (← nat? b))
  | ["q"] => some .quiesce
  | ["F"] => some .fin
  | _ => none

structure MonStat where
  line : Nat := 0
  events : Nat := 0
  viol : Nat := 0
  label : String := "-"

/-- lines that belong to the harness' correspondence protocol, not to the allocator trace -/
def ignorable (ws : List String) : Bool :=
  match ws with
  | [] => true
  | w :: rest =>
      (w.length ≥ 2 && w != "ps") || w == "S" || w == "X" || w == "G" || w == "Q" || w == "D" || (w == "R" && rest.length == 1)

/- the ledger is passed on its own (not inside a record that stays alive) so that the hash map
is updated in place -/
partial def ledgerLoop (h : IO.FS.Stream) (L : Ledger HM) (st : MonStat) : IO (Ledger HM × MonStat) := do
  let line ← h.getLine
  if line.isEmpty then return (L, st)
  let t := line.trimAscii.toString
  let st := { st with line := st.line + 1 }
  if t.isEmpty then ledgerLoop h L st
  else if t.startsWith "#" then
    ledgerLoop h L { st with label := ((t.drop 1).trimAscii.toString.replace " " "_") }
  else
    let ws := t.splitOn " "
    match ws with
    | ["ps", n] => ledgerLoop h { L with ps := (nat? n).getD 4096 } st
    | _ =>
      match parseEv ws with
      | none =>
          if ignorable ws then ledgerLoop h L st
          else
            IO.println s!"V {st.line} {st.label} parseError {t}"
            ledgerLoop h L { st with viol := st.viol + 1 }
      | some e =>
          -- leak details before `fin` resets the ledger
          if e == .fin then
            let l := (LiveMap.toList L.live).toArray.qsort (fun a b => a.1 < b.1)
            for p in l.toList.take 5000 do
              IO.println s!"LEAK {p.1} {p.2}"
            for r in L.maps do
              IO.println s!"MAPLEAK {r.1} {r.2}"
          let (L', v) := stepLenient L e
          let st := { st with events := st.events + 1 }
          match v with
          | none => ledgerLoop h L' st
          | some v =>
              IO.println s!"V {st.line} {st.label} {fmtViolation v}"
              ledgerLoop h L' { st with viol := st.viol + 1 }

def runLedger : IO Unit := do
  let (L, st) ← ledgerLoop (← IO.getStdin) (Ledger.init 4096) {}
  let live := (LiveMap.toList L.live).length
  IO.println s!"END events={st.events} live={live} maps={L.maps.length} wr={L.wr.length} violations={st.viol}"

/-! ### VARR correspondence -/

def parseSysOp (ws : List String) : Option SysOp :=
  match ws with
  | ["vcreate", h, esz, size, hdr, data] =>
      do pure (.create (← nat? h) (← nat? esz) (← nat? size) (← nat? hdr) (← nat? data))
  | ["vop", h, "expand", n, ret] => do pure (.op (← nat? h) (.expand (← nat? n) (← nat? ret)))
  | ["vop", h, "tailor", n, ret] => do pure (.op (← nat? h) (.tailor (← nat? n) (← nat? ret)))
  | ["vop", h, "push", ret] => do pure (.op (← nat? h) (.push (← nat? ret)))
  | ["vop", h, "pusharr", len, ret] => do pure (.op (← nat? h) (.pushArr (← nat? len) (← nat? ret)))
  | ["vop", h, "pop"] => do pure (.op (← nat? h) .pop)
  | ["vop", h, "trunc", n] => do pure (.op (← nat? h) (.trunc (← nat? n)))
  | ["vdestroy", h] => do pure (.destroy (← nat? h))
  | ["omalloc", s, r] => do pure (.otherMalloc (← nat? s) (← nat? r))
  | ["ofree", p] => do pure (.otherFree (← nat? p))
  | _ => none

def sysOpHandle : SysOp → Option Nat
  | .create h .. => some h
  | .op h _ => some h
  | .destroy h => some h
  | _ => none

partial def varrLoop (h : IO.FS.Stream) (S : Sys) : IO Unit := do
  let line ← h.getLine
  if line.isEmpty then return ()
  let t := line.trimAscii.toString
  match parseSysOp (t.splitOn " ") with
  | none => varrLoop h S
  | some o =>
    IO.println t
    let (S', evs) := sysStep S o
    for e in evs do IO.println (fmtEv e)
    match sysOpHandle o with
    | some hd =>
      match S'.lookup hd with
      | some va => IO.println s!"S {hd} {va.elsNum} {va.size} {va.data}"
      | none => IO.println s!"S {hd} gone"
    | none => pure ()
    varrLoop h S'

/-! ### code page correspondence -/

def parseCodeOp (ws : List String) : Option CodeOp :=
  match ws with
  | ["cpublish", len, mr] => do pure (.publish (← nat? len) (← nat? mr))
  | ["cpublishat", addr, len, mr] => do pure (.publishByAddr (← nat? addr) (← nat? len) (← nat? mr))
  | ["cnewaddr", size, mr] => do pure (.getNewAddr (← nat? size) (← nat? mr))
  | ["cchange", addr, len] => do pure (.change (← nat? addr) (← nat? len))
  | "cupdate" :: base :: offs => do pure (.update (← nat? base) (← offs.mapM nat?))
  | _ => none

partial def codeLoop (h : IO.FS.Stream) (C : CodeCtx) : IO Unit := do
  let line ← h.getLine
  if line.isEmpty then return ()
  let t := line.trimAscii.toString
  let ws := t.splitOn " "
  match ws with
  | ["ps", n] => codeLoop h { C with ps := (nat? n).getD 4096 }
  | ["cholder", s, f, b] =>
      -- initial holders as dumped from the real context, oldest first
      codeLoop h { C with holders := { start := (nat? s).getD 0, free := (nat? f).getD 0,
                                       bound := (nat? b).getD 0 } :: C.holders }
  | ["cfinish"] =>
      IO.println t
      for e in codeFinish C do IO.println (fmtEv e)
      codeLoop h { C with holders := [] }
  | _ =>
    match parseCodeOp ws with
    | none => codeLoop h C
    | some o =>
      IO.println t
      let (C', evs) := codeStep C o
      for e in evs do IO.println (fmtEv e)
      IO.println s!"R {codeResult C o}"
      codeLoop h C'

def main (args : List String) : IO Unit := do
  match args with
  | ["ledger"] => runLedger
  | ["varr"] => varrLoop (← IO.getStdin) []
  | ["code"] => codeLoop (← IO.getStdin) { ps := 4096, holders := [] }
  | _ => IO.eprintln "usage: mirdrv_c17 ledger|varr|code  < lines"
