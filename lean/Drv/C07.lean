import MirVerif.Model.CArithExpr
/-! line-protocol driver for property C07 (`mirdrv_c07`).

    cexpr <prefix expression>     -> `<type> <value>` | `UB` | `ERR`
         L <type> <int>  |  C <type> e  |  N e (-)  |  T e (~)  |  P e (+)  |  X e (!)
         B <op> e e  (add sub mul div mod and or xor lsh rsh)  |  R <cmp> e e (eq ne lt le gt ge)
         A e e (&&)  |  O e e (||)  |  Q c e e (?:)
    bf <signed 0/1> <u> <v> <off> <w>   -> `<word after store> <value read back (two's complement, unsigned decimal)>`
    bfseq <S> <nunits> <signed 0/1> (<unit> <v> <off> <w>)*   -> the storage units (zero-initialised) after the stores
    fold <op> <type> <a> <b>      -> c2mir folding model: `<result image>` | `NONE`   (a, b: unsigned 64-bit images)
    conv <type> <x>               -> `<castValue> <cConv>` -/
open MirVerif MirVerif.CArith

def tyOf : String → Option IType
  | "bool" => some .bool | "char" => some .char | "schar" => some .schar | "uchar" => some .uchar
  | "short" => some .short | "ushort" => some .ushort | "int" => some .int | "uint" => some .uint
  | "long" => some .long | "ulong" => some .ulong | "llong" => some .llong | "ullong" => some .ullong
  | "enumI" => some .enumI | "enumU" => some .enumU | "enumL" => some .enumL | "enumUL" => some .enumUL
  | _ => none

def tyName : IType → String
  | .bool => "bool" | .char => "char" | .schar => "schar" | .uchar => "uchar" | .short => "short"
  | .ushort => "ushort" | .int => "int" | .uint => "uint" | .long => "long" | .ulong => "ulong"
  | .llong => "llong" | .ullong => "ullong" | .enumI => "enumI" | .enumU => "enumU"
  | .enumL => "enumL" | .enumUL => "enumUL"

def binOf : String → Option BinOp
  | "add" => some .add | "sub" => some .sub | "mul" => some .mul | "div" => some .div | "mod" => some .mod
  | "and" => some .and | "or" => some .or | "xor" => some .xor | "lsh" => some .lsh | "rsh" => some .rsh
  | _ => none

def cmpOf : String → Option CmpOp
  | "eq" => some .eq | "ne" => some .ne | "lt" => some .lt | "le" => some .le | "gt" => some .gt
  | "ge" => some .ge | _ => none

partial def parse : List String → Option (CExpr × List String)
  | "L" :: t :: v :: r => do pure (.lit (← tyOf t) (← v.toInt?), r)
  | "C" :: t :: r => do let (e, r) ← parse r; pure (.cast (← tyOf t) e, r)
  | "N" :: r => do let (e, r) ← parse r; pure (.neg e, r)
  | "T" :: r => do let (e, r) ← parse r; pure (.bnot e, r)
  | "P" :: r => do let (e, r) ← parse r; pure (.plus e, r)
  | "X" :: r => do let (e, r) ← parse r; pure (.lnot e, r)
  | "B" :: o :: r => do
    let (e1, r) ← parse r; let (e2, r) ← parse r; pure (.bin (← binOf o) e1 e2, r)
  | "R" :: c :: r => do
    let (e1, r) ← parse r; let (e2, r) ← parse r; pure (.cmp (← cmpOf c) e1 e2, r)
  | "A" :: r => do let (e1, r) ← parse r; let (e2, r) ← parse r; pure (.land e1 e2, r)
  | "O" :: r => do let (e1, r) ← parse r; let (e2, r) ← parse r; pure (.lor e1 e2, r)
  | "Q" :: r => do
    let (c, r) ← parse r; let (e1, r) ← parse r; let (e2, r) ← parse r; pure (.cond c e1 e2, r)
  | _ => none

/-- apply a sequence of bit-field stores to an array of zero-initialised storage units -/
def bfSeq (sg : Bool) : List Nat → List W64 → Option (List W64)
  | u :: v :: off :: w :: rest, ws =>
    if h : u < ws.length then
      bfSeq sg rest (ws.set u (bfInsert sg ws[u] (BitVec.ofNat 64 v) off w))
    else none
  | [], ws => some ws
  | _, _ => none

def step (toks : List String) : String :=
  match toks with
  | "cexpr" :: r =>
    match parse r with
    | some (e, []) =>
      match cEval e with
      | some (t, v) => s!"{tyName t} {v}"
      | none => "UB"
    | _ => "ERR"
  | ["bf", sg, u, v, off, w] =>
    match u.toNat?, v.toNat?, off.toNat?, w.toNat? with
    | some u, some v, some off, some w =>
      let s := sg == "1"
      let x := bfInsert s (BitVec.ofNat 64 u) (BitVec.ofNat 64 v) off w
      s!"{x.toNat} {(bfExtract s x off w).toNat} {(addBitField s (BitVec.ofNat 64 u) (BitVec.ofNat 64 v) off w).toNat}"
    | _, _, _, _ => "ERR"
  | "bfseq" :: _s :: n :: sg :: rest =>
    match n.toNat?, rest.mapM String.toNat? with
    | some n, some xs =>
      match bfSeq (sg == "1") xs (List.replicate n 0) with
      | some ws => " ".intercalate (ws.map fun w => toString w.toNat)
      | none => "ERR"
    | _, _ => "ERR"
  | ["fold", o, t, a, b] =>
    match binOf o, tyOf t, a.toNat?, b.toNat? with
    | some o, some t, some a, some b =>
      match foldConst o t (BitVec.ofNat 64 a) (BitVec.ofNat 64 b) with
      | some r => s!"{r.toNat}"
      | none => "NONE"
    | _, _, _, _ => "ERR"
  | ["conv", t, x] =>
    match tyOf t, x.toNat? with
    | some t, some x => s!"{(castValue t (BitVec.ofNat 64 x)).toNat} {(cConv t (BitVec.ofNat 64 x)).toNat}"
    | _, _ => "ERR"
  | _ => "ERR"

partial def loop (h : IO.FS.Stream) : IO Unit := do
  let line ← h.getLine
  if line.isEmpty then return ()
  let toks := (line.trimAscii.toString.splitOn " ").filter (· ≠ "")
  IO.println (step toks)
  loop h

def main (_args : List String) : IO Unit := do loop (← IO.getStdin)
