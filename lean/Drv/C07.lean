/-! line-protocol driver for property C07 (stub) -/
def main (_args : List String) : IO Unit := pure ()
