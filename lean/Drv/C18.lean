/-! line-protocol driver for property C18 (stub) -/
def main (_args : List String) : IO Unit := pure ()
