import MirVerif.Model.Footprint
import MirVerif.Model.FootprintAllowed
import MirVerif.Model.FootprintPages
import MirVerif.Model.FootprintHandover
/-! line-protocol driver for property C18 (`mirdrv_c18`).

`mirdrv_c18 allowed`   prints the hand-maintained classification:
    KNOWN <file> <object>
    REVIEWED <file> <object> <function> <kind>

`mirdrv_c18` (stdin):
    op <thread> <id> <const|-> R <loc>* W <loc>*    append an operation to the trace
                                                     loc = c<ctx>.<addr> | s<object>.<addr>
    run                                              evaluate the trace, print
        HYP ok | HYP bad <opindex>:<thread>:<loc> ...      (confinement hypothesis of the theorem)
        THREAD <i> agree=<0|1> results=<0|1> nres=<n> digest=<d>
        SHARED unchanged=<0|1>
        END
    reset                                            forget the trace
    ho <old> <new> <module> R <owner>* T <ctx>:<module>*   hand-over monitor (`Footprint.handoverOk`): owners of
                                                     the module's string references and item-table entries seen
                                                     after MIR_change_module_ctx; prints HO ok | HO bad refs=<n> tab=<n>
    pages <pagesize> <ctx>                           start the code-allocator event sequence of a context
      m <lo> <n> | u <lo> <n> | w <lo> <n>           mem_map / mem_unmap / mem_protect on pages lo..lo+n-1
      p <addr> <len>                                 a _MIR_change_code/_MIR_update_code call (byte range)
    endpages                                         run `Footprint.monitor`, print
        PAGES <ctx> events=<k> reqs=<r> bad=<b> patches=<p> patchbad=<q> boundary=<e> [firstbad=idx:lo:n]
              [firstpatchbad=idx:lo:n:explo:expn]
-/
open MirVerif.Footprint

structure Ent where
  tid : Nat
  id : Nat
  const : Option Nat
  rs : List Loc
  ws : List Loc

def parseLoc (s : String) : Option Loc :=
  let body := (s.drop 1).toString
  match body.splitOn "." with
  | [a, b] =>
    match a.toNat?, b.toNat? with
    | some x, some y =>
      if s.startsWith "c" then some (.ctx x y) else if s.startsWith "s" then some (.shared x y) else none
    | _, _ => none
  | _ => none

def showLoc : Loc → String
  | .ctx c a => s!"c{c}.{a}"
  | .shared o a => s!"s{o}.{a}"

def parseOp (ws : List String) : Option Ent :=
  match ws with
  | "op" :: t :: i :: c :: "R" :: rest =>
    match t.toNat?, i.toNat? with
    | some t, some i =>
      let rs := rest.takeWhile (· != "W")
      let wsr := (rest.dropWhile (· != "W")).drop 1
      let rl := rs.filterMap parseLoc
      let wl := wsr.filterMap parseLoc
      if rl.length != rs.length || wl.length != wsr.length then none
      else some { tid := t, id := i, const := c.toNat?, rs := rl, ws := wl }
    | _, _ => none
  | _ => none

def toF (es : List Ent) : List (Nat × FOp) :=
  es.map (fun e => (e.tid, { id := e.id, rs := e.rs, ws := e.ws, const := e.const }))

def dedup [BEq α] (l : List α) : List α := l.foldl (fun acc x => if acc.contains x then acc else acc ++ [x]) []

def m0 : Mem := fun l => (locCode l * 31 + 7) % 1000003

def evalTrace (es : List Ent) : List String :=
  -- `execTab` is `exec` (Lemmas/Footprint.lean: execTab_eq, own_toTrace), evaluated on a table
  let tr := toF es
  let bad := (es.zipIdx).flatMap (fun (e, k) =>
    (e.ws.filter (fun l => !l.isCtx e.tid)).map (fun l => s!"{k}:{e.tid}:{showLoc l}") ++
    (e.rs.filter (fun l => !l.visible e.tid)).map (fun l => s!"{k}:{e.tid}:{showLoc l}"))
  let hyp := if bad.isEmpty then "HYP ok" else "HYP bad " ++ " ".intercalate bad
  let locs := dedup (es.flatMap (fun e => e.rs ++ e.ws))
  let full := execTab m0 tr []
  let fullMem := tabMem m0 full.1
  let tids := dedup (es.map (·.tid))
  let thr := tids.map (fun i =>
    let alone := execTab m0 (tr.filter (fun e => e.1 == i)) []
    let vis := locs.filter (fun l => l.visible i)
    let agree := snapshot fullMem vis == snapshot (tabMem m0 alone.1) vis
    let r1 := resultsOf i full.2
    let r2 := alone.2.map (·.2)
    s!"THREAD {i} agree={if agree then 1 else 0} results={if r1 == r2 then 1 else 0} nres={r1.length} digest={r1.foldl mix 0}")
  let sh := locs.filter (·.isShared)
  let unch := snapshot fullMem sh == snapshot m0 sh
  [hyp] ++ thr ++ [s!"SHARED unchanged={if unch then 1 else 0}", "END"]

def parseCa (ws : List String) : Option CaEv :=
  match ws with
  | [k, a, b] =>
    match a.toNat?, b.toNat? with
    | some a, some b =>
      if k == "m" then some (.map a b) else if k == "u" then some (.unmap a b)
      else if k == "w" then some (.protect a b) else if k == "p" then some (.patch a b) else none
    | _, _ => none
  | _ => none

def pagesReport (page id : Nat) (evs : List CaEv) : String :=
  let r := monitor page evs
  let fb := match r.bad with | (i, lo, n) :: _ => s!" firstbad={i}:{lo}:{n}" | [] => ""
  let fp := match r.patchBad with
    | (i, lo, n, elo, en) :: _ => s!" firstpatchbad={i}:{lo}:{n}:{elo}:{en}" | [] => ""
  s!"PAGES {id} events={evs.length} reqs={r.reqs} bad={r.bad.length} patches={r.patches} patchbad={r.patchBad.length} boundary={r.boundary}{fb}{fp}"

structure DState where
  es : List Ent := []
  pg : Option (Nat × Nat) := none
  ca : List CaEv := []

partial def loop (h : IO.FS.Stream) (st : DState) : IO Unit := do
  let line ← h.getLine
  if line.isEmpty then return ()
  let ws := (line.trimAscii.toString.splitOn " ").filter (· != "")
  match st.pg, ws with
  | _, [] => loop h st
  | some (page, id), ["endpages"] =>
    IO.println (pagesReport page id st.ca.reverse)
    (← IO.getStdout).flush
    loop h { st with pg := none, ca := [] }
  | some _, _ =>
    match parseCa ws with
    | some e => loop h { st with ca := e :: st.ca }
    | none => IO.println s!"ERR cannot parse: {line.trimAscii}"; loop h st
  | none, ["pages", a, b] =>
    match a.toNat?, b.toNat? with
    | some a, some b => loop h { st with pg := some (a, b), ca := [] }
    | _, _ => IO.println s!"ERR cannot parse: {line.trimAscii}"; loop h st
  | none, "ho" :: o :: n :: md :: "R" :: rest =>
    let owners := (rest.takeWhile (· != "T")).filterMap String.toNat?
    let tabs := ((rest.dropWhile (· != "T")).drop 1).filterMap (fun t =>
      match t.splitOn ":" with
      | [a, b] => match a.toNat?, b.toNat? with | some a, some b => some (a, b, 0) | _, _ => none
      | _ => none)
    match o.toNat?, n.toNat?, md.toNat? with
    | some o, some n, some md =>
      let m : Mod := { id := md, refs := owners.zipIdx.map (fun (ow, i) => { owner := ow, str := i }) }
      let badr := (m.refs.filter (fun r => r.owner != n)).length
      let badt := (tabs.filter (fun e => e.1 == o && e.2.1 == md)).length
      IO.println (if handoverOk o n m tabs then "HO ok" else s!"HO bad refs={badr} tab={badt}")
      (← IO.getStdout).flush
      loop h st
    | _, _, _ => IO.println s!"ERR cannot parse: {line.trimAscii}"; loop h st
  | none, ["reset"] => loop h { st with es := [] }
  | none, ["run"] =>
    for s in evalTrace st.es.reverse do IO.println s
    (← IO.getStdout).flush
    loop h st
  | none, _ =>
    match parseOp ws with
    | some e => loop h { st with es := e :: st.es }
    | none => IO.println s!"ERR cannot parse: {line.trimAscii}"; loop h st

def main (args : List String) : IO Unit := do
  if args == ["allowed"] then
    for (f, o) in knownFindings do IO.println s!"KNOWN {f} {o}"
    for (f, o, fn, k) in reviewedEscapes do IO.println s!"REVIEWED {f} {o} {fn} {k}"
  else
    loop (← IO.getStdin) {}
