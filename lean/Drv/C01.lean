/-! line-protocol driver for property C01 (stub) -/
def main (_args : List String) : IO Unit := pure ()
