import MirVerif.Model.Dataflow
/-! Line-protocol driver for property C19, dataflow-solver part (`mirdrv_c19d`).
One problem per input line (see checks/c19_dataflow.py / harness/c19_dataflow_main.inc):
`D fwd mode n U ne (src dst)*ne rpost*n gen*n kill*n out0*n`   (masks in hex)
One output line: the visiting trace (passes separated by `|`, one `b:c:t` event per processed block:
flag of con_func_n or `-` for con_func_0, flag of trans_func or `-` when it was not called) and the
final in/out masks.  The trace is recomputed from the model's own `conVal`/`cflag`/`tflag` around each
`step`; the final state is additionally compared with `solve` (prints MODEL-MISMATCH if they differ). -/
open MirVerif.Dataflow

def hexDigit (c : Char) : Option Nat :=
  if '0' ≤ c ∧ c ≤ '9' then some (c.toNat - '0'.toNat)
  else if 'a' ≤ c ∧ c ≤ 'f' then some (c.toNat - 'a'.toNat + 10) else none

def parseHex (s : String) : Option Nat :=
  if s.isEmpty then none else s.toList.foldlM (fun acc c => (hexDigit c).map (fun d => acc * 16 + d)) 0

def toHex (n : Nat) : String := String.ofList (Nat.toDigits 16 n)

def insertKey (key : Nat → Int) (x : Nat) : List Nat → List Nat
  | [] => [x]
  | y :: ys => if key x < key y then x :: y :: ys else y :: insertKey key x ys

def sortBy (key : Nat → Int) (l : List Nat) : List Nat := l.foldl (fun acc x => insertKey key x acc) []

def b2s (b : Bool) : String := if b then "1" else "0"

def mkProblem (mode n full : Nat) (preds succs : Nat → List Nat) (gen kill : Nat → Nat) : Problem Nat where
  n := n
  preds := preds
  succs := succs
  init := fun _ => 0
  join := fun l => if mode = 0 then l.foldl (· ||| ·) 0 else l.foldl (· &&& ·) full
  f := fun b v => gen b ||| (v &&& (full ^^^ kill b))
  cflag := fun o n => o != n
  tflag := fun o n => o != n

def event (P : Problem Nat) (first : Bool) (σ : St Nat) (b : Nat) : String :=
  let new := conVal P σ b
  let entry := P.preds b = []
  let cf := if entry then false else P.cflag (σ.inn b) new
  let ch := first || cf
  s!"{b}:{if entry then "-" else b2s cf}:{if ch then b2s (P.tflag (σ.outt b) (P.f b new)) else "-"}"

def passT (P : Problem Nat) (first : Bool) (σ : St Nat) (w : List Nat) : (St Nat × List Nat) × List String :=
  w.foldl (fun acc b => (step P first acc.1 b, acc.2 ++ [event P first acc.1.1 b])) ((σ, []), [])

def loopT (P : Problem Nat) (sort : List Nat → List Nat) :
    Nat → Bool → St Nat → List Nat → List String → Option (St Nat × List String)
  | 0, _, _, _, _ => none
  | k + 1, first, σ, w, tr =>
    if w = [] then some (σ, tr)
    else
      let r := passT P first σ (sort w)
      loopT P sort k false r.1.1 r.1.2 (tr ++ [",".intercalate r.2])

def getD (l : List Nat) (i : Nat) : Nat := l.getD i 0

def solveLine (ws : List String) : String :=
  match ws with
  | "D" :: fwdS :: modeS :: nS :: uS :: neS :: rest =>
    match fwdS.toNat?, modeS.toNat?, nS.toNat?, uS.toNat?, neS.toNat? with
    | some fwd, some mode, some n, some u, some ne =>
      if rest.length ≠ 2 * ne + 4 * n then "bad-op" else
      match (rest.take (2 * ne)).mapM String.toNat?, ((rest.drop (2 * ne)).take n).mapM String.toNat?,
            (rest.drop (2 * ne + n)).mapM parseHex with
      | some es, some rpost, some masks =>
        let edges : List (Nat × Nat) := (List.range ne).map (fun i => (getD es (2 * i), getD es (2 * i + 1)))
        let cfgPreds : Nat → List Nat := fun b => (edges.filter (fun e => e.2 = b)).map (·.1)
        let cfgSuccs : Nat → List Nat := fun b => (edges.filter (fun e => e.1 = b)).map (·.2)
        let preds := if fwd = 1 then cfgPreds else cfgSuccs
        let succs := if fwd = 1 then cfgSuccs else cfgPreds
        let full := 2 ^ u - 1
        let P := mkProblem mode n full preds succs (fun b => getD masks b) (fun b => getD masks (n + b))
        let σ0 : St Nat := ⟨fun _ => 0, fun b => getD masks (2 * n + b)⟩
        let key : Nat → Int := fun b => if fwd = 1 then (getD rpost b : Int) else - (getD rpost b : Int)
        let sort := sortBy key
        match loopT P sort 100000 true σ0 (List.range n) [] with
        | none => "no-termination"
        | some (σ, tr) =>
          let ins := (List.range n).map σ.inn
          let outs := (List.range n).map σ.outt
          let chk := match solve P sort 100000 σ0 with
            | none => false
            | some σ' => (List.range n).map σ'.inn == ins && (List.range n).map σ'.outt == outs
          let fix := (List.range n).all (fun b => σ.inn b == conVal P σ b && σ.outt b == P.f b (σ.inn b))
          (if chk then "" else "MODEL-MISMATCH ") ++
          s!"passes={tr.length} fix={b2s fix} trace={"|".intercalate tr} in={",".intercalate (ins.map toHex)} out={",".intercalate (outs.map toHex)}"
      | _, _, _ => "bad-op"
    | _, _, _, _, _ => "bad-op"
  | _ => "bad-op"

partial def mainLoop (h : IO.FS.Stream) (out : IO.FS.Stream) : IO Unit := do
  let line ← h.getLine
  if line.isEmpty then return ()
  out.putStrLn (solveLine ((line.trimAscii.toString.splitOn " ").filter (· ≠ "")))
  mainLoop h out

def main : IO Unit := do
  mainLoop (← IO.getStdin) (← IO.getStdout)
