import MirVerif.Model.Bitmap
import MirVerif.Model.Varr
import MirVerif.Model.Dlist
import MirVerif.Model.VarrAlloc
/-! Line-protocol driver for property C19, bitmap / VARR / DLIST part (`mirdrv_c19b`).
One command per input line, one output line per command; see harness/c19_sets.c for the same
protocol on the real headers.  `variant` prints which change-flag variant the model follows.
After `E <elsize>` (harness/c19_seq_alloc.c) every accepted VARR command is also run through the C17
allocator-event model `Model/VarrAlloc.lean` and the predicted `MIR_malloc`/`MIR_realloc` calls and the
capacity are appended as `pol:` tokens. -/
open MirVerif

structure DS where
  bms : Bitmap.Heap
  va : Varr.Varr Int
  dl : Dlist.St

def hex (w : Bitmap.Word) : String := String.ofList (Nat.toDigits 16 w.toNat)

def dumpBm (bm : Bitmap.Bm) : String :=
  s!"{bm.length}:" ++ ",".intercalate (bm.map hex)

def b2s (b : Bool) : String := if b then "1" else "0"

def natList (l : List Nat) : String := ",".intercalate (l.map toString)

def optNat (o : Option Nat) : String := match o with | none => "-" | some x => toString x

def optVal (o : Option Int) : String := match o with | none => "?" | some x => toString x

def dumpDl (s : Dlist.St) : String :=
  s!"f={natList (Dlist.toList s)} b={natList (Dlist.toListRev s)} h={optNat s.head} t={optNat s.tail}"

def dumpVa (v : Varr.Varr Int) : String :=
  s!"n={v.num} els=" ++ ",".intercalate ((Varr.abs v).map optVal) ++ s!" pol:{Varr.capacity v}"

def nats (l : List String) : Option (List Nat) := l.mapM String.toNat?

def initDS (nbm vsz nn : Nat) : DS :=
  { bms := List.replicate nbm [], va := Varr.create vsz, dl := Dlist.init nn }

def opRes (st : DS) (d : Nat) (r : Bitmap.Heap × Bool) : DS × String :=
  ({ st with bms := r.1 }, s!"{b2s r.2} {dumpBm (Bitmap.hget r.1 d)}")

def dlRes (st : DS) (r : Option Dlist.St) : DS × String :=
  match r with
  | none => (st, s!"rej {dumpDl st.dl}")
  | some s' => ({ st with dl := s' }, s!"ok {dumpDl s'}")

def step (st : DS) (toks : List String) : DS × String :=
  let nb := st.bms.length
  let bm := Bitmap.hget st.bms
  let setBm (d : Nat) (v : Bitmap.Bm) : DS := { st with bms := st.bms.set d v }
  match toks with
  | ["variant"] => (st, if Bitmap.flagFix then "fixed" else "current")
  | "R" :: args =>
    match nats args with
    | some [a, b, c] => (initDS a b c, "ok")
    | _ => (st, "err")
  | cmd :: args =>
    if cmd.startsWith "b" then
      match nats args with
      | none => (st, "err")
      | some a =>
        if a.take (if cmd == "bs" || cmd == "bc" || cmd == "bt" || cmd == "brs" || cmd == "brc" then 1
                   else a.length) |>.any (· ≥ nb) then (st, "err") else
        -- the harness' reference covers bits < 5120; both sides refuse larger mutating requests
        if (match cmd, a with
            | "bs", [_, n] => decide (n ≥ 5120)
            | "bc", [_, n] => decide (n ≥ 5120)
            | "brs", [_, n, len] => decide (n + len > 5120)
            | "brc", [_, n, len] => decide (n + len > 5120)
            | _, _ => false) then (st, "err") else
        match cmd, a with
        | "bs", [d, n] => let r := Bitmap.setBit (bm d) n; (setBm d r.1, s!"{b2s r.2} {dumpBm r.1}")
        | "bc", [d, n] => let r := Bitmap.clearBit (bm d) n; (setBm d r.1, s!"{b2s r.2} {dumpBm r.1}")
        | "bt", [d, n] => (st, b2s (Bitmap.bitP (bm d) n))
        | "brs", [d, n, len] => let r := Bitmap.rangeOp true (bm d) n len; (setBm d r.1, s!"{b2s r.2} {dumpBm r.1}")
        | "brc", [d, n, len] => let r := Bitmap.rangeOp false (bm d) n len; (setBm d r.1, s!"{b2s r.2} {dumpBm r.1}")
        | "bcp", [d, s] => let r := Bitmap.copy (bm d) (bm s); (setBm d r, dumpBm r)
        | "beq", [x, y] => (st, b2s (Bitmap.equalP (bm x) (bm y)))
        | "bis", [x, y] => (st, b2s (Bitmap.intersectP (bm x) (bm y)))
        | "bem", [x] => (st, b2s (Bitmap.emptyP (bm x)))
        | "bcn", [x] => (st, toString (Bitmap.bitCount (bm x)))
        | "bmn", [x] => (st, toString (Bitmap.bitMin (bm x)))
        | "bmx", [x] => (st, toString (Bitmap.bitMax (bm x)))
        | "band", [d, x, y] => opRes st d (Bitmap.bAnd st.bms d x y)
        | "bandc", [d, x, y] => opRes st d (Bitmap.bAndCompl st.bms d x y)
        | "bior", [d, x, y] => opRes st d (Bitmap.bIor st.bms d x y)
        | "bia", [d, x, y, z] => opRes st d (Bitmap.bIorAnd st.bms d x y z)
        | "biac", [d, x, y, z] => opRes st d (Bitmap.bIorAndCompl st.bms d x y z)
        | "bcl", [d] => (setBm d (Bitmap.clear (bm d)), dumpBm [])
        | "bit", [x] => (st, natList (Bitmap.iterAll (bm x)))
        | "bdump", [] => (st, " ".intercalate (st.bms.map dumpBm))
        | _, _ => (st, "err")
    else if cmd.startsWith "v" then
      match args.mapM String.toInt? with
      | none => (st, "err")
      | some a =>
        let v := st.va
        let upd (v' : Varr.Varr Int) (out : String) : DS × String := ({ st with va := v' }, s!"{out} n={v'.num}")
        match cmd, a with
        | "vpush", [x] => upd (Varr.push v x) "ok"
        | "vpusharr", xs => upd (Varr.pushArr v xs) "ok"
        | "vpop", [] => match Varr.pop v with | none => (st, "rej") | some r => upd r.1 (optVal r.2)
        | "vlast", [] => match Varr.last v with | none => (st, "rej") | some r => upd v (optVal r)
        | "vget", [i] => match Varr.get v i.toNat with | none => (st, "rej") | some r => upd v (optVal r)
        | "vset", [i, x] => match Varr.set v i.toNat x with | none => (st, "rej") | some r => upd r "ok"
        | "vtrunc", [n] => match Varr.trunc v n.toNat with | none => (st, "rej") | some r => upd r "ok"
        | "vexpand", [n] => let r := Varr.expand v n.toNat; upd r.1 s!"pol:{b2s r.2}"
        | "vtailor", [n] => if n ≤ 0 then (st, "err") else upd (Varr.tailor v n.toNat) "ok"
        | "vlen", [] => upd v (toString (Varr.length v))
        | "vdump", [] => (st, dumpVa v)
        | _, _ => (st, "err")
    else if cmd.startsWith "l" then
      match args.mapM String.toInt? with
      | none => (st, "err")
      | some a =>
        let s := st.dl
        let nn := s.next.length
        if a.any (fun x => cmd != "lel" && (x < 0 || x.toNat ≥ nn)) then (st, "err") else
        let linked (e : Int) : Bool := (Dlist.toList s).contains e.toNat
        -- misuse the header cannot detect (element already linked): outside the specification
        if (cmd == "lpre" || cmd == "lapp") && a.any linked then (st, "err") else
        if (cmd == "lib" || cmd == "lia") && (match a with | [x, e] => linked e || x == e | _ => false) then (st, "err") else
        match cmd, a with
        | "lpre", [e] => dlRes st (Dlist.prepend s e.toNat)
        | "lapp", [e] => dlRes st (Dlist.append s e.toNat)
        | "lib", [b, e] => dlRes st (Dlist.insertBefore s b.toNat e.toNat)
        | "lia", [x, e] => dlRes st (Dlist.insertAfter s x.toNat e.toNat)
        | "lrm", [e] => dlRes st (Dlist.remove s e.toNat)
        | "lel", [n] => (st, optNat (Dlist.el s n))
        | "llen", [] => (st, toString (Dlist.length s))
        | "lpn", [e] => (st, s!"{optNat (Dlist.prv s e.toNat)} {optNat (Dlist.nxt s e.toNat)}")
        | "ldump", [] => (st, dumpDl s)
        | _, _ => (st, "err")
    else (st, "err")
  | [] => (st, "err")

/-- allocator-event shadow of the array (C17 model); `esz = 0`: off -/
structure Shadow where
  esz : Nat := 0
  va : VarrAlloc.Varr := default

def evTok : Alloc.Ev → String
  | .malloc sz _ => s!" pol:ev:m{sz}"
  | .realloc _ o n _ => s!" pol:ev:r{o}:{n}"
  | _ => ""

def shadowStep (sh : Shadow) (toks : List String) (out : String) : Shadow × String :=
  if sh.esz = 0 then (sh, out) else
  if out.startsWith "rej" || out.startsWith "err" then (sh, out) else
  let fin (r : VarrAlloc.Varr × List Alloc.Ev) : Shadow × String :=
    ({ sh with va := r.1 }, out ++ s!" pol:c{r.1.size}" ++ String.join (r.2.map evTok))
  match toks with
  | ["R", _, vsz, _] => fin (VarrAlloc.create sh.esz (vsz.toNat?.getD 0) 1 2)
  | "vdump" :: _ => (sh, out)
  | cmd :: args =>
    if !cmd.startsWith "v" then (sh, out) else
    let a := args.map (fun x => (x.toInt?.getD 0).toNat)
    let op : Option VarrAlloc.VOp :=
      match cmd, a with
      | "vpush", [_] => some (.push 2)
      | "vpusharr", xs => some (.pushArr xs.length 2)
      | "vpop", [] => some .pop
      | "vtrunc", [n] => some (.trunc n)
      | "vexpand", [n] => some (.expand n 2)
      | "vtailor", [n] => some (.tailor n 2)
      | _, _ => none
    match op with
    | some o => fin (o.apply sh.va)
    | none => fin (sh.va, [])
  | [] => (sh, out)

partial def loop (h : IO.FS.Stream) (out : IO.FS.Stream) (st : DS) (sh : Shadow) : IO Unit := do
  let line ← h.getLine
  if line.isEmpty then return ()
  let toks := (line.trimAscii.toString.splitOn " ").filter (· ≠ "")
  match toks with
  | ["E", k] =>
    match k.toNat? with
    | some n => out.putStrLn "ok"; loop h out st { esz := n }
    | none => out.putStrLn "err"; loop h out st sh
  | _ =>
    let (st', o) := step st toks
    let (sh', o') := shadowStep sh toks o
    out.putStrLn o'
    loop h out st' sh'

def main (_args : List String) : IO Unit := do
  let out ← IO.getStdout
  loop (← IO.getStdin) out (initDS 4 0 8) {}
  out.flush
