/-! line-protocol driver for property C19, bitmap/VARR/DLIST part (stub) -/
def main (_args : List String) : IO Unit := pure ()
