/-! line-protocol driver for property C19 (stub) -/
def main (_args : List String) : IO Unit := pure ()
