import MirVerif.Model.HtabArr
/-!
Line-protocol driver for property C19, HTAB part (exe `mirdrv_c19`).
Elements are pairs `(key, val)`; `eq` compares keys, the hash is a function of the key chosen by a
mode number (same table as harness/c19_htab.c).

`mirdrv_c19 stream`                      reads operations from stdin:
    new <hashmode> <minsize> | f|i|r|d <key> <val> | c | e | s | x
`mirdrv_c19 enum <hashmode> <minsize> <nkeys> <len> <plen> <lo> <hi> [v]`
    enumerates every operation sequence of length <len> whose first <plen> operations are the
    digits of a prefix number in [lo,hi) and prints one digest per prefix.
-/
open MirVerif.Htab

abbrev E := Nat × Nat

def eqE (a b : E) : Bool := a.1 == b.1

def hashMode (m : Nat) (k : Nat) : Nat :=
  match m with
  | 0 => 0
  | 1 => k
  | 2 => k % 2
  | 3 => (k <<< 11) % 4294967296
  | 4 => (k * 2654435761) % 4294967296
  | 5 => (k <<< 22) % 4294967296
  | 6 => 4294967295 - (k % 4294967296)
  | 7 => k / 2
  | _ => k

def hfE (m : Nat) (a : E) : Nat := hashMode m a.1

def leE (a b : E) : Bool := a.1 < b.1 || (a.1 == b.1 && a.2 <= b.2)

def sortE (l : List E) : List E := l.mergeSort leE

def showE (a : E) : String := s!"{a.1}:{a.2}"

def showL (l : List E) : String :=
  if l.isEmpty then "-" else ",".intercalate ((sortE l).map showE)

def showOut (o : Out E) (num : Nat) : String :=
  let r := match o.res with | some e => showE e | none => "-"
  s!"{if o.found then 1 else 0} {r} n={num} fr={showL o.freed}"

def actOf (s : String) : Option Action :=
  match s with
  | "f" => some .find | "i" => some .insert | "r" => some .replace | "d" => some .delete
  | _ => none

/-- one protocol line; the table is passed and returned by value so that the arrays stay unshared -/
def stepLine (mode : Nat) (tab : Option (TabA E)) (ws : List String) : Nat × Option (TabA E) × String :=
  match ws with
  | ["new", m, sz] => (m.toNat?.getD 1, some (createA (sz.toNat?.getD 2)), "ok")
  | [a, k, v] =>
    match actOf a, tab with
    | some act, some t =>
      let r := doOpA (hfE mode) eqE t (k.toNat?.getD 0, v.toNat?.getD 0) act
      let s := showOut r.2 r.1.num
      (mode, some r.1, s)
    | _, tab => (mode, tab, "error")
  | ["c"] =>
    match tab with
    | some t => let r := clearA t; let s := showOut ⟨false, none, r.2⟩ r.1.num; (mode, some r.1, s)
    | none => (mode, none, "error")
  | ["e"] =>
    match tab with
    | some t => let s := s!"all={showL (contentsA t)}"; (mode, some t, s)
    | none => (mode, none, "error")
  | ["s"] =>
    match tab with
    | some t => let s := s!"coll={t.coll} size={t.entries.size} bound={t.els.size}"; (mode, some t, s)
    | none => (mode, none, "error")
  | ["x"] =>
    match tab with
    | some t => (mode, none, s!"fr={showL (clearA t).2}")
    | none => (mode, none, "error")
  | _ => (mode, tab, "error")

partial def loop (h : IO.FS.Stream) (out : IO.FS.Stream) (mode : Nat) (tab : Option (TabA E)) :
    IO Unit := do
  let line ← h.getLine
  if line.isEmpty then return ()
  let ws := (line.trimAscii.toString.splitOn " ").filter (· ≠ "")
  if ws.isEmpty then loop h out mode tab
  else
    let (mode', tab', o) := stepLine mode tab ws
    out.putStrLn o
    loop h out mode' tab'

/-! ### exhaustive enumeration with digests -/

@[inline] def mix (h v : UInt64) : UInt64 := (h ^^^ v) * 0x100000001B3 + 0x9E37

def encE (a : E) : UInt64 := (a.1 * 65536 + a.2 + 1).toUInt64

def mixL (h : UInt64) (l : List E) : UInt64 :=
  mix ((sortE l).foldl (fun h a => mix h (encE a)) h) 0xFFFFFFFF

def mixObs (h : UInt64) (o : Obs E) : UInt64 :=
  let h := mix h (if o.out.found then 1 else 0)
  let h := mix h (match o.out.res with | some e => encE e | none => 0)
  let h := mix h o.num.toUInt64
  let h := mixL h o.out.freed
  mixL h o.all

def opOf (nkeys code pos : Nat) : Op E :=
  if code < 4 * nkeys then
    let k := code % nkeys
    let a := match code / nkeys with
      | 0 => Action.find | 1 => Action.insert | 2 => Action.replace | _ => Action.delete
    .act a (k, pos + 1)
  else .clear

/-- digits (most significant first) of `n` in base `b`, `len` digits -/
def digits (b len n : Nat) : List Nat :=
  (List.range len).map (fun i => (n / b ^ (len - 1 - i)) % b)

partial def dfs (mode nkeys len : Nat) (verbose : Bool) (out : IO.FS.Stream)
    (t : TabA E) (h : UInt64) (pos seqno : Nat) (acc : UInt64) : IO UInt64 := do
  if pos == len then
    let lh := mixL h (contentsA t)
    if verbose then out.putStrLn s!"leaf {seqno} {lh}"
    return acc + lh
  else
    let alpha := 4 * nkeys + 1
    let mut acc := acc
    for code in [0:alpha] do
      let r := stepA (hfE mode) eqE t (opOf nkeys code pos)
      acc ← dfs mode nkeys len verbose out r.1 (mixObs h r.2) (pos + 1) (seqno * alpha + code) acc
    return acc

def enumMain (args : List Nat) (verbose : Bool) : IO Unit := do
  match args with
  | [mode, minsize, nkeys, len, plen, lo, hi] =>
    let out ← IO.getStdout
    let alpha := 4 * nkeys + 1
    for pfx in [lo:hi] do
      let ds := digits alpha plen pfx
      let mut t : TabA E := createA minsize
      let mut h : UInt64 := 0xcbf29ce484222325
      let mut pos := 0
      for code in ds do
        let r := stepA (hfE mode) eqE t (opOf nkeys code pos)
        t := r.1
        h := mixObs h r.2
        pos := pos + 1
      let d ← dfs mode nkeys len verbose out t h plen pfx 0
      out.putStrLn s!"blk {pfx} {d}"
    out.flush
  | _ => IO.eprintln "usage: enum mode minsize nkeys len plen lo hi [v]"

def main (args : List String) : IO Unit := do
  match args with
  | "enum" :: rest =>
    let verbose := rest.getLast? == some "v"
    let nums := (if verbose then rest.dropLast else rest).map (fun s => s.toNat?.getD 0)
    enumMain nums verbose
  | _ =>
    let out ← IO.getStdout
    loop (← IO.getStdin) out 1 none
    out.flush
