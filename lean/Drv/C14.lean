/-! line-protocol driver for property C14 (stub) -/
def main (_args : List String) : IO Unit := pure ()
