import MirVerif.Model.Section
/-! line-protocol driver for property C14: reads the same case descriptions as `harness/c14_harness.c`
and prints what the model (`MirVerif.Section.load` / `link`) says about every item. -/
open MirVerif.Section

namespace C14Drv

def hexDigit (c : Char) : Nat :=
  if '0' ≤ c ∧ c ≤ '9' then c.toNat - '0'.toNat
  else if 'a' ≤ c ∧ c ≤ 'f' then c.toNat - 'a'.toNat + 10
  else if 'A' ≤ c ∧ c ≤ 'F' then c.toNat - 'A'.toNat + 10 else 0

def parseHex (s : String) : List Nat :=
  let rec go : List Char → List Nat
    | a :: b :: rest => (hexDigit a * 16 + hexDigit b) :: go rest
    | _ => []
  if s == "-" then [] else go s.toList

def hexOf (b : Nat) : String :=
  let d (n : Nat) : Char := if n < 10 then Char.ofNat (n + 48) else Char.ofNat (n - 10 + 97)
  String.ofList [d (b / 16 % 16), d (b % 16)]

def cellsHex (cs : List Cell) : String :=
  String.join (cs.map fun c => match c with | .byte b => hexOf b | .undef => "??")

def parseTy (s : String) : Option Ty :=
  match s with
  | "i8" => some .i8 | "u8" => some .u8 | "i16" => some .i16 | "u16" => some .u16
  | "i32" => some .i32 | "u32" => some .u32 | "i64" => some .i64 | "u64" => some .u64
  | "f" => some .f | "d" => some .d | "ld" => some .ld | "p" => some .p | _ => none

def optName (s : String) : Option String := if s == "-" then none else some s

/-- the defining line of `name` (a data-ish item, func, efunc or lfunc with that name) -/
def findDef (lines : Array (List String)) (nm : String) : Option Nat :=
  (List.range lines.size).find? fun i =>
    match lines[i]! with
    | kind :: n :: _ => n == nm && kind ∈ ["data", "bss", "ref", "expr", "lref", "func", "efunc", "lfunc"]
    | _ => false

/-- `lo` = global index of the first line of the module the item belongs to (targets are module-local) -/
def mkItem (lines : Array (List String)) (lo : Nat) (toks : List String) : Except String Item :=
  match toks with
  | ["data", n, ty, nel, hex] =>
    match parseTy ty, nel.toNat? with
    | some t, some k => .ok (.data (optName n) t k (parseHex hex))
    | _, _ => .error "bad data line"
  | ["bss", n, len] =>
    match len.toNat? with | some l => .ok (.bss (optName n) l) | none => .error "bad bss line"
  | ["ref", n, k, disp] =>
    match k.toNat?, disp.toInt? with
    | some k, some d =>
      let tgt := match lines[k]? with
        | some ("forward" :: nm :: _) => (findDef lines nm).getD k
        | some ("export" :: nm :: _) => (findDef lines nm).getD k
        | _ => k
      .ok (.ref (optName n) (tgt - lo) d)
    | _, _ => .error "bad ref line"
  | ["expr", n, k] =>
    match k.toNat? with
    | some k =>
      match lines[k]? with
      | some ["efunc", _, ty, v] =>
        match parseTy ty, v.toNat? with
        | some t, some v => .ok (.expr (optName n) t v)
        | _, _ => .error "bad efunc line"
      | some ["afunc", _, _, _] => .ok (.expr (optName n) .p 0)   -- value = an address: printed as delta
      | _ => .error "expr does not refer to an efunc"
    | none => .error "bad expr line"
  | ["lref", n, _k, lab, lab2, disp] =>
    match lab.toNat?, disp.toInt? with
    | some l, some d => .ok (.lref (optName n) l (if lab2 == "-" then none else lab2.toNat?) d)
    | _, _ => .error "bad lref line"
  | kind :: _ =>
    if kind ∈ ["import", "forward", "export", "proto", "func", "efunc", "lfunc", "afunc"] then .ok .other
    else .error s!"unknown line kind {kind}"
  | [] => .error "empty line"

def kindOf : Item → String
  | .data .. => "data" | .bss .. => "bss" | .ref .. => "ref" | .lref .. => "lref" | .expr .. => "expr"
  | .other => "other"

def env : Env := { base := fun s => (s + 1) * 2 ^ 24, other := fun j => 2 ^ 40 + j * 2 ^ 12 }

def decodeLE (cs : List Cell) : Option Nat :=
  cs.foldr (fun c acc => match c, acc with | .byte b, some v => some (b + 256 * v) | _, _ => none) (some 0)

def toSigned64 (v : Nat) : Int := if v < 2 ^ 63 then (v : Int) else (v : Int) - (2 ^ 64 : Int)

/-- displacement of the address function an `expr` line refers to, if it refers to one -/
def afuncDisp (lines : Array (List String)) (toks : List String) : Option Int :=
  match toks with
  | ["expr", _, k] =>
    match k.toNat? with
    | some k => match lines[k]? with
      | some ["afunc", _, _, d] => d.toInt?
      | _ => none
    | none => none
  | _ => none

def payloadOf (lines : Array (List String)) (toks : List String) (it : Item)
    (pl : List (Option Placement)) (cells : List Cell) : String :=
  match it, afuncDisp lines toks with
  | _, some d => s!"delta={d}"
  | .ref _ tgt _, _ =>
    match decodeLE cells with
    | some v => s!"delta={toSigned64 ((v + 2 ^ 64 - addrOf env pl tgt % 2 ^ 64) % 2 ^ 64)}"
    | none => "delta=undef"
  | .lref .., _ => "lref=ok"
  | _, _ => s!"bytes={cellsHex cells}"

/-- what a running program may have done: every byte of every data/bss/ref/expr item overwritten -/
def scribble : List (Item × Option Placement) → GMem → GMem
  | [], g => g
  | (it, some p) :: rest, g =>
    match it with
    | .lref .. => scribble rest g
    | _ => scribble rest (setSec g p.sec (writeCells (g p.sec) p.off (List.replicate it.plSize (.byte 92))))
  | (_, none) :: rest, g => scribble rest g

/-- one module = the lines `lo ≤ i < hi` of the case -/
def runModule (lines : Array (List String)) (lo hi : Nat) (reloadP : Bool) : Except String (List String) := do
  let mine := (lines.toList.drop lo).take (hi - lo)
  let mut items : List Item := []
  for toks in mine do
    let it ← mkItem lines lo toks
    items := items ++ [it]
  let r := load items
  let g := if reloadP then relink env items (scribble (items.zip r.pl) (link env items)) else link env items
  let mut out : List String := []
  let mut pos := 0
  for ((it, p), toks) in (items.zip r.pl).zip mine do
    match p with
    | none => out := out ++ [s!"other {pos}"]
    | some p =>
      let sz := it.plSize
      let cells := (List.range sz).map fun k => g p.sec (p.off + k)
      let payload := payloadOf lines toks it r.pl cells
      out := out ++ [s!"item {pos} {kindOf it} sec={p.sec} off={p.off} size={sz} {payload}"]
    pos := pos + 1
  for s in r.secs do
    out := out ++ [s!"sec {s.head} size={s.size}"]
  return out

def runCase (id : String) (flags : String) (lines : Array (List String)) : List String :=
  let reloadP := (flags.splitOn ",").contains "reload"
  let sep := (List.range lines.size).find? fun i => (lines[i]!).head? == some "module"
  let res : Except String (List String) := do
    match sep with
    | none => runModule lines 0 lines.size reloadP
    | some k =>
      let a ← runModule lines 0 k reloadP
      let b ← runModule lines (k + 1) lines.size reloadP
      pure (a ++ ["module"] ++ b)
  match res with
  | .ok out => [s!"case {id}"] ++ out ++ ["end"]
  | .error e => [s!"case {id}", s!"error {e}", "end"]

partial def loop (h : IO.FS.Stream) (cur : Option (String × String × Array (List String))) : IO Unit := do
  let line ← h.getLine
  if line.isEmpty then return ()
  let toks := (line.trimAscii.toString.splitOn " ").filter (· ≠ "")
  match toks, cur with
  | "case" :: id :: rest, _ => loop h (some (id, (rest.drop 1).headD "", #[]))
  | ["end"], some (id, flags, ls) =>
    for l in runCase id flags ls do IO.println l
    loop h none
  | [], _ => loop h cur
  | _, some (id, flags, ls) => loop h (some (id, flags, ls.push toks))
  | _, none => loop h none

end C14Drv

def main (_args : List String) : IO Unit := do C14Drv.loop (← IO.getStdin) none
