import MirVerif.Model.MirCore
import MirVerif.Model.Simplify
/-! `mirdrv_c04`: line-protocol front end to MirCore (the meaning of a MIR program *as written*) and
to the model of `simplify_func`.

input (stdin):
  func <name> <nparams> (<pname> <pty>)* <nres> <rty>* <nlocals> <lname>*
    <opcode> <operand>...         operands: r:<reg>  i:<hex64>  m:<ty>:<hexdisp>:<base|->:<index|->:<scale>  l:<n>
    label <n> | call|inline <callee> <nres> <result operands> <argument operands> | switch <opd> l:<n>...
  endfunc
  lower <abc>                     print `simplifyFunc` of every function read so far; flags a = round always,
                                  b = MULO rows present, c = fresh return temporaries (`010` = mir.c as it is)
  run <entry> <hex a0..a3>        MirCore on the program as written; entry is `f (p buf, i64 a0..a3)`
  allocafeat <abc>                per function: the model of func_alloca_features on the model-simplified body
  ecall <entry> <hex args>        the same for an entry that takes exactly these integer arguments
  ecalls <0|1> <entry> <hex args> … on the model-simplified program
  runs <entry> <hex a0..a3>       MirCore on the model-simplified program
  reset                           forget all functions
output: for `run`: `P <entry> <res hex> log<n>`, `M <hex bytes of the 576-byte buffer>`, `L <id>:<a>,<b>,<c>,<d> ...`
        or `X <entry> <error>`. -/
open MirVerif MirVerif.MirCore MirVerif.Simplify

/-! ## the driver's byte memory: harness buffer + alloca stack -/
def BUF_BASE : Nat := 0x100000
def BUF_SIZE : Nat := 576
def STK_BASE : Nat := 0x40000000
def STK_SIZE : Nat := 0x10000

structure DMem where
  buf : ByteArray
  stk : ByteArray

instance : ByteMem DMem where
  load m a :=
    let a := a.toNat
    if BUF_BASE ≤ a ∧ a < BUF_BASE + BUF_SIZE then BitVec.ofNat 8 (m.buf.get! (a - BUF_BASE)).toNat
    else if STK_BASE ≤ a ∧ a < STK_BASE + STK_SIZE then BitVec.ofNat 8 (m.stk.get! (a - STK_BASE)).toNat
    else 0
  store m a v :=
    let a := a.toNat
    if BUF_BASE ≤ a ∧ a < BUF_BASE + BUF_SIZE then { m with buf := m.buf.set! (a - BUF_BASE) (UInt8.ofNat v.toNat) }
    else if STK_BASE ≤ a ∧ a < STK_BASE + STK_SIZE then { m with stk := m.stk.set! (a - STK_BASE) (UInt8.ofNat v.toNat) }
    else m
  valid _ a :=
    let a := a.toNat
    (BUF_BASE ≤ a ∧ a < BUF_BASE + BUF_SIZE) ∨ (STK_BASE ≤ a ∧ a < STK_BASE + STK_SIZE)

def initMem : DMem :=
  { buf := ByteArray.mk ((List.range BUF_SIZE).map fun i => UInt8.ofNat ((i * 7 + 3) % 256)).toArray
    stk := ByteArray.mk (Array.replicate STK_SIZE 0) }

/-! ## the harness's external functions (harness/engine.c) -/
def mix (h v : W64) : W64 := h ^^^ (v + 0x9e3779b97f4a7c15#64 + (h <<< 6) + (h >>> 2))

def MAXLOG : Nat := 256

def logCall (g : G DMem) (e : List W64) : G DMem :=
  if g.log.length < MAXLOG then { g with log := g.log ++ [e] } else g

def harnessExt (f : String) (a : List W64) (g : G DMem) : Except Err (List W64 × G DMem) :=
  match f, a with
  | "ext0", [] => let g := logCall g [0, 0, 0, 0, 0]; .ok ([BitVec.ofNat 64 (1000 + g.log.length)], g)
  | "ext1", [x] => .ok ([mix 1 x], logCall g [1, x, 0, 0, 0])
  | "ext2", [x, y] => .ok ([mix (mix 2 x) y], logCall g [2, x, y, 0, 0])
  | "ext4", [x, y, z, w] => .ok ([mix (mix (mix (mix 4 x) y) z) w], logCall g [4, x, y, z, w])
  | "extv", [x] => .ok ([], logCall g [6, x, 0, 0, 0])
  | "extp", [p, v] =>
    let g := logCall g [7, v, 0, 0, 0]
    if validN g.mem p 8 then .ok ([], { g with mem := storeTy g.mem .i64 p (v ^^^ 0x5555#64) })
    else .error (.oob p)
  | _, _ => .error (.stuck s!"unknown function {f}")

/-! ## registers read by an instruction (for the unset-register check) -/
section reads
variable {ρ : Type}
def opdReads : Opd ρ → List ρ
  | .reg r => [r]
  | .imm _ => []
  | .mem m => m.base.toList ++ m.index.toList
def outReads : Opd ρ → List ρ
  | .mem m => m.base.toList ++ m.index.toList
  | _ => []
def insnReads : Insn ρ → List ρ
  | .bin _ _ d x y | .ovf _ _ d x y => outReads d ++ opdReads x ++ opdReads y
  | .mov d s | .ext _ _ d s | .neg _ d s | .alloca d s => outReads d ++ opdReads s
  | .bcmp _ _ _ x y => opdReads x ++ opdReads y
  | .bt _ _ _ x | .switch x _ => opdReads x
  | .call _ _ res args => (res.map outReads).flatten ++ (args.map opdReads).flatten
  | .ret vs => (vs.map opdReads).flatten
  | _ => []
end reads

def mkCfg {ρ : Type} [DecidableEq ρ] : Cfg ρ DMem :=
  { ext := harnessExt, chk := fun i fr => (insnReads i).all fr.regs.has }

/-! ## parsing -/
def parseHexN (s : String) : Nat :=
  s.foldl (fun acc c =>
    let d := if c.isDigit then c.toNat - '0'.toNat
             else if 'a' ≤ c ∧ c ≤ 'f' then c.toNat - 'a'.toNat + 10
             else if 'A' ≤ c ∧ c ≤ 'F' then c.toNat - 'A'.toNat + 10 else 0
    acc * 16 + d) 0

def tyOf (s : String) : Ty :=
  match s.splitOn "/" with
  | [b, n] => if b == "rblk" then .rblk n.toNat! else .blk n.toNat!
  | _ =>
  match s with
  | "i8" => .i8 | "u8" => .u8 | "i16" => .i16 | "u16" => .u16 | "i32" => .i32 | "u32" => .u32
  | "i64" => .i64 | "u64" => .u64 | _ => .p

def tyName : Ty → String
  | .i8 => "i8" | .u8 => "u8" | .i16 => "i16" | .u16 => "u16" | .i32 => "i32" | .u32 => "u32"
  | .i64 => "i64" | .u64 => "u64" | .p => "p" | .blk n => s!"blk/{n}" | .rblk n => s!"rblk/{n}"

def optReg (s : String) : Option String := if s == "-" then none else some s

def parseOpd (t : String) : Opd String :=
  match t.splitOn ":" with
  | ["r", n] => .reg n
  | ["i", h] => .imm (BitVec.ofNat 64 (parseHexN h))
  | ["m", ty, d, b, i, sc] =>
    .mem { ty := tyOf ty, disp := BitVec.ofNat 64 (parseHexN d), base := optReg b, index := optReg i, scale := sc.toNat! }
  | _ => .imm 0

def parseLab (t : String) : Nat :=
  match t.splitOn ":" with
  | ["l", n] => n.toNat!
  | _ => 0

def aopTable : List (String × AOp × Bool) :=
  (AOp.all.map fun a => [((opName a false).toLower, a, false), ((opName a true).toLower, a, true)]).flatten

def brTable : List (String × AOp × Bool) :=
  (AOp.cmps.map fun a => [((brName a false).toLower, a, false), ((brName a true).toLower, a, true)]).flatten

def parseInsn (toks : List String) : Option (Insn String) :=
  match toks with
  | ["label", n] => some (.label n.toNat!)
  | ["jmp", l] => some (.jmp (parseLab l))
  | ["mov", d, s] => some (.mov (parseOpd d) (parseOpd s))
  | ["neg", d, s] => some (.neg false (parseOpd d) (parseOpd s))
  | ["negs", d, s] => some (.neg true (parseOpd d) (parseOpd s))
  | ["ext8", d, s] => some (.ext 8 true (parseOpd d) (parseOpd s))
  | ["ext16", d, s] => some (.ext 16 true (parseOpd d) (parseOpd s))
  | ["ext32", d, s] => some (.ext 32 true (parseOpd d) (parseOpd s))
  | ["uext8", d, s] => some (.ext 8 false (parseOpd d) (parseOpd s))
  | ["uext16", d, s] => some (.ext 16 false (parseOpd d) (parseOpd s))
  | ["uext32", d, s] => some (.ext 32 false (parseOpd d) (parseOpd s))
  | ["addo", d, x, y] => some (.ovf .add false (parseOpd d) (parseOpd x) (parseOpd y))
  | ["addos", d, x, y] => some (.ovf .add true (parseOpd d) (parseOpd x) (parseOpd y))
  | ["subo", d, x, y] => some (.ovf .sub false (parseOpd d) (parseOpd x) (parseOpd y))
  | ["subos", d, x, y] => some (.ovf .sub true (parseOpd d) (parseOpd x) (parseOpd y))
  | ["mulo", d, x, y] => some (.ovf .mul false (parseOpd d) (parseOpd x) (parseOpd y))
  | ["mulos", d, x, y] => some (.ovf .mul true (parseOpd d) (parseOpd x) (parseOpd y))
  | ["umulo", d, x, y] => some (.ovf .umul false (parseOpd d) (parseOpd x) (parseOpd y))
  | ["umulos", d, x, y] => some (.ovf .umul true (parseOpd d) (parseOpd x) (parseOpd y))
  | ["bt", l, x] => some (.bt false true (parseLab l) (parseOpd x))
  | ["bts", l, x] => some (.bt true true (parseLab l) (parseOpd x))
  | ["bf", l, x] => some (.bt false false (parseLab l) (parseOpd x))
  | ["bfs", l, x] => some (.bt true false (parseLab l) (parseOpd x))
  | ["bo", l] => some (.bo false true (parseLab l))
  | ["bno", l] => some (.bo false false (parseLab l))
  | ["ubo", l] => some (.bo true true (parseLab l))
  | ["ubno", l] => some (.bo true false (parseLab l))
  | ["alloca", d, n] => some (.alloca (parseOpd d) (parseOpd n))
  | "switch" :: x :: ls => some (.switch (parseOpd x) (ls.map parseLab))
  | "ret" :: vs => some (.ret (vs.map parseOpd))
  | "call" :: f :: n :: ops =>
    let k := n.toNat!
    some (.call false f ((ops.take k).map parseOpd) ((ops.drop k).map parseOpd))
  | "inline" :: f :: n :: ops =>
    let k := n.toNat!
    some (.call true f ((ops.take k).map parseOpd) ((ops.drop k).map parseOpd))
  | [op, d, x, y] =>
    match aopTable.find? (·.1 == op) with
    | some (_, a, s) => some (.bin a s (parseOpd d) (parseOpd x) (parseOpd y))
    | none =>
      match brTable.find? (·.1 == op) with
      | some (_, a, s) => some (.bcmp a s (parseLab d) (parseOpd x) (parseOpd y))
      | none => none
  | _ => none

/-- `func` header → (function without body, declared locals) -/
def parseHeader (toks : List String) : Func String × List String :=
  match toks with
  | name :: np :: tl =>
    let n := np.toNat!
    let ps := tl.take (2 * n)
    let rec pairs : List String → List (String × Ty)
      | a :: b :: r => (a, tyOf b) :: pairs r
      | _ => []
    let tl := tl.drop (2 * n)
    match tl with
    | nr :: tl =>
      let k := nr.toNat!
      let res := (tl.take k).map tyOf
      let tl := tl.drop k
      ({ name := name, params := pairs ps, res := res, body := [] }, tl.drop 1)
    | [] => ({ name := name, params := pairs ps, res := [], body := [] }, [])
  | _ => ({ name := "?", params := [], res := [], body := [] }, [])

/-! ## printing of simplified functions -/
def hex (x : W64) : String := String.ofList (Nat.toDigits 16 x.toNat)

/-- spelling of the `k`-th temporary: the library takes `t1, t2, …` skipping names already declared -/
def tempNames (used : List String) : Nat → Nat → Nat → List String
  | 0, _, _ => []
  | _, _, 0 => []
  | fuel + 1, c, need + 1 =>
    let nm := "t" ++ toString c
    if used.contains nm then tempNames used fuel (c + 1) (need + 1)
    else nm :: tempNames used fuel (c + 1) need

def regName (tn : Array String) : R → String
  | .user s => s
  | .temp k => tn.getD k s!"?t{k}"

def showOpd (tn : Array String) : Opd R → String
  | .reg r => regName tn r
  | .imm v => toString v.toInt
  | .mem m =>
    let o (x : Option R) := match x with | some r => regName tn r | none => "-"
    s!"{tyName m.ty}:{m.disp.toInt}:{o m.base}:{o m.index}:{if m.index.isNone then 0 else m.scale}"

def showInsn (tn : Array String) (i : SInsn) : String :=
  let so := showOpd tn
  let sep (l : List String) := " ".intercalate l
  match i with
  | .bin a s d x y => sep [(opName a s).toLower, so d, so x, so y]
  | .mov d s => sep ["mov", so d, so s]
  | .ext k sg d s => sep [(extName k sg).toLower, so d, so s]
  | .neg sh d s => sep [if sh then "negs" else "neg", so d, so s]
  | .ovf o sh d x y =>
    sep [(match o with | .add => "addo" | .sub => "subo" | .mul => "mulo" | .umul => "umulo") ++ (if sh then "s" else ""),
         so d, so x, so y]
  | .label l => s!"label L{l}"
  | .jmp l => s!"jmp L{l}"
  | .bcmp a s l x y => sep [(brName a s).toLower, s!"L{l}", so x, so y]
  | .bt s t l x => sep [(if t then "bt" else "bf") ++ (if s then "s" else ""), s!"L{l}", so x]
  | .bo u t l => sep [(if u then "u" else "") ++ (if t then "bo" else "bno"), s!"L{l}"]
  | .switch x ls => sep (["switch", so x] ++ ls.map fun l => s!"L{l}")
  | .alloca d n => sep ["alloca", so d, so n]
  | .call inl f res args => sep ([if inl then "inline" else "call", f] ++ res.map so ++ args.map so)
  | .ret vs => sep ("ret" :: vs.map so)

def countTemps (f : Func R) : Nat :=
  let ro : Opd R → Nat
    | .reg (.temp k) => k + 1
    | .mem m => max (match m.base with | some (.temp k) => k + 1 | _ => 0) (match m.index with | some (.temp k) => k + 1 | _ => 0)
    | _ => 0
  let ri : SInsn → Nat
    | .bin _ _ d x y | .ovf _ _ d x y => max (ro d) (max (ro x) (ro y))
    | .mov d s | .ext _ _ d s | .neg _ d s | .alloca d s => max (ro d) (ro s)
    | .bcmp _ _ _ x y => max (ro x) (ro y)
    | .bt _ _ _ x | .switch x _ => ro x
    | .call _ _ res args => (res ++ args).foldl (fun m o => max m (ro o)) 0
    | .ret vs => vs.foldl (fun m o => max m (ro o)) 0
    | _ => 0
  f.body.foldl (fun m i => max m (ri i)) 0

/-! ## state and commands -/
structure DState where
  funcs : List (Func String × List String) := []   -- with declared locals
  cur : Option (Func String × List String × List (Insn String)) := none   -- body reversed

def runEntry {ρ : Type} [DecidableEq ρ] (P : Prog ρ) (mk : String → ρ) (entry : String) (args : List W64)
    (withBuf : Bool := true) : String :=
  match findFunc P entry with
  | none => s!"X {entry} no-such-function"
  | some f =>
    let g0 : G DMem := { mem := initMem, sp := BitVec.ofNat 64 STK_BASE, log := [] }
    let av := if withBuf then BitVec.ofNat 64 (BUF_BASE + 32) :: args else args
    let ps := f.params.take av.length
    match enter (ρ := ρ) [] ps (av.take ps.length) g0 with
    | .error e => s!"X {entry} {repr e}"
    | .ok (rs0, g0) =>
      let _ := mk
      match exec P mkCfg (fun _ => []) 2000000 f { regs := rs0, pc := 0 } g0 with
      | .error e => s!"X {entry} {repr e}"
      | .ok (rv, g) =>
        let r := rv.headD 0
        let bytes := String.join (g.mem.buf.toList.map fun b =>
          let d := Nat.toDigits 16 b.toNat
          String.ofList (if d.length < 2 then '0' :: d else d))
        let logs := " ".intercalate (g.log.map fun e =>
          match e with
          | [i, a, b, c, d] => s!"{i.toNat}:{hex a},{hex b},{hex c},{hex d}"
          | _ => "?")
        s!"P {entry} {hex r} log{g.log.length}\nM {bytes}\nL {logs}"

/-- flags `<always><muloRow><freshRets><ovfAddrBefore>` -/
def optsOf (v : String) : Opts :=
  match v.toList with
  | [a, m, f] => { always := a == '1', muloRow := m == '1', freshRets := f == '1' }
  | [a, m, f, o] => { always := a == '1', muloRow := m == '1', freshRets := f == '1', ovfAddrBefore := o == '1' }
  | _ => {}

def step (st : DState) (toks : List String) : DState × Option String :=
  match toks with
  | "func" :: hd =>
    let (f, locs) := parseHeader hd
    ({ st with cur := some (f, locs, []) }, none)
  | ["endfunc"] =>
    match st.cur with
    | some (f, locs, body) => ({ funcs := st.funcs ++ [({ f with body := body.reverse }, locs)], cur := none }, none)
    | none => (st, some "E endfunc without func")
  | ["reset"] => ({}, none)
  | ["lower", v] =>
    let out := st.funcs.map fun (f, locs) =>
      let sf := simplifyFunc (optsOf v) f
      let used := f.params.map (·.1) ++ locs
      let n := countTemps sf
      let tn := (tempNames used (n + used.length + 2) 1 n).toArray
      s!"F {f.name}\n" ++ "\n".intercalate (sf.body.map (showInsn tn))
    (st, some ("\n".intercalate out ++ "\nEND"))
  | "run" :: entry :: args =>
    let P : Prog String := st.funcs.map (·.1)
    (st, some (runEntry P id entry (args.map fun h => BitVec.ofNat 64 (parseHexN h))))
  | ["allocafeat", v] =>
    let out := st.funcs.map fun (f, _) =>
      let sf := simplifyFunc (optsOf v) f
      let a := allocaFeatures sf.body
      let top := match a.top with | some (_, c) => s!"{c.toNat}" | none => "-"
      s!"A {f.name} top={top} used={if a.topUsed then 1 else 0} nontop={if a.nonTop then 1 else 0} brackets={inlineBrackets sf.body}"
    (st, some ("\n".intercalate out))
  | "ecall" :: entry :: args =>
    let P : Prog String := st.funcs.map (·.1)
    (st, some (runEntry P id entry (args.map fun h => BitVec.ofNat 64 (parseHexN h)) false))
  | "ecalls" :: v :: entry :: args =>
    let P : Prog R := st.funcs.map fun (f, _) => simplifyFunc (optsOf v) f
    (st, some (runEntry P R.user entry (args.map fun h => BitVec.ofNat 64 (parseHexN h)) false))
  | "runs" :: v :: entry :: args =>
    let P : Prog R := st.funcs.map fun (f, _) => simplifyFunc (optsOf v) f
    (st, some (runEntry P R.user entry (args.map fun h => BitVec.ofNat 64 (parseHexN h))))
  | [] | [""] => (st, none)
  | toks =>
    match st.cur with
    | some (f, locs, body) =>
      match parseInsn toks with
      | some i => ({ st with cur := some (f, locs, i :: body) }, none)
      | none => (st, some s!"E bad-insn {" ".intercalate toks}")
    | none => (st, some s!"E bad-line {" ".intercalate toks}")

partial def loop (h : IO.FS.Stream) (out : IO.FS.Stream) (st : DState) : IO Unit := do
  let line ← h.getLine
  if line.isEmpty then return ()
  let (st', o) := step st ((line.trimAscii.toString.splitOn " ").filter (· ≠ ""))
  match o with
  | some s => out.putStrLn s
  | none => pure ()
  loop h out st'

def main (_args : List String) : IO Unit := do
  loop (← IO.getStdin) (← IO.getStdout) {}
