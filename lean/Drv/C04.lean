/-! line-protocol driver for property C04 (stub) -/
def main (_args : List String) : IO Unit := pure ()
