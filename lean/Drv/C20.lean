/-! line-protocol driver for property C20 (stub) -/
def main (_args : List String) : IO Unit := pure ()
