import MirVerif.Gen.C20_Tables
import MirVerif.Model.Mir2CKnown
import MirVerif.Model.Mir2COvf
import MirVerif.Model.Mir2CSection
/-! `mirdrv_c20`: evaluates the model of the emitted C (rows of the table REGENERATED from the current
mir2c.c) next to the documented meaning, one request per line:

  bin  <OPCODE> <hex a> <hex b>   -> `<cSem no-wrapv> <cSem -fwrapv> <docSem> <agree0> <agree1>`
  br   <OPCODE> <hex a> <hex b>   -> `<cBranch> <docBranch>`        (`undef` where MIR is undefined)
  ext  <OPCODE> <hex a>           -> `<cCasts> <docExt>`
  neg  <OPCODE> <hex a>           -> `<cNeg no-wrapv> <cNeg -fwrapv> <docNeg>`
  bt   <BT|BF|BTS|BFS> <hex a>    -> `<cBT> <docBT>`
  ov   <add|sub|mul|umul> <0|1> <hex a> <hex b>
                                  -> `<stored result> <__overflow> <uboFlag> <doc result> <doc sov> <doc uov>`
  sect <0|1 fixed> <fuel> <items> -> per item `[[..],[..]]` or `DIVERGE`; items: comma list of
                                     <N|A><d|r|e|b|o> (named/anonymous; data, ref, expr, bss, other)
  rows                            -> the opcode names of all row kinds (for the check's inventory)
values are hex, `undef` = undefined, `norow` = the table has no (understood) row for the opcode. -/
open MirVerif MirVerif.Mir2C

def parseHex (s : String) : UInt64 :=
  s.foldl (fun acc c =>
    let d := if c.isDigit then c.toNat - '0'.toNat
             else if 'a' ≤ c ∧ c ≤ 'f' then c.toNat - 'a'.toNat + 10
             else if 'A' ≤ c ∧ c ≤ 'F' then c.toNat - 'A'.toNat + 10 else 0
    acc * 16 + d.toUInt64) 0

def w64 (s : String) : W64 := BitVec.ofNat 64 (parseHex s).toNat
def hex {n} (x : BitVec n) : String := String.ofList (Nat.toDigits 16 x.toNat)
def hexO (o : Option W64) : String := match o with | some r => hex r | none => "undef"
def b2s (b : Bool) : String := if b then "1" else "0"

def lookup {β} (l : List (String × β)) (k : String) : Option β := (l.find? (·.1 == k)).map (·.2)

def agreeS (a : AOp) (s : Bool) (c d : Option W64) : String :=
  match c, d with
  | some r, some r' => b2s (decide (agree a s r r'))
  | none, _ => "u"       -- C undefined: nothing to compare
  | some _, none => "x"  -- C defined, MIR undefined: nothing required

def itemOf (s : String) : Option Item :=
  match s.toList with
  | [n, k] =>
    let kind := match k with
      | 'd' => some IKind.data | 'r' => some IKind.refData | 'e' => some IKind.exprData
      | 'b' => some IKind.bss | 'o' => some IKind.other | _ => none
    kind.map fun kd => ⟨n == 'N', kd⟩
  | _ => none

def showLL (l : List (List Nat)) : String :=
  "[" ++ ",".intercalate (l.map fun m => "[" ++ ",".intercalate (m.map toString) ++ "]") ++ "]"

def evalLine (toks : List String) : String :=
  match toks with
  | ["bin", name, sa, sb] =>
    match lookup Gen.C20.intRows name, nameToOp name with
    | some tm, some (a, s) =>
      let x := w64 sa; let y := w64 sb
      let c0 := cSem false tm x y; let c1 := cSem true tm x y; let d := docSem a s x y
      s!"{hexO c0} {hexO c1} {hexO d} {agreeS a s c0 d} {agreeS a s c1 d}"
    | none, some (a, s) => s!"norow norow {hexO (docSem a s (w64 sa) (w64 sb))} - -"
    | _, _ => "norow"
  | ["br", name, sa, sb] =>
    match lookup Gen.C20.brRows name, brNameToOp name with
    | some tm, some (a, s) =>
      let x := w64 sa; let y := w64 sb
      match docSem a s x y with
      | some _ => s!"{b2s (cBranch tm x y)} {b2s (docBranch a s x y)}"
      | none => "undef"
    | none, some (a, s) =>
      match docSem a s (w64 sa) (w64 sb) with
      | some _ => s!"norow {b2s (docBranch a s (w64 sa) (w64 sb))}"
      | none => "undef"
    | _, _ => "norow"
  | ["ext", name, sa] =>
    let spec : Option (Nat × Bool) := match name with
      | "EXT8" => some (8, true) | "EXT16" => some (16, true) | "EXT32" => some (32, true)
      | "UEXT8" => some (8, false) | "UEXT16" => some (16, false) | "UEXT32" => some (32, false)
      | _ => none
    match lookup Gen.C20.castRows name, spec with
    | some cs, some (k, sg) => s!"{hex (cCasts cs (w64 sa))} {hex (docExt k sg (w64 sa))}"
    | none, some (k, sg) => s!"norow {hex (docExt k sg (w64 sa))}"
    | _, _ => "norow"
  | ["neg", name, sa] =>
    match lookup Gen.C20.negRows name with
    | some t =>
      let short := name == "NEGS"
      s!"{hexO (cNeg false t (w64 sa))} {hexO (cNeg true t (w64 sa))} {hex (docNeg short (w64 sa))}"
    | none => s!"norow norow {hex (docNeg (name == "NEGS") (w64 sa))}"
  | ["bt", name, sa] =>
    let neg := name == "BF" || name == "BFS"
    let short := name == "BTS" || name == "BFS"
    s!"{b2s (cBT neg (if short then .i32 else .i64) (w64 sa))} {b2s (Mir2C.docBT neg short (w64 sa))}"
  | ["ov", o, s, sa, sb] =>
    let short := s == "1"
    let x := w64 sa; let y := w64 sb
    let go {n : Nat} (a b : BitVec n) : String :=
      match o with
      | "add" => let r := builtinS .add a b; let d := docAddO a b
                 s!"{hex r.1} {b2s r.2} {b2s (uboFlag .add a b)} {hex d.1} {b2s d.2.1} {b2s d.2.2}"
      | "sub" => let r := builtinS .sub a b; let d := docSubO a b
                 s!"{hex r.1} {b2s r.2} {b2s (uboFlag .sub a b)} {hex d.1} {b2s d.2.1} {b2s d.2.2}"
      | "mul" => let r := builtinS .mul a b; let d := docMulO a b
                 s!"{hex r.1} {b2s r.2} - {hex d.1} {b2s d.2} -"
      | _ => let r := builtinU .mul a b; let d := docUMulO a b
             s!"{hex r.1} {b2s r.2} {b2s r.2} {hex d.1} - {b2s d.2}"
    if short then go (lo32 x) (lo32 y) else go x y
  | ["sect", f, fuel, its] =>
    let items := (its.splitOn ",").filterMap itemOf
    let fixed := f == "1"
    " ".intercalate ((List.range items.length).map fun i =>
      match items[i]? with
      | some it =>
        if isDataKind it.kind then
          match printSection fixed items i fuel.toNat! with
          | some l => showLL l
          | none => "DIVERGE"
        else "-"
      | none => "-")
  | ["rows"] =>
    "int=" ++ ",".intercalate (Gen.C20.intRows.map (·.1)) ++ " br=" ++ ",".intercalate (Gen.C20.brRows.map (·.1)) ++
    " cast=" ++ ",".intercalate (Gen.C20.castRows.map (·.1)) ++ " neg=" ++ ",".intercalate (Gen.C20.negRows.map (·.1)) ++
    " other=" ++ ",".intercalate (Gen.C20.otherRows.map fun r => r.1 ++ ":" ++ r.2.1 ++ ":" ++ r.2.2.replace " " "_") ++
    " inline=" ++ ",".intercalate Gen.C20.inlineCases ++
    " known=" ++ ",".intercalate (knownDeviations.map Deviation.signature) ++
    " loopFixed=" ++ b2s loopFixed ++ " adv=" ++ Gen.C20.sectionAdvanceVar
  | _ => "bad-line"

partial def loop (h : IO.FS.Stream) (out : IO.FS.Stream) : IO Unit := do
  let line ← h.getLine
  if line.isEmpty then return ()
  out.putStrLn (evalLine (line.trimAscii.toString.splitOn " "))
  loop h out

def main (_args : List String) : IO Unit := do
  loop (← IO.getStdin) (← IO.getStdout)
