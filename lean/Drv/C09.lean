import MirVerif.Model.PPMacroUnit
import MirVerif.Lemmas.PPNumber
/-! line-protocol driver for property C09

  mirdrv_c09 pp c11            specification: C11 expander, C11 `#if` evaluator
  mirdrv_c09 pp c2m [mask]     C11 expander, model of c2mir's `#if` evaluator (mask = applied fixes,
                               default: `appliedFixes`)
      stdin : CASE <id> / DEFOBJ name toks.. / DEFFUN name p1,p2|- 0|1 toks.. / UNDEF name /
              TEXT toks.. / IF toks.. / ELIF toks.. / IFDEF name / IFNDEF name / ELSE / ENDIF / END
              a token is  w<hex of spelling>  (white space before it) or n<hex>
      stdout: CASE <id> / T <hex> ... / ERR 0|1 / END
  mirdrv_c09 expr              one expression (token list) per line →
                               `<c11> <c2m applied> <minimal extra fix mask | ->`
  mirdrv_c09 exprmask <mask>   one expression per line → result of `c2mEvalG mask`
  mirdrv_c09 strings           one hex string s per line → S stringify s / D destringifyC (stringify s) /
                               R destringifyC s
  results are  v<s|u><hex64> | divzero | undef | parseerr
-/
open MirVerif.PP

def hexVal (c : Char) : Nat :=
  if '0' ≤ c ∧ c ≤ '9' then c.toNat - '0'.toNat
  else if 'a' ≤ c ∧ c ≤ 'f' then c.toNat - 'a'.toNat + 10
  else 0

def unhexBytes : List Char → List UInt8
  | a :: b :: rest => UInt8.ofNat (hexVal a * 16 + hexVal b) :: unhexBytes rest
  | _ => []

def unhex (s : String) : String :=
  if s == "-" then "" else
  match String.fromUTF8? (ByteArray.mk (unhexBytes s.toList).toArray) with
  | some r => r
  | none => ""

def hexDigit (n : Nat) : Char := if n < 10 then Char.ofNat (48 + n) else Char.ofNat (87 + n)

def tohex (s : String) : String :=
  String.ofList (s.toUTF8.toList.flatMap (fun b => [hexDigit (b.toNat / 16), hexDigit (b.toNat % 16)]))

def parseTok (f : String) : Option Tok :=
  match f.toList with
  | 'w' :: h => some { sp := unhex (String.ofList h), ws := .space }
  | 'n' :: h => some { sp := unhex (String.ofList h), ws := .none }
  | _ => none

def parseToks (fs : List String) : List Tok := fs.filterMap parseTok

def parseLine (fs : List String) : Option Line :=
  match fs with
  | "DEFOBJ" :: name :: toks => some (.define name none false (parseToks toks))
  | "DEFFUN" :: name :: ps :: va :: toks =>
    some (.define name (some (if ps == "-" then [] else ps.splitOn ",")) (va == "1") (parseToks toks))
  | ["UNDEF", name] => some (.undef name)
  | "TEXT" :: toks => some (.text (parseToks toks))
  | "IF" :: toks => some (.ifE (parseToks toks))
  | "ELIF" :: toks => some (.elifE (parseToks toks))
  | ["IFDEF", name] => some (.ifdef name)
  | ["IFNDEF", name] => some (.ifndef name)
  | ["ELSE"] => some .elseD
  | ["ENDIF"] => some .endif
  | _ => none

def maskToFixes (m : Nat) : Fixes :=
  ⟨m % 2 == 1, m / 2 % 2 == 1, m / 4 % 2 == 1, m / 8 % 2 == 1, m / 16 % 2 == 1, m / 32 % 2 == 1⟩

def fixesToMask (f : Fixes) : Nat :=
  (if f.fNot then 1 else 0) + (if f.fCmp then 2 else 0) + (if f.fShift then 4 else 0) +
  (if f.fCond then 8 else 0) + (if f.fLit then 16 else 0) + (if f.fWchar then 32 else 0)

def orFixes (a b : Fixes) : Fixes :=
  ⟨a.fNot || b.fNot, a.fCmp || b.fCmp, a.fShift || b.fShift, a.fCond || b.fCond, a.fLit || b.fLit,
   a.fWchar || b.fWchar⟩

def hex64 (w : W) : String :=
  String.ofList ((List.range 16).reverse.map (fun i => hexDigit ((w.toNat >>> (4 * i)) % 16)))

def showRes : Res → String
  | .val v => "v" ++ (if v.uns then "u" else "s") ++ hex64 v.bits
  | .divZero => "divzero"
  | .undef => "undef"

def exprOfToks (toks : List Tok) : Option Expr :=
  match toETokens toks with
  | some ets => parseExpr ets
  | none => none

def popcount (n : Nat) : Nat := (List.range 6).foldl (fun a i => a + (n >>> i) % 2) 0

def masksByWeight : List Nat :=
  (List.range 7).flatMap (fun w => (List.range 64).filter (fun m => popcount m == w))

/-- smallest set of additional repairs under which the modelled code agrees with C11 -/
def classify (e : Expr) : Option Nat :=
  let want := c11Eval e
  masksByWeight.find? (fun m => c2mEvalG (orFixes appliedFixes (maskToFixes m)) e == want)

partial def ppLoop (h : IO.FS.Stream) (ev : Expr → Res) (cur : List Line) : IO Unit := do
  let line ← h.getLine
  if line.isEmpty then return ()
  let fs := (line.trimAscii.toString.splitOn " ").filter (· != "")
  match fs with
  | ["CASE", id] =>
    IO.println s!"CASE {id}"
    ppLoop h ev []
  | ["END"] =>
    let (out, err) := runUnit ev cur.reverse
    for t in out do
      IO.println s!"T {tohex t.sp}"
    IO.println s!"ERR {if err then 1 else 0}"
    IO.println "END"
    ppLoop h ev []
  | _ =>
    match parseLine fs with
    | some l => ppLoop h ev (l :: cur)
    | none =>
      IO.println s!"BADLINE {line.trimAscii.toString}"
      ppLoop h ev cur

/-- some `/` or `%` in `e` (evaluated or not) has a divisor whose value is zero or that has no value.
gcc's cpp computes values also in unevaluated operands and, on a zero divisor there, returns the left
operand *with the left operand's type*; such expressions are compared with c2m but not with gcc. -/
def hasZeroDiv : Expr → Bool
  | .lit _ => false
  | .un _ a => hasZeroDiv a
  | .bin op a b => hasZeroDiv a || hasZeroDiv b ||
      ((op == .div || op == .mod) && (match c11Eval b with | .val v => v.bits == 0 | _ => true))
  | .cond c a b => hasZeroDiv c || hasZeroDiv a || hasZeroDiv b

partial def exprLoop (h : IO.FS.Stream) (f : Expr → String) : IO Unit := do
  let line ← h.getLine
  if line.isEmpty then return ()
  let fs := (line.trimAscii.toString.splitOn " ").filter (· != "")
  match exprOfToks (parseToks fs) with
  | some e => IO.println (f e)
  | none => IO.println "parseerr"
  exprLoop h f

def hexOfChars (cs : List Char) : String := let r := tohex (String.ofList cs); if r == "" then "-" else r

partial def strLoop (h : IO.FS.Stream) : IO Unit := do
  let line ← h.getLine
  if line.isEmpty then return ()
  let s := (unhex line.trimAscii.toString).toList
  IO.println s!"S {hexOfChars (stringify s)}"
  IO.println s!"D {hexOfChars (destringifyC (stringify s))}"
  IO.println s!"R {hexOfChars (destringifyC s)}"
  strLoop h

/-- one hex-coded character sequence per line → `ppNumberLen` (length of the pp-number at its start) -/
partial def ppnumLoop (h : IO.FS.Stream) : IO Unit := do
  let line ← h.getLine
  if line.isEmpty then return ()
  IO.println (ppNumberLen (unhex line.trimAscii.toString).toList)
  ppnumLoop h

def main (args : List String) : IO Unit := do
  let h ← IO.getStdin
  match args with
  | ["pp", "c11"] => ppLoop h c11Eval []
  | ["pp", "c2m"] => ppLoop h c2mEval []
  | ["pp", "c2m", m] => ppLoop h (c2mEvalG (maskToFixes m.toNat!)) []
  | ["expr"] =>
    exprLoop h (fun e =>
      s!"{showRes (c11Eval e)} {showRes (c2mEval e)} {if hasZeroDiv e then "z" else "-"}")
  | ["exprmask", m] => exprLoop h (fun e => showRes (c2mEvalG (maskToFixes m.toNat!) e))
  | ["strings"] => strLoop h
  | ["ppnum"] => ppnumLoop h
  | ["applied"] => IO.println (fixesToMask appliedFixes)
  | _ => IO.eprintln "usage: mirdrv_c09 pp c11|c2m [mask] | expr | exprmask <mask> | applied"
