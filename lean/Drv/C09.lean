/-! line-protocol driver for property C09 (stub) -/
def main (_args : List String) : IO Unit := pure ()
