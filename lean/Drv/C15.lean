import MirVerif.Model.CheckDocRun
/-! line-protocol driver for property C15 (`mirdrv_c15`).

  mirdrv_c15 [--ndebug]
    stdin lines, the grammar of harness/c15_harness.c:
      <id> {P <va> <nres> <type>* <nargs> (<type> <size>)*}* F[!] <va> <nres> <type>* <nargs> (<type> <name>)*
           {R <type> <name>}* {I <code> <nops> <op>*}* E
    → `<id> ok` | `<id> err <MIR_error_type_t value> <stage>` | `<id> crash <stage>`
    (the model of MIR_new_insn_arr / MIR_finish_func / MIR_new_func_reg run in the harness' order)
  mirdrv_c15 doc [--ndebug]
    same input, judged by the documentation (Model/CheckDocRun.lean)
  mirdrv_c15 cells
    stdin lines `<id> <code> <pos> <op token>` → `<id> <impl> <doc> <deviation signature or ->`
    (the per-cell verdicts the theorems speak about; `-` for doc = opcode/position not documented)
  mirdrv_c15 sigs
    prints for every opcode: `<code> <name> fixed <nops_table> <filler tokens…>` | `… variadic` | `… internal`
-/
open MirVerif.Check MirVerif.Gen.C15

def vstr : Verdict → String
  | .ok => "ok"
  | .err e => s!"err:{e}"
  | .crash => "crash"

def memRegTok (s : String) : Option MemReg :=
  match s with
  | "0" => some .none
  | "i" => some (.r (.decl .i64))
  | "f" => some (.r (.decl .f))
  | "d" => some (.r (.decl .d))
  | "l" => some (.r (.decl .ld))
  | "u" => some (.r .undecl)
  | _ => none

def refTok (s : String) : Option RefS :=
  match s with
  | "func" => some .func | "import" => some .import_ | "export" => some .export_
  | "forward" => some .forward_ | "data" => some .data | "bss" => some .bss
  | _ => none

/-- result of parsing an operand token: an operand, or the error raised while building it
(`MIR_reg` on an unknown name), or a malformed token -/
inductive Tok where
  | op (o : Operand)
  | fail (v : Verdict)
  | bad

def parseOp (regs : List RegD) (t : String) : Tok :=
  if t.startsWith "r:" then
    let n := (t.drop 2).toString
    match regs.find? (fun r => r.name == n.toList) with
    | some r => .op (.reg (.decl r.ty))
    | none => .fail (.err E_undeclared_func_reg)
  else match t with
  | "r.i" => .op (.reg (.decl .i64)) | "r.f" => .op (.reg (.decl .f)) | "r.d" => .op (.reg (.decl .d))
  | "r.l" => .op (.reg (.decl .ld)) | "r.u" => .op (.reg .undecl)
  | "i" => .op .int | "u" => .op .uint | "f" => .op .float | "d" => .op .double | "l" => .op .ldouble
  | "s" => .op .str | "L" => .op .label
  | _ =>
    match t.splitOn "." with
    | ["m", ty, disp, b, x] =>
      (match ty.toNat?, disp.toInt?, memRegTok b, memRegTok x with
       | some ty, some disp, some b, some x => .op (.mem (Ty.ofCode ty) disp b x)
       | _, _, _, _ => .bad)
    | ["ref", k] =>
      if k.startsWith "p" then
        (match (k.drop 1).toString.toNat? with
         | some n => .op (.ref .proto n)
         | none => .bad)
      else (match refTok k with
        | some r => .op (.ref r 0)
        | none => .bad)
    | _ => .bad

def regTyOfArg (t : Ty) : RegTy :=
  match t with
  | .f => .f | .d => .d | .ld => .ld | _ => .i64

structure St where
  protos : List Proto := []
  fn : Option Func := none
  regs : List RegD := []                 -- registers declared in the current function
  gregs : List Nat := []                 -- register numbers returned by the G directives
  insns : List Insn := []
  nR : Nat := 0
  nI : Nat := 0

def takeN (n : Nat) (ts : List String) : Option (List String × List String) :=
  if ts.length < n then none else some (ts.take n, ts.drop n)

def natPairs : List Nat → List (Ty × Nat)
  | t :: s :: r => (Ty.ofCode t, s) :: natPairs r
  | _ => []

def strPairs : List String → List (Ty × String)
  | t :: n :: r => (Ty.ofCode (t.toNat?.getD 0), n) :: strPairs r
  | _ => []

def argRegs : Nat → List (Ty × String) → List RegD
  | _, [] => []
  | i, a :: as => ⟨a.2.toList, regTyOfArg a.1, i, none⟩ :: argRegs (i + 1) as

def declStd (regs : List RegD) : List (String × RegTy) → Verdict × List RegD
  | [] => (.ok, regs)
  | (n, t) :: r =>
    let d := declRegD regs t.ty n.toList none
    match d.v with
    | .ok => declStd d.ds r
    | v => (v, regs)

def natsOf (ts : List String) : Option (List Nat) := ts.mapM (·.toNat?)

/-- the two judges: the model of the code, and the documentation -/
structure Sem where
  newInsn : List Proto → Nat → List Operand → Verdict
  finish : List Proto → Func → List Insn → Verdict

def implSem (asserts : Bool) : Sem := ⟨newInsnCheck insnDescs, finishFuncCheck asserts insnDescs⟩
def docSem (asserts : Bool) : Sem := ⟨docNewInsn insnDescs, docFinishFunc asserts insnDescs⟩

/-- run one case; returns the output text after the id -/
partial def runCase (asserts : Sem) (st : St) (ts : List String) : String :=
  match ts with
  | [] => "bad truncated"
  | "E" :: _ =>
    match st.fn with
    | none => "bad nofunc"
    | some fn =>
      match asserts.finish st.protos fn st.insns.reverse with
      | .ok =>
        if st.gregs.isEmpty then "ok"
        else "ok g=" ++ ",".intercalate (st.gregs.map toString)
      | .err e => s!"err {e} finish"
      | .crash => "crash finish"
  | "Z" :: rest =>
    (match st.fn with
     | none => "bad nofunc"
     | some fn =>
       match asserts.finish st.protos fn st.insns.reverse with
       | .ok => runCase asserts { st with fn := none, regs := [], insns := [], nR := 0, nI := 0 } rest
       | .err e => s!"err {e} finish"
       | .crash => "crash finish")
  | "P" :: va :: nres :: rest =>
    (match va.toNat?, nres.toNat? with
     | some va, some nres =>
       (match takeN nres rest with
        | some (rts, nargs :: rest2) =>
          (match natsOf rts, nargs.toNat? with
           | some rts, some nargs =>
             (match takeN (2 * nargs) rest2 with
              | some (ats, rest3) =>
                (match natsOf ats with
                 | some ats =>
                   let res := rts.map Ty.ofCode
                   let k := st.protos.length
                   (match newProtoCheck res with
                    | .ok => runCase asserts { st with protos := st.protos ++ [⟨va != 0, res, natPairs ats⟩] } rest3
                    | .err e => s!"err {e} P{k}"
                    | .crash => s!"crash P{k}")
                 | none => "bad proto args")
              | none => "bad proto args")
           | _, _ => "bad proto")
        | _ => "bad proto")
     | _, _ => "bad proto")
  | f :: va :: nres :: rest =>
    if f == "F" || f == "F!" then
      (match va.toNat?, nres.toNat? with
       | some va, some nres =>
         (match takeN nres rest with
          | some (rts, nargs :: rest2) =>
            (match natsOf rts, nargs.toNat? with
             | some rts, some nargs =>
               (match takeN (2 * nargs) rest2 with
                | some (ats, rest3) =>
                  let args := strPairs ats
                  let res := rts.map Ty.ofCode
                  let names := args.map (fun a => a.2.toList)
                  (match newFuncCheck (va != 0) res names with
                   | .ok =>
                     let regs0 : List RegD := argRegs 1 args
                     let std : List (String × RegTy) :=
                       if f == "F!" then [] else [("ri", .i64), ("rf", .f), ("rd", .d), ("rl", .ld)]
                     -- the standard registers go through MIR_new_func_reg too
                     (match declStd regs0 std with
                      | (.ok, regs) => runCase asserts { st with fn := some ⟨va != 0, res⟩, regs := regs } rest3
                      | (.err e, _) => s!"err {e} F"
                      | (.crash, _) => "crash F")
                   | .err e => s!"err {e} F"
                   | .crash => "crash F")
                | none => "bad func args")
             | _, _ => "bad func")
          | _ => "bad func")
       | _, _ => "bad func")
    else if f == "R" then
      -- R <type> <name>
      (match va.toNat? with
       | some t =>
         let k := st.nR
         let r := declRegD st.regs (Ty.ofCode t) nres.toList none
         (match r.v with
          | .ok => runCase asserts { st with regs := r.ds, nR := k + 1 } rest
          | .err e => s!"err {e} R{k}"
          | .crash => s!"crash R{k}")
       | none => "bad reg")
    else if f == "G" then
      -- G <type> <name> <hard reg name or ->
      (match va.toNat?, rest with
       | some t, hard :: rest2 =>
         let k := st.nR
         if hard == "-" then s!"err {E_hard_reg} R{k}"
         else
           let r := declRegD st.regs (Ty.ofCode t) nres.toList (some hard.toList)
           (match r.v with
            | .ok => runCase asserts { st with regs := r.ds, gregs := st.gregs ++ [r.reg], nR := k + 1 } rest2
            | .err e => s!"err {e} R{k}"
            | .crash => s!"crash R{k}")
       | _, _ => "bad global reg")
    else if f == "I" then
      (match va.toNat?, nres.toNat? with
       | some code, some nops =>
         (match takeN nops rest with
          | some (ots, rest2) =>
            let k := st.nI
            let toks := ots.map (parseOp st.regs)
            if toks.any (fun t => match t with | .bad => true | _ => false) then "bad operand"
            else
              match toks.findSome? (fun t => match t with | Tok.fail v => some v | _ => none) with
              | some (Verdict.err e) => s!"err {e} I{k}"
              | some _ => s!"crash I{k}"
              | none =>
                let ops := toks.filterMap (fun t => match t with | .op o => some o | _ => none)
                (match asserts.newInsn st.protos code ops with
                 | .ok => runCase asserts { st with insns := ⟨code, ops⟩ :: st.insns, nI := k + 1 } rest2
                 | .err e => s!"err {e} I{k}"
                 | .crash => s!"crash I{k}")
          | none => "bad insn")
       | _, _ => "bad insn")
    else s!"bad directive {f}"
  | _ => "bad line"

def docFiller : DocPos → String
  | .val .int _ => "r.i"
  | .val .float _ => "r.f"
  | .val .double _ => "r.d"
  | .val .ldouble _ => "r.l"
  | .val .label _ => "L"
  | .variable => "r.i"
  | .vaList => "r.i"
  | .anyMem => s!"m.{T_I64}.0.i.0"
  | .propVar => "r.i"
  | .propConst => "i"
  | .anyVal => "r.i"

def sigLine (c : Nat) : String :=
  let name := codeName c
  match docSig c with
  | some sig => s!"{c} {name} fixed {nopsOf insnDescs c} " ++ " ".intercalate (sig.map docFiller)
  | none =>
    if docVariadic.contains c then s!"{c} {name} variadic"
    else if docInternal.contains c then s!"{c} {name} internal {nopsOf insnDescs c}"
    else s!"{c} {name} undocumented {nopsOf insnDescs c}"

def cellLine (ts : List String) : String :=
  match ts with
  | [id, c, i, tok] =>
    (match c.toNat?, i.toNat?, parseOp [] tok with
     | some c, some i, .op o =>
       let impl := cellVerdict insnDescs c i o.s
       let doc := match docCell c i o.s with
         | some v => vstr v
         | none => "-"
       let dev := match knownDeviations.find? (fun d => d.at c i && d.ops o.s.absDoc) with
         | some d => d.signature
         | none => "-"
       s!"{id} {vstr impl} {doc} {dev}"
     | _, _, _ => s!"{id} bad")
  | _ => "bad"

partial def loop (h : IO.FS.Stream) (f : List String → String) (withId : Bool) : IO Unit := do
  let line ← h.getLine
  if line.isEmpty then return ()
  let ts := (line.trimAscii.toString.splitOn " ").filter (· != "")
  match ts with
  | [] => pure ()
  | id :: rest => IO.println (if withId then s!"{id} {f rest}" else f ts)
  loop h f withId

def main (args : List String) : IO Unit := do
  let stdin ← IO.getStdin
  match args with
  | ["cells"] => loop stdin cellLine false
  | ["sigs"] =>
    for c in List.range C_INSN_BOUND do IO.println (sigLine c)
    IO.println ("known " ++ " ".intercalate (knownDeviations.map Deviation.signature))
  | ["--ndebug"] => loop stdin (runCase (implSem false) {}) true
  | ["doc"] => loop stdin (runCase (docSem true) {}) true
  | ["doc", "--ndebug"] => loop stdin (runCase (docSem false) {}) true
  | _ => loop stdin (runCase (implSem true) {}) true
