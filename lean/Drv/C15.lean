/-! line-protocol driver for property C15 (stub) -/
def main (_args : List String) : IO Unit := pure ()
