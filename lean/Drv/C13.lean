/-! line-protocol driver for property C13 (stub) -/
def main (_args : List String) : IO Unit := pure ()
