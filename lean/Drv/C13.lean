import MirVerif.Model.LinkSpec
/-! line-protocol driver for property C13: same input language as `harness/c13_link.c`
(see the comment at the top of that file); prints what the model predicts for every operation. -/
open MirVerif.Link

namespace C13Drv

def nameOf (s : String) : Name := (s.toList.getD 1 'a').toNat - 97
def nameStr (n : Name) : String := String.singleton (Char.ofNat (n + 97))

def parseDecl (s : String) : Option Decl :=
  let n := nameOf s
  match s.toList.head? with
  | some 'E' => some (.exp n)
  | some 'F' => some (.fwd n)
  | some 'D' => some (.func n)
  | some 'V' | some 'W' | some 'X' | some 'B' | some 'A' | some 'Q' | some 'T' | some 'Z'
  | some 'Y' => some (.data n)   -- every non-function item kind, single or section head
  | some 'C' => some (.imp n .call)
  | some 'P' => some (.imp n .ptr)
  | some 'R' => some (.imp n .ref)
  | _ => none

def errName : Err → String
  | .importExport => "MIR_import_export_error"
  | .repeatedDecl => "MIR_repeated_decl_error"
  | .undeclaredOpRef => "MIR_undeclared_op_ref_error"
  | .undefinedInterface => "undefined_interface"

def allMods (s : State) : List Mod := (s.queue ++ s.done).mergeSort (fun a b => a.id ≤ b.id)

def dumpBinds (s : State) : String :=
  String.join ((allMods s).map fun m =>
    s!" m{m.id}:{if m.iface.isSome then "d" else "q"}:" ++
      ",".intercalate (m.imps.map fun p =>
        nameStr p.1 ++ "=" ++ (match m.binds.lookup p.1 with | some d => toString d.value | none => "?")))

def dumpCalls (s : State) : String :=
  String.join (((allMods s).filter (·.iface.isSome)).map fun m =>
    s!" m{m.id}:" ++ ",".intercalate ((observeMod s m).map fun p =>
        nameStr p.1 ++ "=" ++ (match p.2 with | some v => toString v | none => "?")))

def parseOp (toks : List String) : Option Op :=
  match toks with
  | "load" :: id :: ds => (ds.mapM parseDecl).map (Op.loadModule id.toNat!)
  | ["ext", n, k] => some (.loadExternal ((n.toList.headD 'a').toNat - 97) (if k == "N" then 0 else 100 + k.toNat! % 10))   -- N: address NULL
  | ["redef", b] => some (.setRedef (b != "0"))
  | ["link", i, names] =>
    let ifc : Option Iface := match i with
      | "interp" => some .interp | "gen" => some .gen | "lazy" => some .lazy | _ => none
    let ns : List Name := if names == "-" || names == "0" then [] else names.toList.map (·.toNat - 97)
    some (.link ifc (fun n => if ns.contains n then some (200 + n) else none))
  | ["call"] => some .call
  | _ => none

def render (op : Op) (s : State) : String :=
  match s.err with
  | some e => "err " ++ errName e
  | none => match op with
    | .link _ _ => "ok" ++ dumpBinds s
    | .call => "ok" ++ dumpCalls s
    | _ => "ok"

partial def loop (h : IO.FS.Stream) (st : State) : IO Unit := do
  let line ← h.getLine
  if line.isEmpty then return ()
  let toks := (line.trimAscii.toString.splitOn " ").filter (· != "")
  match toks with
  | [] => loop h st
  | ["reset"] => IO.println "reset"; loop h init
  | _ =>
    if st.fatal then loop h st
    else match (match toks with
                | ["reload", id] => some (Op.reload (st.loaded.findIdx (·.1 == id.toNat!)))
                | _ => parseOp toks) with
      | none => IO.println s!"bad op {line.trimAscii.toString}"; loop h st
      | some op =>
        -- `st.err` is kept `none` here after a failed link (no operation of the model reads `err`,
        -- only the guard of `step` does), so that `render` shows the outcome of THIS call
        let st' := step st op
        IO.println (render op st')
        loop h (if st'.fatal then st' else { st' with err := none })

/-! ### `spec` mode: what the property statement (through `lastDef`) demands, per operation.
`any` = the statement does not say (malformed module text; a function replacing a non-function). -/

structure SpecSt where
  r : List Op := []                                   -- history so far, most recent call first
  mods : List (Nat × List Name) := []                 -- every module loaded so far
  frozen : List (Nat × List (Name × Nat)) := []       -- values fixed when the interface was installed
  stop : Bool := false
  unlinked : List Nat := []                           -- ids reloaded and not linked again yet

def fmtVals (vs : List (Name × Nat)) : String :=
  ",".intercalate (vs.map fun p => nameStr p.1 ++ "=" ++ toString p.2)

def specStep (st : SpecSt) (op : Op) : SpecSt × String :=
  let r := st.r
  match op with
  | .reload k =>
    match (loadsR r)[k]? with
    | none => (st, "bad reload")
    | some (id, ds) =>
      let names := (ds.map Decl.name).eraseDups
      let funcs := names.filter fun n => declExport id ds n == some (.func id)
      let clashF := funcs.any fun n => match lastDefR r n with | some (.func _) => true | _ => false
      let clashO := funcs.any fun n => (lastDefR r n).isSome
      if clashF && !redefOkR r then ({ st with stop := true }, "err MIR_repeated_decl_error")
      else if clashO && !redefOkR r then ({ st with stop := true }, "any")
      else ({ st with r := op :: r, frozen := st.frozen.filter (·.1 != id), unlinked := id :: st.unlinked }, "ok")
  | .loadModule id ds =>
    if !declsOk ds then ({ st with stop := true }, "any")
    else
      let names := (ds.map Decl.name).eraseDups
      let funcs := names.filter fun n => declExport id ds n == some (.func id)
      let clashF := funcs.any fun n => match lastDefR r n with | some (.func _) => true | _ => false
      let clashO := funcs.any fun n => (lastDefR r n).isSome
      if clashF && !redefOkR r then ({ st with stop := true }, "err MIR_repeated_decl_error")
      else if clashO && !redefOkR r then ({ st with stop := true }, "any")
      else ({ st with r := op :: r, mods := st.mods ++ [(id, (declImports ds).eraseDups)] }, "ok")
  | .loadExternal _ _ | .setRedef _ => ({ st with r := op :: r }, "ok")
  | .link ifc res =>
    let pend := (pendingModsR r).map (·.1)
    let bad := (pendingR r).any fun n => (wanted r res n).isNone
    if bad then
      -- a failed link is not the end: it has registered what the resolver answered for the imports
      -- that come before the first unresolvable one, and leaves the modules in the queue
      let pre := (pendingR r).takeWhile fun n => (wanted r res n).isSome
      let res' : Resolver := fun n => if pre.contains n then res n else none
      ({ st with r := .link none res' :: r }, "err MIR_undeclared_op_ref_error")
    else
      let vals := fun (imps : List Name) => imps.map fun n => (n, ((wanted r res n).map Def.value).getD 0)
      let line := String.join (st.mods.map fun m =>
        if pend.contains m.1 then s!" m{m.1}:{if ifc.isSome then "d" else "q"}:" ++ fmtVals (vals m.2)
        else s!" m{m.1}:d:" ++ fmtVals ((st.frozen.lookup m.1).getD []))
      let frozen' := if ifc.isSome then
          st.frozen ++ (st.mods.filter (pend.contains ·.1)).map (fun m => (m.1, vals m.2))
        else st.frozen
      ({ st with r := op :: r, frozen := frozen', unlinked := if ifc.isSome then [] else st.unlinked },
       "ok" ++ line)
  | .call =>
    -- a module bound to an external with address NULL cannot be called: nothing is demanded
    if st.frozen.any (fun m => m.2.any (·.2 == 0)) then ({ st with stop := true }, "any")
    -- a value that is the id of a module reloaded and not linked again may be one of its functions,
    -- whose thunk leads to undefined_interface until the next link: this line is not compared
    else if st.frozen.any (fun m => m.2.any (fun p => st.unlinked.contains p.2)) then
      ({ st with r := op :: r }, "skip")
    else ({ st with r := op :: r }, "ok" ++ String.join (st.mods.filterMap fun m =>
            (st.frozen.lookup m.1).map fun vs => s!" m{m.1}:" ++ fmtVals vs))

partial def specLoop (h : IO.FS.Stream) (st : SpecSt) : IO Unit := do
  let line ← h.getLine
  if line.isEmpty then return ()
  let toks := (line.trimAscii.toString.splitOn " ").filter (· != "")
  match toks with
  | [] => specLoop h st
  | ["reset"] => IO.println "reset"; specLoop h {}
  | _ =>
    if st.stop then specLoop h st
    else match (match toks with
                | ["reload", id] => some (Op.reload (st.mods.findIdx (·.1 == id.toNat!)))
                | _ => parseOp toks) with
      | none => IO.println s!"bad op {line.trimAscii.toString}"; specLoop h st
      | some op =>
        let (st', out) := specStep st op
        IO.println out
        specLoop h st'

end C13Drv

def main (args : List String) : IO Unit := do
  if args == ["spec"] then C13Drv.specLoop (← IO.getStdin) {}
  else C13Drv.loop (← IO.getStdin) init
