import MirVerif.Model.Layout
import MirVerif.Model.Classify
/-! line-protocol driver for property C08 (`mirdrv_c08`)

```
layout <type>                 ->  L c2m <size> <align> <m,..> | sysv <size> <align> <m,..> | wf=.. nobf=.. simple=..
class <type>                  ->  C c2m <cls> | sysv <cls> | aligned=..
proto <ret|void> ; <t> ; ...  ->  P c2m <ret> <arg> ... | sysv <ret> <arg> ...
merge                         ->  6x6 table of c2mMerge over N I S X U M, row-major
```
enum <least> <greatest>         ->  E c2m <base> <size> ok=<accepted> | gcc <base> <size> ok=<accepted>
type syntax (prefix): scalar name | `E:<least>:<greatest>` (enumerated type) | `A n T` | `S m* .` | `U m* .`;  member m: `p T` | `b w named T` | `a T`.
member output: `bitpos:nbits` of every nameable member (through anonymous members), declaration order.
-/
open MirVerif.Layout MirVerif.Classify

def scOfName : String → Option Sc
  | "bool" => some .bool | "char" => some .char | "schar" => some .schar | "uchar" => some .uchar
  | "short" => some .short | "ushort" => some .ushort | "int" => some .int | "uint" => some .uint
  | "long" => some .long | "ulong" => some .ulong | "llong" => some .llong | "ullong" => some .ullong
  | "float" => some .float | "double" => some .double | "ldouble" => some .ldouble
  | "ptr" => some .ptr | "enum4" => some .enum4 | "enum8" => some .enum8
  | _ => none

/-- scalar token `E:<least>:<greatest>`: an enumerated type with these extreme enumerators;
`er` = the rule that picks its underlying type (c2mir's or the platform compiler's) -/
def enumOfName (er : Int → Int → Sc) (s : String) : Option Sc :=
  match s.splitOn ":" with
  | ["E", a, b] => do
    let mn ← a.toInt?
    let mx ← b.toInt?
    if mn ≤ 0 ∧ 0 ≤ mx then some (er mn mx) else none
  | _ => none

mutual
partial def parseTy (er : Int → Int → Sc) : List String → Option (CTy × List String)
  | "A" :: n :: rest => do
    let (t, r) ← parseTy er rest
    pure (.arr n.toNat! t, r)
  | "S" :: rest => do
    let (ms, r) ← parseMems er rest
    pure (.agg false ms, r)
  | "U" :: rest => do
    let (ms, r) ← parseMems er rest
    pure (.agg true ms, r)
  | s :: rest => do
    let sc ← (scOfName s <|> enumOfName er s)
    pure (.sc sc, rest)
  | [] => none
partial def parseMems (er : Int → Int → Sc) : List String → Option (Mems × List String)
  | "." :: rest => some (.nil, rest)
  | "p" :: rest => do
    let (t, r) ← parseTy er rest
    let (ms, r') ← parseMems er r
    pure (.cons .plain t ms, r')
  | "a" :: rest => do
    let (t, r) ← parseTy er rest
    let (ms, r') ← parseMems er r
    pure (.cons .anon t ms, r')
  | "b" :: w :: nm :: rest => do
    let (t, r) ← parseTy er rest
    let (ms, r') ← parseMems er r
    pure (.cons (.bf w.toNat! (nm == "1")) t ms, r')
  | _ => none
end

def showMems (ps : List Place) : String :=
  if ps.isEmpty then "-" else ",".intercalate (ps.map fun p => s!"{p.bitpos}:{p.nbits}")

def showLay (L : CTy → Lay) (t : CTy) : String :=
  let l := L t
  s!"{l.size} {l.align} {showMems (flatMems L t)}"

def showCls : Cls → String
  | .no => "N" | .int => "I" | .sse => "S" | .x87 => "X" | .x87up => "U" | .mem => "M"

def showClsList (cs : List Cls) : String :=
  if cs.isEmpty then "-" else String.join (cs.map showCls)

def showArgLoc : ArgLoc → String
  | .stack => "M"
  | .regs cs => showClsList cs

def showRetLoc : Option RetLoc → String
  | none => "void"
  | some .sret => "M"
  | some (.regs cs) => showClsList cs

def b01 (b : Bool) : String := if b then "1" else "0"

def splitOnTok (l : List String) (sep : String) : List (List String) :=
  let r := l.foldl (fun (acc : List (List String) × List String) s =>
    if s == sep then (acc.2.reverse :: acc.1, []) else (acc.1, s :: acc.2)) ([], [])
  (r.2.reverse :: r.1).reverse

def showSc : Sc → String
  | .int => "int" | .uint => "uint" | .long => "long" | .ulong => "ulong" | .llong => "llong" | .ullong => "ullong"
  | _ => "?"

def parseProto (er : Int → Int → Sc) (rest : List String) : Option (Option CTy × List CTy) :=
  match splitOnTok rest ";" with
  | retToks :: argToks =>
    let ret : Option (Option CTy) :=
      if retToks == ["void"] then some none
      else match parseTy er retToks with | some (t, []) => some (some t) | _ => none
    let args := argToks.map fun a => match parseTy er a with | some (t, []) => some t | _ => none
    if ret.isNone || args.any (·.isNone) then none
    else some (ret.get!, args.map (·.get!))
  | _ => none

/- In every command the c2m column is computed from the type read with c2mir's enum rule and the
sysv column from the type read with the platform compiler's enum rule. -/
def step (toks : List String) : String :=
  match toks with
  | ["enum", a, b] =>
    match a.toInt?, b.toInt? with
    | some mn, some mx =>
      let c := c2mEnumBase mn mx
      let g := gccEnumBase mn mx
      s!"E c2m {showSc c} {c.size} ok={b01 (c2mEnumOk mn mx)} | gcc {showSc g} {g.size} ok={b01 (gccEnumOk mn mx)}"
    | _, _ => "ERR parse"
  | "layout" :: rest =>
    match parseTy c2mEnumBase rest, parseTy gccEnumBase rest with
    | some (tc, []), some (t, []) =>
      s!"L c2m {showLay c2mLay tc} | sysv {showLay sysvLay t} | wf={b01 t.wf} nobf={b01 t.noBf} simple={b01 t.bfSimple}"
    | _, _ => "ERR parse"
  | "class" :: rest =>
    match parseTy c2mEnumBase rest, parseTy gccEnumBase rest with
    | some (tc, []), some (t, []) =>
      let c := match c2mClassify tc with | none => "M" | some cs => showClsList cs
      let valid := match c2mClassify tc with | none => true | some cs => validCls cs
      s!"C c2m {c} | sysv {showClsList (sysvClass sysvLay t)} | aligned={b01 (clsAligned t)} valid={b01 valid} nobf={b01 t.noBf}"
    | _, _ => "ERR parse"
  | "proto" :: rest =>
    match parseProto c2mEnumBase rest, parseProto gccEnumBase rest with
    | some (retc, argsc), some (ret, args) =>
      let c := c2mProto retc argsc
      let s := sysvProto sysvLay ret args
      let sh := fun (r : Option RetLoc × List ArgLoc) =>
        " ".intercalate (showRetLoc r.1 :: r.2.map showArgLoc)
      s!"P c2m {sh c} | sysv {sh s}"
    | _, _ => "ERR parse"
  | ["merge"] =>
    let cs : List Cls := [.no, .int, .sse, .x87, .x87up, .mem]
    String.join (cs.flatMap fun a => cs.map fun b => showCls (c2mMerge a b))
  | [] => ""
  | _ => "ERR cmd"

partial def loop (h : IO.FS.Stream) : IO Unit := do
  let line ← h.getLine
  if line.isEmpty then return ()
  let toks := (line.trimAscii.toString.splitOn " ").filter (· ≠ "")
  IO.println (step toks)
  loop h

def main (_args : List String) : IO Unit := do loop (← IO.getStdin)
