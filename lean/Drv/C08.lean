/-! line-protocol driver for property C08 (stub) -/
def main (_args : List String) : IO Unit := pure ()
