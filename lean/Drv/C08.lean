import MirVerif.Model.Layout
import MirVerif.Model.Classify
/-! line-protocol driver for property C08 (`mirdrv_c08`)

```
layout <type>                 ->  L c2m <size> <align> <m,..> | sysv <size> <align> <m,..> | wf=.. nobf=.. simple=..
class <type>                  ->  C c2m <cls> | sysv <cls> | aligned=..
proto <ret|void> ; <t> ; ...  ->  P c2m <ret> <arg> ... | sysv <ret> <arg> ...
merge                         ->  6x6 table of c2mMerge over N I S X U M, row-major
```
type syntax (prefix): scalar name | `A n T` | `S m* .` | `U m* .`;  member m: `p T` | `b w named T` | `a T`.
member output: `bitpos:nbits` of every nameable member (through anonymous members), declaration order.
-/
open MirVerif.Layout MirVerif.Classify

def scOfName : String → Option Sc
  | "bool" => some .bool | "char" => some .char | "schar" => some .schar | "uchar" => some .uchar
  | "short" => some .short | "ushort" => some .ushort | "int" => some .int | "uint" => some .uint
  | "long" => some .long | "ulong" => some .ulong | "llong" => some .llong | "ullong" => some .ullong
  | "float" => some .float | "double" => some .double | "ldouble" => some .ldouble
  | "ptr" => some .ptr | "enum4" => some .enum4 | "enum8" => some .enum8
  | _ => none

mutual
partial def parseTy : List String → Option (CTy × List String)
  | "A" :: n :: rest => do
    let (t, r) ← parseTy rest
    pure (.arr n.toNat! t, r)
  | "S" :: rest => do
    let (ms, r) ← parseMems rest
    pure (.agg false ms, r)
  | "U" :: rest => do
    let (ms, r) ← parseMems rest
    pure (.agg true ms, r)
  | s :: rest => do
    let sc ← scOfName s
    pure (.sc sc, rest)
  | [] => none
partial def parseMems : List String → Option (Mems × List String)
  | "." :: rest => some (.nil, rest)
  | "p" :: rest => do
    let (t, r) ← parseTy rest
    let (ms, r') ← parseMems r
    pure (.cons .plain t ms, r')
  | "a" :: rest => do
    let (t, r) ← parseTy rest
    let (ms, r') ← parseMems r
    pure (.cons .anon t ms, r')
  | "b" :: w :: nm :: rest => do
    let (t, r) ← parseTy rest
    let (ms, r') ← parseMems r
    pure (.cons (.bf w.toNat! (nm == "1")) t ms, r')
  | _ => none
end

def showMems (ps : List Place) : String :=
  if ps.isEmpty then "-" else ",".intercalate (ps.map fun p => s!"{p.bitpos}:{p.nbits}")

def showLay (L : CTy → Lay) (t : CTy) : String :=
  let l := L t
  s!"{l.size} {l.align} {showMems (flatMems L t)}"

def showCls : Cls → String
  | .no => "N" | .int => "I" | .sse => "S" | .x87 => "X" | .x87up => "U" | .mem => "M"

def showClsList (cs : List Cls) : String :=
  if cs.isEmpty then "-" else String.join (cs.map showCls)

def showArgLoc : ArgLoc → String
  | .stack => "M"
  | .regs cs => showClsList cs

def showRetLoc : Option RetLoc → String
  | none => "void"
  | some .sret => "M"
  | some (.regs cs) => showClsList cs

def b01 (b : Bool) : String := if b then "1" else "0"

def splitOnTok (l : List String) (sep : String) : List (List String) :=
  let r := l.foldl (fun (acc : List (List String) × List String) s =>
    if s == sep then (acc.2.reverse :: acc.1, []) else (acc.1, s :: acc.2)) ([], [])
  (r.2.reverse :: r.1).reverse

def step (toks : List String) : String :=
  match toks with
  | "layout" :: rest =>
    match parseTy rest with
    | some (t, []) =>
      s!"L c2m {showLay c2mLay t} | sysv {showLay sysvLay t} | wf={b01 t.wf} nobf={b01 t.noBf} simple={b01 t.bfSimple}"
    | _ => "ERR parse"
  | "class" :: rest =>
    match parseTy rest with
    | some (t, []) =>
      let c := match c2mClassify t with | none => "M" | some cs => showClsList cs
      let valid := match c2mClassify t with | none => true | some cs => validCls cs
      s!"C c2m {c} | sysv {showClsList (sysvClass sysvLay t)} | aligned={b01 (clsAligned t)} valid={b01 valid} nobf={b01 t.noBf}"
    | _ => "ERR parse"
  | "proto" :: rest =>
    let parts := splitOnTok rest ";"
    match parts with
    | retToks :: argToks =>
      let ret : Option (Option CTy) :=
        if retToks == ["void"] then some none
        else match parseTy retToks with | some (t, []) => some (some t) | _ => none
      let args := argToks.map fun a => match parseTy a with | some (t, []) => some t | _ => none
      if ret.isNone || args.any (·.isNone) then "ERR parse"
      else
        let ret := ret.get!
        let args := args.map (·.get!)
        let c := c2mProto ret args
        let s := sysvProto sysvLay ret args
        let sh := fun (r : Option RetLoc × List ArgLoc) =>
          " ".intercalate (showRetLoc r.1 :: r.2.map showArgLoc)
        s!"P c2m {sh c} | sysv {sh s}"
    | _ => "ERR parse"
  | ["merge"] =>
    let cs : List Cls := [.no, .int, .sse, .x87, .x87up, .mem]
    String.join (cs.flatMap fun a => cs.map fun b => showCls (c2mMerge a b))
  | [] => ""
  | _ => "ERR cmd"

partial def loop (h : IO.FS.Stream) : IO Unit := do
  let line ← h.getLine
  if line.isEmpty then return ()
  let toks := (line.trimAscii.toString.splitOn " ").filter (· ≠ "")
  IO.println (step toks)
  loop h

def main (_args : List String) : IO Unit := do loop (← IO.getStdin)
