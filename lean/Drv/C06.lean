import MirVerif.Model.AbiCallee
import MirVerif.Gen.C06_Regs
/-! line-protocol driver for property C06 (see checks/c06.py for the protocol) -/
open MirVerif.AbiCallee

def parseSig (ws : List String) : Option (List PTy) :=
  ws.foldr (fun w acc => match PTy.ofString? w, acc with
    | some t, some l => some (t :: l)
    | _, _ => none) (some [])

/-- split `a b | c d` at the bar -/
def splitBar (ws : List String) : List String × List String :=
  (ws.takeWhile (· != "|"), (ws.dropWhile (· != "|")).drop 1)

def vaStr (v : VaList) : String := s!"{v.gp},{v.fp},{v.oaa}"

def srcPlaces (l : List (List Src)) : List Place := l.map (·.map Src.toPiece)


/-- names of the documented deviations of the model (= the code) from the psABI that apply to a
signature; `gen` selects generated code, otherwise the interpreter shim.  After the repairs of the
long-double alignment (6f58eeff), of va_block_arg (a84677ea) and of va_start (de2f5d8a) no documented
deviation is left: every tag is `…-unexplained`, i.e. a failing call is an unknown violation. -/
def diag (gen : Bool) (named tail : List PTy) (vararg : Bool) : List String := Id.run do
  let mut tags : List String := []
  let specNamed := sysvIncoming named
  let sAfter := (sysvWalk .init named).2
  let specTail := (sysvWalk sAfter tail).1
  if gen then
    if (calleePlace named).map (·.map MPiece.toPiece) != specNamed then
      tags := tags ++ ["callee-place-unexplained"]
    if vararg then
      let v := vaStartGen named
      if v.norm != sysvVaStart named then
        let t := "va-start-unexplained"
        tags := tags ++ [t]
      -- the fetch sequence is judged from the psABI state, the va_start deviation is tagged above
      if srcPlaces (vaArgWalk (sysvVaStart named) tail).1 != specTail then
        tags := tags ++ ["va-walk-unexplained"]
  else
    if shimPlace named != specNamed then
      tags := tags ++ ["shim-place-unexplained"]
    if vararg then
      if srcPlaces (vaArgWalk (vaStartShim named) tail).1 != specTail then
        tags := tags ++ ["va-walk-unexplained"]
  return tags

def frameLine (ws : List String) : String :=
  match ws.map String.toNat? with
  | [some kf, some va, some jr, some ns, some used, some leaf, some alc, some blkarg] =>
    let saved := (List.range 16).filter fun hr => !MirVerif.Gen.C06.callUsedP hr && (used >>> hr) % 2 == 1
    let f : FrameIn := ⟨kf != 0, va != 0, jr != 0, ns, saved⟩
    if leaf != 0 && alc == 0 && blkarg == 0 && saved.isEmpty && va == 0 && ns == 0 then "frame none"
    else
      let saves := (List.range saved.length).map fun i =>
        let (d, b) := f.saveDisp i
        s!"{saved[i]!}:{if b then "rbp" else "rsp"}:{d}"
      s!"frame sub={f.spSub} keepfp={if f.keepFp then 1 else 0} saves={",".intercalate saves}"
  | _ => "frame ?"

def srcStr : Src → String
  | .rsa o => s!"r:{o}" | .ovf o => s!"o:{o}"

def step (ws : List String) : String :=
  match ws with
  | "spec" :: rest => match parseSig rest with
    | some ps => "spec " ++ placesToString (sysvIncoming ps)
    | none => "spec ?"
  | "gen" :: rest => match parseSig rest with
    | some ps => "gen " ++ placesToString ((calleePlace ps).map (·.map MPiece.toPiece))
    | none => "gen ?"
  | "shim" :: rest => match parseSig rest with
    | some ps => "shim " ++ placesToString (shimPlace ps)
    | none => "shim ?"
  | "vastart" :: rest => match parseSig rest with
    | some ps => s!"vastart spec={vaStr (sysvVaStart ps)} gen={vaStr (vaStartGen ps)} shim={vaStr (vaStartShim ps)}"
    | none => "vastart ?"
  | "walk" :: rest =>
    let (a, b) := splitBar rest
    match parseSig a, parseSig b with
    | some named, some tail =>
      let sAfter := (sysvWalk .init named).2
      let spec := (sysvWalk sAfter tail).1
      let g := srcPlaces (vaArgWalk (vaStartGen named) tail).1
      let s := srcPlaces (vaArgWalk (vaStartShim named) tail).1
      s!"walk spec={placesToString spec} gen={placesToString g} shim={placesToString s}"
    | _, _ => "walk ?"
  | "diag" :: which :: va :: rest =>
    let (a, b) := splitBar rest
    match parseSig a, parseSig b with
    | some named, some tail => "diag " ++ " ".intercalate (diag (which == "gen") named tail (va == "1"))
    | _, _ => "diag ?"
  | "ret" :: which :: rest =>
    let rs := rest.filterMap fun w => match w with
      | "int" => some RTy.int | "sse" => some RTy.sse | "x87" => some RTy.x87 | _ => none
    let step := if which == "gen" then retGenStep else if which == "shim" then retShimStep else retSpecStep
    match retWalk step ⟨0, 0, 0⟩ rs with
    | some l => "ret " ++ " ".intercalate (l.map RetLoc.toString)
    | none => "ret none"
  | "frame" :: rest => frameLine rest
  | ["alloca", n] => match n.toNat? with
    | some n => s!"alloca {(allocaRoundBV (BitVec.ofNat 64 n)).toNat}"
    | none => "alloca ?"
  | ["A", gp, fp, ty] => match gp.toNat?, fp.toNat?, PTy.ofString? (if ty == "i32" || ty == "i64" || ty == "p" then "i" else ty) with
    | some gp, some fp, some t =>
      let (src, v) := vaArgStep ⟨gp, fp, 0⟩ t
      match src.head? with
      | some (.rsa o) => s!"A r {o} {v.gp} {v.fp} {v.oaa}"
      | some (.ovf o) => s!"A o {o} {v.gp} {v.fp} {v.oaa}"
      | none => "A ?"
    | _, _, _ => "A ?"
  | ["K", gp, fp, sz, k] => match gp.toNat?, fp.toNat?, sz.toNat?, k.toNat? with
    | some gp, some fp, some sz, some k =>
      let (src, v) := vaBlockArg ⟨gp, fp, 0⟩ sz k
      s!"K {src.length} {" ".intercalate (src.map srcStr)} {v.gp} {v.fp} {v.oaa}"
    | _, _, _, _ => "K ?"
  | _ => "?"

partial def loop (h : IO.FS.Stream) : IO Unit := do
  let line ← h.getLine
  if line.isEmpty then return ()
  let ws := (line.trimAscii.toString.splitOn " ").filter (· != "")
  IO.println (step ws)
  loop h

def main (_args : List String) : IO Unit := do loop (← IO.getStdin)
