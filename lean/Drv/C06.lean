/-! line-protocol driver for property C06 (stub) -/
def main (_args : List String) : IO Unit := pure ()
