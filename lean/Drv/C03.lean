import MirVerif.Model.Thunk
/-! line-protocol driver for property C03 (`mirdrv_c03`).

Input (one command per line, addresses in hex without prefix):
  redir <a> <to>                 -> `redir <13 bytes hex> <target> <get> <S|L>`
  decode <a> <bytes hex>         -> `decode <target|none> <get>`
  u <addr>                       -> sets the address of `undefined_interface`
  ev load <f>:<thunk> ...        -> MIR_load_module of a module with these functions
  ev link <iface> <f>:<pub> ...  -> MIR_link under interp|gen|lazy|bb
  ev set <iface> <f> <pub>       -> MIR_set_<iface>_interface (ctx, f)
  ev call <f> <pub>              -> a call through item->addr
  ev gen <f> <pub>               -> MIR_gen (ctx, f)
  ev bbgen <f> <pub>
  show                           -> the state of every function seen so far:
  st <f> addr=<a|none> bytes=<hex> kind=<k> mc=<a|none> target=<a|none> get=<a> adm=<0|1>
  (adm: were all events since the previous `show` admissible), then `end`
This is the same vocabulary `harness/c03_thunk.c` prints for the real library. -/
open MirVerif MirVerif.Thunk

namespace C03Drv

def hexDigit (c : Char) : Option Nat :=
  if '0' ≤ c ∧ c ≤ '9' then some (c.toNat - 48)
  else if 'a' ≤ c ∧ c ≤ 'f' then some (c.toNat - 87)
  else if 'A' ≤ c ∧ c ≤ 'F' then some (c.toNat - 55)
  else none

def parseHex (s : String) : Nat :=
  s.toList.foldl (fun acc c => match hexDigit c with | some d => acc * 16 + d | none => acc) 0

def hexChar (n : Nat) : Char := if n < 10 then Char.ofNat (48 + n) else Char.ofNat (87 + n)

partial def toHexAux (n : Nat) (acc : List Char) : List Char :=
  if n < 16 then hexChar n :: acc else toHexAux (n / 16) (hexChar (n % 16) :: acc)

def toHex (n : Nat) : String := String.ofList (toHexAux n [])

def w64 (s : String) : W64 := BitVec.ofNat 64 (parseHex s)

def byteHex (b : Byte) : String := String.ofList [hexChar (b.toNat / 16), hexChar (b.toNat % 16)]
def bytesHex (bs : List Byte) : String := String.join (bs.map byteHex)

def parseBytes : List Char → List Byte
  | a :: b :: rest => BitVec.ofNat 8 ((hexDigit a).getD 0 * 16 + (hexDigit b).getD 0) :: parseBytes rest
  | _ => []

def optHex : Option W64 → String
  | some a => toHex a.toNat
  | none => "none"

def kindStr : Kind → String
  | .undefined => "undefined" | .shim => "shim" | .lazyWrapper => "lazywrap" | .bbWrapper => "bbwrap"
  | .code => "code" | .bbThunk => "bbthunk"

def parseIface : String → Option Iface
  | "interp" => some .interp | "gen" => some .gen | "lazy" => some .lazy | "bb" => some .lazyBB
  | _ => none

/-- `f:addr` pairs -/
def parsePairs (ts : List String) : List (Nat × W64) :=
  ts.filterMap fun t => match t.splitOn ":" with
    | [f, a] => some (f.toNat!, w64 a)
    | _ => none

def lookupFn (ps : List (Nat × W64)) (f : Nat) : W64 := (ps.lookup f).getD 0

structure DS where
  u : W64 := 0
  st : State := init
  seen : List Nat := []
  adm : Bool := true   -- were all events since the last `show` admissible

def parseEvent (ts : List String) : Option (Event × List Nat) :=
  match ts with
  | "load" :: ps => let ps := parsePairs ps; some (.load (ps.map (·.1)) (lookupFn ps), ps.map (·.1))
  | "link" :: i :: ps => (parseIface i).map fun i => (.link i (lookupFn (parsePairs ps)), [])
  | ["set", i, f, p] => (parseIface i).map fun i => (.setIface i f.toNat! (w64 p), [f.toNat!])
  | ["call", f, p] => some (.firstCall f.toNat! (w64 p), [f.toNat!])
  | ["gen", f, p] => some (.gen f.toNat! (w64 p), [f.toNat!])
  | ["bbgen", f, p] => some (.bbgen f.toNat! (w64 p), [f.toNat!])
  | _ => none

def stLine (s : State) (f : Nat) (adm : Bool) : String :=
  let x := s f
  s!"st {f} addr={optHex x.addr} bytes={bytesHex x.bytes} kind={kindStr x.kind} mc={optHex x.machineCode} " ++
  s!"target={optHex (target s f)} get={toHex (getThunkAddr x.bytes).toNat} adm={if adm then 1 else 0}"

def stepLine (d : DS) (ts : List String) : DS × List String :=
  match ts with
  | ["redir", a, t] =>
    let a := w64 a; let t := w64 t
    let bs := redirect a t
    (d, [s!"redir {bytesHex bs} {optHex (thunkTarget a bs)} {toHex (getThunkAddr bs).toNat} {if shortP a t then "S" else "L"}"])
  | ["decode", a, bs] =>
    let bs := parseBytes bs.toList
    (d, [s!"decode {optHex (thunkTarget (w64 a) bs)} {toHex (getThunkAddr bs).toNat}"])
  | "u" :: a :: _ => ({ d with u := w64 a }, ["u ok"])
  | "ev" :: rest =>
    match parseEvent rest with
    | some (e, fs) =>
      let adm := admissible d.st e
      let st' := step d.u d.st e
      let seen := (d.seen ++ fs.filter (fun f => !d.seen.contains f)).mergeSort (· ≤ ·)
      ({ d with st := st', seen := seen, adm := d.adm && adm }, [])
    | none => (d, ["bad-event"])
  | ["show"] => ({ d with adm := true }, d.seen.map (fun f => stLine d.st f d.adm) ++ ["end"])
  | [] => (d, [])
  | _ => (d, ["bad-command"])

partial def loop (h : IO.FS.Stream) (d : DS) : IO Unit := do
  let line ← h.getLine
  if line.isEmpty then return ()
  let toks := (line.trimAscii.toString.splitOn " ").filter (· ≠ "")
  let (d', out) := stepLine d toks
  for o in out do IO.println o
  loop h d'

end C03Drv

def main (_args : List String) : IO Unit := do C03Drv.loop (← IO.getStdin) {}
