/-! line-protocol driver for property C03 (stub) -/
def main (_args : List String) : IO Unit := pure ()
