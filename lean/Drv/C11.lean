/-! line-protocol driver for property C11 (stub) -/
def main (_args : List String) : IO Unit := pure ()
