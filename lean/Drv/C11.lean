import MirVerif.Model.BinIORead
import MirVerif.Gen.C11_Tables
import MirVerif.Model.BinIOCounters
/-! line-protocol driver for property C11 (binary MIR, raw token stream).

Commands on stdin (one per line):
* `write` … description lines … `end`  → `bytes <hex>`, `ldpad <offsets>`, `nstr <n>`
                                           or `error <msg>` (UNSPEC/USE/PHI)
* `read <hex>`                          → description lines, `end`   or `error <msg>`, `end`
* `tok uint|int|flt|dbl|ldbl|type <v>` / `tok idx <base> <i>` → `bytes <hex>`
* `readx <flags> <hex>`                 → as `read`, with the quirks named in flags (g,c,p) off
* `ctr <hex>`                           → temp-name counters of the modules read, `end`
* `rtok <hex>`                          → one line describing `readToken`'s result
* `len <v>`                             → `uint_length int_length`
The description format is the one printed by harness/c11_harness.c (`dump_modules`). -/

open BinIO

namespace C11Drv

def cfg : Cfg := MirVerif.Gen.C11.cfg

/-- the generated configuration with some of the known reader quirks switched off
(`g` = hard register name read twice, `c` = insn code bound, `p` = data of type p,
`e` = labels before endfunc) -/
def cfgOff (flags : String) : Cfg :=
  { cfg with globalDoubleRead := cfg.globalDoubleRead && !flags.contains 'g',
             codeLimit := if flags.contains 'c' then MirVerif.Gen.C11.insnBound else cfg.codeLimit,
             dataPtr := cfg.dataPtr || flags.contains 'p',
             endfuncLabels := cfg.endfuncLabels || flags.contains 'e',
             lrefZeroIsNone := cfg.lrefZeroIsNone && !flags.contains 'z' }

def hexDigit (n : Nat) : Char := if n < 10 then Char.ofNat (48 + n) else Char.ofNat (87 + n)

def hexOfBytes (bs : List Nat) : String :=
  String.ofList (bs.foldr (fun b acc => hexDigit (b / 16 % 16) :: hexDigit (b % 16) :: acc) [])

def hexVal (c : Char) : Option Nat :=
  let n := c.toNat
  if 48 ≤ n ∧ n ≤ 57 then some (n - 48)
  else if 97 ≤ n ∧ n ≤ 102 then some (n - 87)
  else if 65 ≤ n ∧ n ≤ 70 then some (n - 55)
  else none

def bytesOfHexChars : List Char → Option (List Nat)
  | [] => some []
  | [_] => none
  | a :: b :: r => do
    let x ← hexVal a
    let y ← hexVal b
    let rest ← bytesOfHexChars r
    pure ((16 * x + y) :: rest)

def bytesOfHex (s : String) : Option (List Nat) := bytesOfHexChars s.toList

/-- `x<hex>` → bytes -/
def parseX (s : String) : Option (List Nat) :=
  match s.toList with
  | 'x' :: r => bytesOfHexChars r
  | _ => none

/-- `-` → none, `x<hex>` → some -/
def parseOptX (s : String) : Option (Option (List Nat)) :=
  if s = "-" then some none else (parseX s).map some

def showX (n : List Nat) : String := "x" ++ hexOfBytes n
def showOptX : Option (List Nat) → String
  | none => "-"
  | some n => showX n

/-- `lo_hi` → 80-bit value -/
def parseLd (s : String) : Option Nat :=
  match s.splitOn "_" with
  | [a, b] => do let lo ← a.toNat?; let hi ← b.toNat?; pure (lo + 2 ^ 64 * hi)
  | _ => none
def showLd (v : Nat) : String := s!"{v % 2 ^ 64}_{v / 2 ^ 64}"

def parseOp (s : String) : Option Op :=
  match s.splitOn ":" with
  | ["r", n] => (parseX n).map Op.reg
  | ["i", v] => v.toNat?.map Op.int
  | ["u", v] => v.toNat?.map Op.uint
  | ["f", v] => v.toNat?.map Op.flt
  | ["d", v] => v.toNat?.map Op.dbl
  | ["L", v] => (parseLd v).map Op.ldbl
  | ["R", n] => (parseX n).map Op.ref
  | ["s", n] => (parseX n).map Op.str
  | ["l", v] => v.toNat?.map Op.label
  | ["m", ty, disp, base, index, scale, al, nal] => do
    let ty ← ty.toNat?
    let disp ← disp.toNat?
    let base ← parseOptX base
    let index ← parseOptX index
    let scale ← scale.toNat?
    let al ← parseX al
    let nal ← parseX nal
    pure (Op.mem { ty := ty, disp := disp, base := base,
                   index := index.map (fun i => (i, scale)), alias := al, nonalias := nal })
  | _ => none

def showOp : Op → String
  | .reg n => "r:" ++ showX n
  | .int v => s!"i:{v}"
  | .uint v => s!"u:{v}"
  | .flt v => s!"f:{v}"
  | .dbl v => s!"d:{v}"
  | .ldbl v => "L:" ++ showLd v
  | .ref n => "R:" ++ showX n
  | .str s => "s:" ++ showX s
  | .label n => s!"l:{n}"
  | .mem m =>
    let (idx, sc) := match m.index with
      | some (i, s) => (showX i, s)
      | none => ("-", 0)
    s!"m:{m.ty}:{m.disp}:{showOptX m.base}:{idx}:{sc}:{showX m.alias}:{showX m.nonalias}"

def parseNats (ws : List String) : Option (List Nat) := ws.mapM (·.toNat?)

/-- `<va> <nres> <ty>* <nargs> (<ty> <name> <size>)*` -/
def parseProto (ws : List String) : Option (Bool × List Nat × List Var) := do
  match ws with
  | va :: nres :: r =>
    let va ← va.toNat?
    let nres ← nres.toNat?
    let res ← parseNats (r.take nres)
    if res.length ≠ nres then none
    match r.drop nres with
    | nargs :: r2 =>
      let nargs ← nargs.toNat?
      let rec args : Nat → List String → Option (List Var)
        | 0, [] => some []
        | n + 1, t :: nm :: sz :: rest => do
          let t ← t.toNat?
          let nm ← parseX nm
          let sz ← sz.toNat?
          let tl ← args n rest
          pure ({ ty := t, name := nm, size := sz } :: tl)
        | _, _ => none
      let as ← args nargs r2
      pure (va != 0, res, as)
    | [] => none
  | _ => none

def showProto (va : Bool) (res : List Nat) (args : List Var) : String :=
  let r := String.intercalate " " (res.map toString)
  let a := String.intercalate " " (args.map (fun v => s!"{v.ty} {showX v.name} {v.size}"))
  s!"{if va then 1 else 0} {res.length}{if res.isEmpty then "" else " " ++ r} {args.length}{if args.isEmpty then "" else " " ++ a}"

/-- incremental builder for the description lines -/
structure Build where
  doneRev : List Module := []
  mod : Option (Name × List Item) := none       -- items reversed
  func : Option Func := none                     -- insns/locals/globals reversed
  err : Option String := none

def Build.addItem (b : Build) (it : Item) : Build :=
  match b.mod with
  | some (n, its) => { b with mod := some (n, it :: its) }
  | none => { b with err := some "item outside module" }

def Build.fail (b : Build) (m : String) : Build := { b with err := some m }

def Build.line (b : Build) (ws : List String) : Build :=
  if b.err.isSome then b else
  match ws with
  | ["module", n] =>
    match parseX n with
    | some n => { b with mod := some (n, []) }
    | none => b.fail "bad module"
  | ["endmodule"] =>
    match b.mod with
    | some (n, its) => { b with doneRev := { name := n, items := its.reverse } :: b.doneRev, mod := none }
    | none => b.fail "endmodule"
  | ["import", n] => match parseX n with | some n => b.addItem (.import_ n) | none => b.fail "bad import"
  | ["export", n] => match parseX n with | some n => b.addItem (.export_ n) | none => b.fail "bad export"
  | ["forward", n] => match parseX n with | some n => b.addItem (.forward_ n) | none => b.fail "bad forward"
  | ["bss", nm, len] =>
    match parseOptX nm, len.toNat? with
    | some nm, some len => b.addItem (.bss nm len)
    | _, _ => b.fail "bad bss"
  | ["ref", nm, it, d] =>
    match parseOptX nm, parseX it, d.toNat? with
    | some nm, some it, some d => b.addItem (.ref nm it d)
    | _, _, _ => b.fail "bad ref"
  | ["lref", nm, l1, l2, d] =>
    match parseOptX nm, l1.toNat?, d.toNat? with
    | some nm, some l1, some d =>
      if l2 = "-" then b.addItem (.lref nm l1 none d)
      else match l2.toNat? with
        | some l2 => b.addItem (.lref nm l1 (some l2) d)
        | none => b.fail "bad lref"
    | _, _, _ => b.fail "bad lref"
  | ["expr", nm, fn] =>
    match parseOptX nm, parseX fn with
    | some nm, some fn => b.addItem (.expr nm fn)
    | _, _ => b.fail "bad expr"
  | "data" :: nm :: ty :: n :: els =>
    match parseOptX nm, ty.toNat?, n.toNat? with
    | some nm, some ty, some n =>
      let vals := if ty = 10 then els.mapM parseLd else parseNats els
      match vals with
      | some vs => if vs.length = n then b.addItem (.data nm ty vs) else b.fail "bad data count"
      | none => b.fail "bad data el"
    | _, _, _ => b.fail "bad data"
  | "proto" :: n :: r =>
    match parseX n, parseProto r with
    | some n, some (va, res, args) => b.addItem (.proto n va res args)
    | _, _ => b.fail "bad proto"
  | "func" :: n :: r =>
    match parseX n, parseProto r with
    | some n, some (va, res, args) =>
      { b with func := some { name := n, vararg := va, res := res, args := args, locals := [],
                              globals := [], insns := [] } }
    | _, _ => b.fail "bad func"
  | ["local", ty, n] =>
    match b.func, ty.toNat?, parseX n with
    | some f, some ty, some n => { b with func := some { f with locals := (ty, n) :: f.locals } }
    | _, _, _ => b.fail "bad local"
  | ["global", ty, n, h] =>
    match b.func, ty.toNat?, parseX n, parseX h with
    | some f, some ty, some n, some h =>
      { b with func := some { f with globals := (ty, n, h) :: f.globals } }
    | _, _, _, _ => b.fail "bad global"
  | ["label", n] =>
    match b.func, n.toNat? with
    | some f, some n => { b with func := some { f with insns := .label n :: f.insns } }
    | _, _ => b.fail "bad label"
  | "insn" :: code :: nops :: ops =>
    match b.func, code.toNat?, nops.toNat?, ops.mapM parseOp with
    | some f, some code, some nops, some ops =>
      if ops.length = nops then { b with func := some { f with insns := .op code ops :: f.insns } }
      else b.fail "bad insn nops"
    | _, _, _, _ => b.fail ("bad insn " ++ String.intercalate " " ops)
  | ["endfunc"] =>
    match b.func with
    | some f =>
      let f' : Func := { f with locals := f.locals.reverse, globals := f.globals.reverse,
                                insns := f.insns.reverse }
      { (b.addItem (.func f')) with func := none }
    | none => b.fail "endfunc"
  | _ => b.fail ("bad line: " ++ String.intercalate " " ws)

def showItem (out : Array String) : Item → Array String
  | .import_ n => out.push ("import " ++ showX n)
  | .export_ n => out.push ("export " ++ showX n)
  | .forward_ n => out.push ("forward " ++ showX n)
  | .bss nm len => out.push s!"bss {showOptX nm} {len}"
  | .ref nm it d => out.push s!"ref {showOptX nm} {showX it} {d}"
  | .lref nm l1 l2 d =>
    out.push s!"lref {showOptX nm} {l1} {match l2 with | some l => toString l | none => "-"} {d}"
  | .expr nm fn => out.push s!"expr {showOptX nm} {showX fn}"
  | .data nm ty els =>
    let es := els.map (fun v => if ty = 10 then showLd v else toString v)
    out.push (String.intercalate " " (["data", showOptX nm, toString ty, toString els.length] ++ es))
  | .proto n va res args => out.push s!"proto {showX n} {showProto va res args}"
  | .func f =>
    let out := out.push s!"func {showX f.name} {showProto f.vararg f.res f.args}"
    let out := f.locals.foldl (fun o v => o.push s!"local {v.1} {showX v.2}") out
    let out := f.globals.foldl (fun o v => o.push s!"global {v.1} {showX v.2.1} {showX v.2.2}") out
    let out := f.insns.foldl (fun o i => match i with
      | .label n => o.push s!"label {n}"
      | .op code ops =>
        o.push (String.intercalate " " (["insn", toString code, toString ops.length] ++ ops.map showOp))) out
    out.push "endfunc"

def showModules (ms : List Module) : Array String :=
  ms.foldl (fun out m =>
    let out := out.push ("module " ++ showX m.name)
    let out := m.items.foldl showItem out
    out.push "endmodule") #[]

/-- offsets (in the raw stream) of the 6 padding bytes of every long double token -/
def ldPadOffsets (tab : List Str) (toks : List STok) (start : Nat) : List Nat :=
  (toks.foldl (fun (acc : Nat × List Nat) t =>
    let len := (encTok tab t).length
    match t with
    | .ldbl _ => (acc.1 + len, (List.range 6).reverse.map (· + acc.1 + 11) ++ acc.2)
    | _ => (acc.1 + len, acc.2)) (start, [])).2.reverse

def showTok : Tok → String
  | .uint v => s!"uint {v}"
  | .int v => s!"int {v}"
  | .flt v => s!"flt {v}"
  | .dbl v => s!"dbl {v}"
  | .ldbl v => "ldbl " ++ showLd v
  | .reg i => s!"reg {i}"
  | .name i nb => s!"name {i} {nb}"
  | .str i => s!"str {i}"
  | .lab n => s!"lab {n}"
  | .mem t => s!"mem {t}"
  | .ty t => s!"type {t}"
  | .eoi => "eoi"
  | .eof => "eof"

partial def readDesc (h : IO.FS.Stream) (b : Build) : IO Build := do
  let line ← h.getLine
  if line.isEmpty then return b
  let ws := (line.trimAscii.toString.splitOn " ").filter (· ≠ "")
  if ws = ["end"] then return b
  readDesc h (b.line ws)

partial def loop (h : IO.FS.Stream) : IO Unit := do
  let line ← h.getLine
  if line.isEmpty then return ()
  let ws := (line.trimAscii.toString.splitOn " ").filter (· ≠ "")
  match ws with
  | ["write"] =>
    let b ← readDesc h {}
    match b.err with
    | some e => IO.println ("error desc " ++ e)
    | none =>
      let ms := b.doneRev.reverse
      if !writable cfg ms then IO.println "error UNSPEC, USE, or PHI is not portable and can not be output"
      else
        let toks := toksModules cfg ms
        let tab := strTable toks
        let hdr := encHeader cfg tab
        let bytes := hdr ++ toks.flatMap (encTok tab) ++ [Tag.eofile]
        IO.println ("bytes " ++ hexOfBytes bytes)
        IO.println ("ldpad " ++ String.intercalate " " ((ldPadOffsets tab toks hdr.length).map toString))
        IO.println s!"nstr {tab.length}"
  | ["read", hex] =>
    match bytesOfHex hex with
    | none => IO.println "error bad hex"; IO.println "end"
    | some bs =>
      match readModules cfg bs with
      | .error e => IO.println ("error " ++ e); IO.println "end"
      | .ok ms =>
        for l in showModules ms do IO.println l
        IO.println "end"
  | ["ctr", hex] =>
    match bytesOfHex hex with
    | none => IO.println "error bad hex"; IO.println "end"
    | some bs =>
      match readModules cfg bs with
      | .error e => IO.println ("error " ++ e); IO.println "end"
      | .ok ms =>
        for m in ms do
          IO.println s!"ctr module {showX m.name} {moduleCounter m}"
          for it in m.items do
            match it with
            | .func f => IO.println s!"ctr func {showX f.name} {funcCounter f}"
            | _ => pure ()
        IO.println "end"
  | ["readx", flags, hex] =>
    match bytesOfHex hex with
    | none => IO.println "error bad hex"; IO.println "end"
    | some bs =>
      match readModules (cfgOff flags) bs with
      | .error e => IO.println ("error " ++ e); IO.println "end"
      | .ok ms =>
        for l in showModules ms do IO.println l
        IO.println "end"
  | ["tok", "uint", v] => IO.println ("bytes " ++ hexOfBytes (writeUint v.toNat!))
  | ["tok", "int", v] => IO.println ("bytes " ++ hexOfBytes (writeInt v.toNat!))
  | ["tok", "flt", v] => IO.println ("bytes " ++ hexOfBytes (writeFloat v.toNat!))
  | ["tok", "dbl", v] => IO.println ("bytes " ++ hexOfBytes (writeDouble v.toNat!))
  | ["tok", "ldbl", v] => IO.println ("bytes " ++ hexOfBytes (writeLdouble ((parseLd v).getD 0)))
  | ["tok", "type", v] => IO.println ("bytes " ++ hexOfBytes (writeType v.toNat!))
  | ["tok", "idx", base, i] => IO.println ("bytes " ++ hexOfBytes (writeIdx base.toNat! i.toNat!))
  | ["rtok", hex] =>
    match bytesOfHex hex with
    | none => IO.println "error bad hex"
    | some bs =>
      match readToken bs with
      | .ok (t, rest) => IO.println s!"{showTok t} rest {rest.length}"
      | .error e => IO.println ("error " ++ e)
  | ["len", v] => IO.println s!"{uintLength v.toNat!} {intLength v.toNat!}"
  | ["cfg"] => IO.println (reprStr cfg)
  | [] => pure ()
  | _ => IO.println ("error unknown command " ++ line.trimAscii.toString)
  (← IO.getStdout).flush
  loop h

end C11Drv

def main (_args : List String) : IO Unit := do C11Drv.loop (← IO.getStdin)
