import Lean
/-! `#audit_module M` prints, for every theorem declared in module `M`, the axioms it depends on:
`AUDIT <module> <theorem> [ax1,ax2,…]`.  Used by lib/vf.py on every run. -/
open Lean Elab Command

elab "#audit_module " id:ident : command => do
  let env ← getEnv
  let some idx := env.getModuleIdx? id.getId
    | throwError "module {id.getId} not imported"
  let mut out : Array String := #[]
  for (n, ci) in env.constants.map₁.toList do
    if env.getModuleIdxFor? n == some idx then
      if let .thmInfo _ := ci then
        let un := (privateToUserName? n).getD n
        if un.isInternal then continue
        -- skip auto-generated equation / match lemmas (`f.eq_1`, `f.match_1.eq_2`, …)
        let last := un.getString!
        if last.startsWith "eq_" || last.startsWith "match_" || last.startsWith "proof_" then continue
        let axs ← Lean.collectAxioms n
        let l := ",".intercalate (axs.toList.map toString)
        out := out.push s!"AUDIT {id.getId} {un} [{l}]"
  for s in out.qsort (· < ·) do
    IO.println s
