import MirVerif.Model.Sem
/-! # C20 — meaning of the C text `mir2c` emits for MIR's integer instructions

`out_insn` of `mir2c/mir2c.c` prints, for an integer instruction `op r, a, b`, the C statement
`r = (T1) a <cop> (T2) b;` (helpers `out_op3`, `out_uop3`, `out_sop3`, `out_usop3`), for a
compare-and-branch `if ((T1) a <cop> (T2) b) goto l;` (`out_b*cmp`), for extensions
`r = (int64_t) (int8_t) a;` and for negation `r = - (int64_t) a;` (`out_op2`).  Every integer register
of the MIR function is an `int64_t` variable of the emitted C function.

`cSem` below is the meaning of such a statement under C11 on the implementation the translation is
compiled with (gcc, x86-64: two's complement, `int` = 32 bits, `long` = 64 bits):

* conversions (`conv`): to an unsigned type modulo 2^N (C11 6.3.1.3p2); to a signed type that cannot
  represent the value *implementation-defined*, gcc: modulo 2^N (gcc manual, "Integers implementation");
* integer promotion of types narrower than `int`, usual arithmetic conversions (`common`);
* the operators themselves are `cS`/`cU` of `Base/Bits.lean` (two's complement words, division by
  zero / `MIN / -1` / shift counts outside `0..width-1` undefined);
* **signed overflow of `+ - *` and unary `-` is undefined** (C11 6.5p5) — result `none` — unless the
  translation is compiled with `-fwrapv` (`wrapv = true`), where it wraps;
* `<<` on a signed left operand follows gcc ("GCC does not use the latitude given in C99 and C11
  only to treat certain aspects of signed `<<` as undefined"): defined for counts `0..width-1`.

A value of C type `T` is carried as the 64-bit pattern of its value (sign- resp. zero-extended), i.e.
the bits the `int64_t` destination receives when the value is assigned to it. -/
namespace MirVerif.Mir2C

/-- the C integer types mir2c's templates cast to -/
inductive CTy | i8 | u8 | i16 | u16 | i32 | u32 | i64 | u64
deriving DecidableEq, Repr

def CTy.bits : CTy → Nat
  | .i8 | .u8 => 8 | .i16 | .u16 => 16 | .i32 | .u32 => 32 | .i64 | .u64 => 64

def CTy.signed : CTy → Bool
  | .i8 | .i16 | .i32 | .i64 => true
  | _ => false

/-- `(T) v`: the value `v` (carried as a 64-bit pattern) converted to type `T` -/
def conv (t : CTy) (w : W64) : W64 :=
  match t with
  | .i8 => (w.setWidth 8).signExtend 64
  | .u8 => (w.setWidth 8).setWidth 64
  | .i16 => (w.setWidth 16).signExtend 64
  | .u16 => (w.setWidth 16).setWidth 64
  | .i32 => sext32 (lo32 w)
  | .u32 => zext32 (lo32 w)
  | .i64 | .u64 => w

/-- integer promotion (C11 6.3.1.1p2): everything narrower than `int` becomes `int` -/
def promote (t : CTy) : CTy := if t.bits < 32 then .i32 else t

/-- usual arithmetic conversions (C11 6.3.1.8) on promoted types -/
def common (t1 t2 : CTy) : CTy :=
  let a := promote t1
  let b := promote t2
  if a = b then a
  else if a.bits = b.bits then (if a.signed then b else a)   -- same rank: the unsigned one
  else if a.bits < b.bits then b else a                      -- the wider one can represent the other

inductive COp | bin (o : BinOp) | cmp (c : CmpOp)
deriving DecidableEq, Repr

/-- a template `r = (c1) a op (c2) b;` (or `if ((c1) a op (c2) b) goto`); an operand printed
without a cast has the type of a register variable, `int64_t` -/
structure Tmpl where
  c1 : CTy
  c2 : CTy
  op : COp
deriving DecidableEq, Repr

/-- mathematical signed overflow of `x op y` at width `n` -/
def sOvf {n : Nat} (o : BinOp) (x y : BitVec n) : Bool :=
  let fits (v : Int) : Bool := decide (-(2 ^ (n - 1)) ≤ v ∧ v < 2 ^ (n - 1))
  match o with
  | .add => !fits (x.toInt + y.toInt)
  | .sub => !fits (x.toInt - y.toInt)
  | .mul => !fits (x.toInt * y.toInt)
  | _ => false

/-- signed `x op y` at width `n` under C11 (`wrapv = false`) resp. gcc `-fwrapv` -/
def cSigned {n : Nat} (wrapv : Bool) (o : BinOp) (x y : BitVec n) : Option (BitVec n) :=
  if !wrapv && sOvf o x y then none else cS o x y

/-- `a o b` with both operands already converted to the (promoted) type `t` -/
def arith (wrapv : Bool) (t : CTy) (o : BinOp) (a b : W64) : Option W64 :=
  match t with
  | .i64 => cSigned wrapv o a b
  | .u64 => cU o a b
  | .i32 => (cSigned wrapv o (lo32 a) (lo32 b)).map sext32
  | .u32 => (cU o (lo32 a) (lo32 b)).map zext32
  | _ => none   -- not a promoted type

def compare (t : CTy) (c : CmpOp) (a b : W64) : Bool :=
  match t with
  | .i64 => cCmpS c a b
  | .u64 => cCmpU c a b
  | .i32 => cCmpS c (lo32 a) (lo32 b)
  | .u32 => cCmpU c (lo32 a) (lo32 b)
  | _ => false

def isShift : BinOp → Bool
  | .lsh | .rsh => true
  | _ => false

/-- the value assigned to the `int64_t` destination by `r = (c1) x op (c2) y;`, `none` = undefined -/
def cSem (wrapv : Bool) (tm : Tmpl) (x y : W64) : Option W64 :=
  let a := conv tm.c1 x
  let b := conv tm.c2 y
  match tm.op with
  | .cmp c => let t := common tm.c1 tm.c2; some (b2w (compare t c (conv t a) (conv t b)))
  | .bin o =>
    if isShift o then
      -- C11 6.5.7: operands promoted separately, result has the promoted left type; a negative count
      -- or one ≥ the width is undefined
      let t := promote tm.c1
      if b.toInt < 0 ∨ b.toInt ≥ t.bits then none else arith wrapv t o (conv t a) (conv t b)
    else
      let t := common tm.c1 tm.c2
      arith wrapv t o (conv t a) (conv t b)

/-- `if ((c1) x op (c2) y) goto l;` -/
def cBranch (tm : Tmpl) (x y : W64) : Bool :=
  match cSem true tm x y with
  | some r => r != 0
  | none => false

/-- `r = (tk) … (t1) x;` — the casts are listed outermost first, as in the source text -/
def cCasts : List CTy → W64 → W64
  | [], x => x
  | t :: ts, x => conv t (cCasts ts x)

/-- `r = - (T) x;` -/
def cNeg (wrapv : Bool) (t : CTy) (x : W64) : Option W64 :=
  let p := promote t
  arith wrapv p .sub 0 (conv p (conv t x))

/-- `if ([!](T) x) goto l;` of `MIR_BT/BF/BTS/BFS` (`T` = `int64_t` resp. `int32_t`) -/
def cBT (neg : Bool) (t : CTy) (x : W64) : Bool :=
  let v := conv t x != 0
  if neg then !v else v

/-- documented: `BT`/`BTS` jump when the (64- resp. 32-bit) operand is not zero, `BF`/`BFS` when it is -/
def docBT (neg short : Bool) (x : W64) : Bool :=
  let nz : Bool := if short then decide ((lo32 x).toInt ≠ 0) else decide (x.toInt ≠ 0)
  if neg then !nz else nz

/-! ## the templates the documentation calls for -/

/-- cast and C operator an instruction `(a, short)` needs -/
def canonTmpl (a : AOp) (short : Bool) : Tmpl :=
  let s : CTy := if short then .i32 else .i64
  let u : CTy := if short then .u32 else .u64
  match a with
  | .add => ⟨s, s, .bin .add⟩ | .sub => ⟨s, s, .bin .sub⟩ | .mul => ⟨s, s, .bin .mul⟩
  | .div => ⟨s, s, .bin .div⟩ | .mod => ⟨s, s, .bin .mod⟩
  | .udiv => ⟨u, u, .bin .div⟩ | .umod => ⟨u, u, .bin .mod⟩
  | .and => ⟨s, s, .bin .and⟩ | .or => ⟨s, s, .bin .or⟩ | .xor => ⟨s, s, .bin .xor⟩
  | .lsh => ⟨s, s, .bin .lsh⟩ | .rsh => ⟨s, s, .bin .rsh⟩ | .ursh => ⟨u, u, .bin .rsh⟩
  | .eq => ⟨s, s, .cmp .eq⟩ | .ne => ⟨s, s, .cmp .ne⟩
  | .lt => ⟨s, s, .cmp .lt⟩ | .le => ⟨s, s, .cmp .le⟩ | .gt => ⟨s, s, .cmp .gt⟩ | .ge => ⟨s, s, .cmp .ge⟩
  | .ult => ⟨u, u, .cmp .lt⟩ | .ule => ⟨u, u, .cmp .le⟩ | .ugt => ⟨u, u, .cmp .gt⟩ | .uge => ⟨u, u, .cmp .ge⟩

/-- the casts of `EXT<k>` / `UEXT<k>` -/
def canonCasts (k : Nat) (signed : Bool) : List CTy :=
  [.i64, match k, signed with
         | 8, true => .i8 | 8, false => .u8 | 16, true => .i16 | 16, false => .u16
         | 32, true => .i32 | _, _ => .u32]

/-- is the template one whose C meaning is undefined on signed wrap-around (gap #20) -/
def Tmpl.wrapGap (tm : Tmpl) : Bool :=
  (common tm.c1 tm.c2).signed && (tm.op == .bin .add || tm.op == .bin .sub || tm.op == .bin .mul)

end MirVerif.Mir2C
