/-!
# Model of `solve_dataflow` (mir-gen.c), the worklist solver that relies on the bitmap change flags

The C function keeps two VARRs (`worklist`, `pending`) and the bitmap `bb_to_consider`.  One pass
sorts the worklist, then for every block `bb` of it:

* `con_func_0 (bb)` when the block has no predecessor edge (it only (re)initialises `in`), otherwise
  `changed_p |= con_func_n (bb)` — the confluence function recomputes `in` from the predecessors'
  `out` and *reports whether `in` changed* (in the generator this is the flag returned by
  `bitmap_ior`/`bitmap_and`/… — property C19's change flag);
* when `changed_p` (always on the first pass): `trans_func (bb)` recomputes `out` from `in` and reports
  whether `out` changed (`bitmap_ior_and_compl` …); if it did, every successor not yet in
  `bb_to_consider` is pushed on `pending`.

After the pass the two arrays are swapped; the solver stops when the worklist is empty.  A backward
problem is the same algorithm with the roles of the in/out edge lists exchanged, which the model gets
by instantiating `preds`/`succs` the other way round.

The model is generic in the lattice value `V`; the flags are parameters (`cflag old new`,
`tflag old new`) so that the theorem can say exactly what it needs from them and so that an under-
reporting flag (the defect repaired by fde4fbaa) can be exhibited.  No Mathlib import.
-/
namespace MirVerif.Dataflow

structure Problem (V : Type) where
  n : Nat
  preds : Nat → List Nat
  succs : Nat → List Nat
  init : Nat → V                 -- value con_func_0 gives to `in`
  join : List V → V              -- con_func_n: `in` from the predecessors' `out`, in edge order
  f : Nat → V → V                -- trans_func: `out` from `in`
  cflag : V → V → Bool           -- flag returned by con_func_n  (old in, new in)
  tflag : V → V → Bool           -- flag returned by trans_func  (old out, new out)

structure St (V : Type) where
  inn : Nat → V
  outt : Nat → V

def upd {V : Type} (g : Nat → V) (b : Nat) (v : V) : Nat → V := fun x => if x = b then v else g x

@[simp] theorem upd_same {V : Type} (g : Nat → V) (b : Nat) (v : V) : upd g b v b = v := by simp [upd]
theorem upd_other {V : Type} (g : Nat → V) (b c : Nat) (v : V) (h : c ≠ b) : upd g b v c = g c := by
  simp [upd, h]

/-- value the confluence step stores in `in` of block `b` -/
def conVal {V : Type} (P : Problem V) (σ : St V) (b : Nat) : V :=
  if P.preds b = [] then P.init b else P.join ((P.preds b).map σ.outt)

/-- `if (bitmap_set_bit_p (bb_to_consider, idx)) VARR_PUSH (pending, bb)` over an edge list -/
def pushAll (pend : List Nat) (l : List Nat) : List Nat :=
  l.foldl (fun p c => if c ∈ p then p else p ++ [c]) pend

/-- body of the `for (i = 0; i < VARR_LENGTH (worklist); i++)` loop for one block -/
def step {V : Type} (P : Problem V) (first : Bool) (acc : St V × List Nat) (b : Nat) : St V × List Nat :=
  let σ := acc.1
  let new := conVal P σ b
  let ch := first || (if P.preds b = [] then false else P.cflag (σ.inn b) new)
  let σ1 : St V := { σ with inn := upd σ.inn b new }
  if ch then
    let o' := P.f b new
    let σ2 : St V := { σ1 with outt := upd σ1.outt b o' }
    if P.tflag (σ.outt b) o' then (σ2, pushAll acc.2 (P.succs b)) else (σ2, acc.2)
  else (σ1, acc.2)

def pass {V : Type} (P : Problem V) (first : Bool) (σ : St V) (w : List Nat) : St V × List Nat :=
  w.foldl (step P first) (σ, [])

/-- the `while (VARR_LENGTH (worklist) != 0)` loop with fuel; `sort` is qsort with rpost_cmp/post_cmp -/
def loop {V : Type} (P : Problem V) (sort : List Nat → List Nat) :
    Nat → Bool → St V → List Nat → Option (St V)
  | 0, _, _, _ => none
  | k + 1, first, σ, w =>
    if w = [] then some σ
    else
      let r := pass P first σ (sort w)
      loop P sort k false r.1 r.2

def solve {V : Type} (P : Problem V) (sort : List Nat → List Nat) (fuel : Nat) (σ0 : St V) : Option (St V) :=
  loop P sort fuel true σ0 (List.range P.n)

/-- the equations of block `b` -/
def conOK {V : Type} (P : Problem V) (σ : St V) (b : Nat) : Prop := σ.inn b = conVal P σ b
def transOK {V : Type} (P : Problem V) (σ : St V) (b : Nat) : Prop := σ.outt b = P.f b (σ.inn b)

end MirVerif.Dataflow
