/-!
# Model of `mir_hash_strict` (mir-hash.h:31-88), line by line, executable

`mir_hash_strict (key, len, seed) = mir_hash_1 (key, len, seed, relax_p = 0)`.
With `relax_p = 0` the 64×64 multiplication `mir_mum` is the portable four-word form (mir-hash.h:56-57,
which is *not* the full 128-bit product: `rm` wraps in 64 bits) and `mir_get_key_part` assembles the
key part byte by byte in little-endian order (mir-hash.h:44; on x86-64 the unaligned-load shortcut
of lines 36-42 computes the same value — that equality is checked by the C12 correspondence, which
compares this model with the compiled function through the encoder's output bytes and trailer).

The C12 theorems treat the hash as an arbitrary function; only the driver uses this definition.
-/
namespace MirVerif.Hash

def p1 : UInt64 := 0x65862b62bdf5ef4d
def p2 : UInt64 := 0x288eea216831e6a7

/-- `mir_get_key_part (v, len, 0)`: `for i < len: tail = (tail >> 8) | (v[i] << 56)` -/
def keyPart : List UInt8 → UInt64 → UInt64
  | [], t => t
  | b :: bs, t => keyPart bs ((t >>> 8) ||| (b.toUInt64 <<< 56))

/-- `mir_mum (v, c, 0)` -/
def mum (v c : UInt64) : UInt64 :=
  let v1 := v >>> 32
  let v2 := v &&& 0xffffffff
  let c1 := c >>> 32
  let c2 := c &&& 0xffffffff
  let rm := v2 * c1 + v1 * c2
  v1 * c1 + (rm >>> 32) + v2 * c2 + (rm <<< 32)

/-- `mir_round (state, v, 0)` -/
def round (state v : UInt64) : UInt64 :=
  let s := state ^^^ mum v p1
  s ^^^ mum s p2

/-- the `for (; len >= 16; len -= 16, v += 16)` loop; `len` is carried as a number (as in the C),
`fuel ≥ len / 16` -/
def blocks : Nat → Nat → List UInt8 → UInt64 → Nat × List UInt8 × UInt64
  | 0, len, v, r => (len, v, r)
  | fuel + 1, len, v, r =>
    if len ≥ 16 then
      let r := r ^^^ mum (keyPart (v.take 8) 0) p1
      let r := r ^^^ mum (keyPart ((v.drop 8).take 8) 0) p2
      let r := r ^^^ mum r p1
      blocks fuel (len - 16) (v.drop 16) r
    else (len, v, r)

/-- `mir_hash_strict (key, len, seed)` -/
def hashStrict (key : List UInt8) (seed : UInt64) : UInt64 :=
  let len := key.length
  let r := seed + UInt64.ofNat len
  let (len, v, r) := blocks (len / 16 + 1) len key r
  let (len, v, r) := if len ≥ 8 then (len - 8, v.drop 8, r ^^^ mum (keyPart (v.take 8) 0) p1) else (len, v, r)
  let r := if len ≠ 0 then r ^^^ mum (keyPart (v.take len) 0) p2 else r
  round r r

end MirVerif.Hash
