import MirVerif.Model.TextIOElab
/-!
# C10 — the explicit, decidable well-formedness predicate of the round-trip theorem, and the
normal form a module has after scanning

`normText ms` is what `MIR_scan_string (MIR_output ms)` rebuilds: it differs from `ms` only where the
writer is not injective (`uint` operands are read back as `int`, an index-less memory operand loses
its scale, data elements are reduced to their width, sizes of non-block parameters are not kept).

`WF ms` collects every condition the proof of `text_roundtrip` needed.  Each conjunct has a name;
`wfReport` returns the name of the first one that fails so that the correspondence check can run the
real writer/scanner exactly at the excluded points.
-/
namespace TextIO

/-! ## normal form -/

def normMem (m : Mem) : Mem := if m.index = none then { m with scale := 1 } else m

def normOp : Op → Op
  | .uint v => .int v
  | .mem m => .mem (normMem m)
  | o => o

def normFItem : FItem → FItem
  | .insn c ops => .insn c (ops.map normOp)
  | .label l => .label l

def normVar (v : Var) : Var := if v.ty.isBlk then v else { v with size := 0 }

def normFunc (f : Func) : Func :=
  { f with args := f.args.map normVar, body := f.body.map normFItem }

def normItem : Item → Item
  | .data n t els => .data n t (els.map (· % 2 ^ t.bits))
  | .proto n res args va => .proto n res (args.map normVar) va
  | .func f => .func (normFunc f)
  | it => it

def normModule (m : Module) : Module := { m with items := m.items.map normItem }

def normText (ms : List Module) : List Module := ms.map normModule

/-! ## lexical conditions -/

/-- a spelling `scan_token` reads back as one `TC_NAME` token -/
def nameOK (n : Str) : Bool :=
  match n with
  | [] => false
  | c :: cs => isNameChar c true && cs.all (isNameChar · false)

def optNameOK : Option Str → Bool
  | none => true
  | some n => nameOK n

/-- string payload: bytes, and (the condition the scanner forces, finding #5) empty or NUL-terminated -/
def strOK (s : Str) : Bool :=
  s.all (·.toNat < 256) && (s.isEmpty || s.getLast? == some nulChar)

/-- character right after a literal in the writer's output -/
def isDelim (c : Char) : Bool :=
  c.toNat = 44 || c.toNat = 10 || c.toNat = 9 || c.toNat = 32 || c.toNat = 58 || c.toNat = 40 || c.toNat = 41

/-- decimal floating literal `[-]D.D…De(+|-)DD…` as `%.*e` prints finite values -/
def sciShape (s : List Char) : Bool :=
  let s := match s with
    | '-' :: t => t
    | _ => s
  match s with
  | d :: '.' :: t =>
    isDigit d &&
    (let fr := t.takeWhile isDigit
     let r := t.dropWhile isDigit
     !fr.isEmpty &&
     match r with
     | 'e' :: sg :: ex => (sg = '+' || sg = '-') && ex.length ≥ 2 && ex.all isDigit
     | _ => false)
  | _ => false

/-- a floating literal survives: finite, printed in the expected shape, and the C library's
conversion of the printed text gives the same bits back -/
def floatRT (f : FFmt) (bits : Nat) : Bool :=
  match fmtSci f bits with
  | none => false
  | some s => sciShape s && parseSci f s == some bits

/-! ## operands, instructions -/

def memOK (regs : List Str) (m : Mem) : Bool :=
  (match m.base with
   | some b => nameOK b && regs.contains b
   | none => true) &&
  (match m.index with
   | some i => nameOK i && regs.contains i
   | none => true) &&
  optNameOK m.alias && optNameOK m.nonalias

/-- operand `o` at position `idx` of an instruction with code `code`, in a function with registers
`regs`, when the items `tab` are declared -/
def opOK (regs : List Str) (tab : List TabEnt) (code idx : Nat) (o : Op) : Bool :=
  (match o with
   | .label l => labelPos code idx && l ≥ 1
   | _ => !labelPos code idx) &&
  (match o with
   | .reg n => nameOK n && regs.contains n
   | .int _ => true
   | .uint v => v.toNat < 2 ^ 63                       -- finding #4
   | .flt b => floatRT fmtF b.toNat
   | .dbl b => floatRT fmtD b.toNat
   | .ldbl b => floatRT fmtLD b.toNat
   | .mem m => memOK regs m
   | .ref n => nameOK n && !regs.contains n && (tabFind tab n).isSome   -- shadowing: new finding
   | .str s => strOK s                                   -- finding #5
   | .label _ => true)

def opsOK (regs : List Str) (tab : List TabEnt) (code : Nat) : List Op → Nat → Bool
  | [], _ => true
  | o :: os, idx => opOK regs tab code idx o && opsOK regs tab code os (idx + 1)

/-- instruction codes that have a scannable spelling -/
def codeOK (c : Nat) : Bool :=
  c < insnTable.length && c ≠ opUNSPEC && c ≠ opUSE && c ≠ opPHI && c ≠ opLABEL && c ≠ opINVALIDINSN

def nopsOK (c n : Nat) : Bool :=
  (isVarNops c || n = insnNops c) && !(c = opSWITCH && n < 2) && !(isCallCode c && n < 2)

def fitemOK (regs : List Str) (tab : List TabEnt) : FItem → Bool
  | .insn c ops => codeOK c && nopsOK c ops.length && opsOK regs tab c ops 0
  | .label l => l ≥ 1

/-! ## labels: numbering in order of first occurrence -/

def opLabels : Op → List Nat
  | .label l => [l]
  | _ => []

def fitemLabels : FItem → List Nat
  | .insn _ ops => ops.flatMap opLabels
  | .label l => [l]

/-- label numbers in the order the scanner meets them -/
def itemLabels : Item → List Nat
  | .lref _ l1 l2 _ => l1 :: (match l2 with | some l => [l] | none => [])
  | .func f => f.body.flatMap fitemLabels
  | _ => []

def fitemDefs : FItem → List Nat
  | .label l => [l]
  | _ => []

def itemDefs : Item → List Nat
  | .func f => f.body.flatMap fitemDefs
  | _ => []

/-- occurrences `ls` met with `k0` = counter at module start, `k` = current counter: each is either
already known in this module (`k0 < l ≤ k`) or the next fresh number -/
def canonLabels (k0 : Nat) : Nat → List Nat → Option Nat
  | k, [] => some k
  | k, l :: ls => if k0 < l && l ≤ k then canonLabels k0 k ls else if l = k + 1 then canonLabels k0 (k + 1) ls else none

def noDup : List Nat → Bool
  | [] => true
  | x :: xs => !xs.contains x && noDup xs

/-! ## functions -/

def varOK (v : Var) : Bool := nameOK v.name && (!v.ty.isBlk || v.size < 2 ^ 63)   -- a negative size is rejected

def distinct : List Str → Bool
  | [] => true
  | x :: xs => !xs.contains x && distinct xs

def funcOK (tab : List TabEnt) (f : Func) : Bool :=
  nameOK f.name
  && !f.res.any Ty.isBlk
  && f.args.all varOK
  && !(f.vararg && f.args.isEmpty)
  && f.locals.all (fun v => okVarType v.1 && nameOK v.2)
  && f.globals.all (fun v => okVarType v.1 && nameOK v.2.1 && nameOK v.2.2)
  && f.regNames.all (fun n => !reservedName n)
  && distinct f.regNames
  && distinct (f.globals.map (·.2.2))
  && f.body.all (fitemOK f.regNames tab)
  && (f.body.any isRetLike || lastIsJmp f.body)

/-! ## items and modules: conditions that depend on what was scanned before -/

structure WSt where
  /-- `module_item_tab` of the module so far -/
  tab : List TabEnt := []
  /-- code of the last instruction statement (no longer read by anything: fix fae404b2) -/
  lastInsn : Nat := insnTable.length
  deriving Repr

def lastInsnOf (body : List FItem) (dflt : Nat) : Nat :=
  body.foldl (fun acc it => match it with
    | .insn c _ => c
    | .label _ => acc) dflt

def dataOK (t : Ty) (els : List Nat) : Bool :=
  !t.isBlk
  && (match t with
      | .f => els.all (fun v => floatRT fmtF (v % 2 ^ 32))
      | .d => els.all (fun v => floatRT fmtD (v % 2 ^ 64))
      | .ld => els.all (fun v => floatRT fmtLD (v % 2 ^ 80))
      | _ => true)

def itemKind : Item → IKind
  | .export _ => .export | .import _ => .import | .forward _ => .forward
  | .bss .. => .bss | .data .. => .data | .ref .. => .refData | .lref .. => .lrefData
  | .expr .. => .exprData | .proto .. => .proto | .func _ => .func

def itemName : Item → Option Str
  | .export n | .import n | .forward n => some n
  | .bss n _ | .data n _ _ | .ref n _ _ | .lref n _ _ _ | .expr n _ => n
  | .proto n _ _ _ => some n
  | .func f => some f.name

/-- the table after declaring the item; `none` if `add_item` refuses or drops it -/
def declare (tab : List TabEnt) (it : Item) : Option (List TabEnt) :=
  match itemName it with
  | none => some tab
  | some n =>
    match addItem tab n (itemKind it) with
    | .ok (tab', true) => some tab'
    | _ => none

/-- item `it` with the items `prev` of the module before it -/
def itemOK (w : WSt) (prev : List Item) (it : Item) : Bool :=
  optNameOK (itemName it) &&
  match declare w.tab it with
  | none => false
  | some tab' =>
    match it with
    | .export _ | .import _ | .forward _ => true
    | .bss _ len => len.toNat < 2 ^ 63
    | .data _ t els => dataOK t els
    | .ref _ r _ => nameOK r && (tabFind w.tab r).isSome
    | .lref _ l1 l2 _ => l1 ≥ 1 && (match l2 with | some l => l ≥ 1 | none => true)
    | .expr _ fn =>
      nameOK fn &&
      (match tabFind w.tab fn with
       | some e => e.kind = .func
       | none => false) &&
      (match findFunc prev fn with
       | some f => !f.vararg && f.args.isEmpty && f.res.length = 1
       | none => false)
    | .proto _ res args _ => !res.any Ty.isBlk && args.all varOK
    | .func f => funcOK tab' f

def stepW (w : WSt) (it : Item) : WSt :=
  { tab := (declare w.tab it).getD w.tab
    lastInsn := match it with
      | .func f => lastInsnOf f.body w.lastInsn
      | _ => w.lastInsn }

def itemsOK : WSt → List Item → List Item → Bool
  | _, _, [] => true
  | w, prev, it :: rest => itemOK w prev it && itemsOK (stepW w it) (prev ++ [it]) rest

def itemsLast (w : WSt) : List Item → WSt
  | [] => w
  | it :: rest => itemsLast (stepW w it) rest

def moduleLabels (m : Module) : List Nat := m.items.flatMap itemLabels

/-- modules of one context: `k` = label counter, `li` = stale instruction code -/
def modulesOK : Nat → Nat → List Module → Bool
  | _, _, [] => true
  | k, li, m :: rest =>
    nameOK m.name
    && itemsOK { tab := [], lastInsn := li } [] m.items
    && noDup (m.items.flatMap itemDefs)
    && (match canonLabels k k (moduleLabels m) with
        | some k' => modulesOK k' (itemsLast { tab := [], lastInsn := li } m.items).lastInsn rest
        | none => false)

/-- the hypothesis of `text_roundtrip` -/
def WF (ms : List Module) : Bool := modulesOK 0 insnTable.length ms

/-! ## report of the first failing conjunct (for the correspondence check) -/

def opBad (regs : List Str) (tab : List TabEnt) (code idx : Nat) (o : Op) : Option String :=
  if (match o with
      | .label _ => !labelPos code idx
      | _ => labelPos code idx) then some "label-position"
  else match o with
    | .reg n => if nameOK n && regs.contains n then none else some "reg-name"
    | .uint v => if v.toNat < 2 ^ 63 then none else some "uint-ge-2^63"
    | .flt b => if floatRT fmtF b.toNat then none else some "float-literal"
    | .dbl b => if floatRT fmtD b.toNat then none else some "float-literal"
    | .ldbl b => if floatRT fmtLD b.toNat then none else some "float-literal"
    | .mem m => if memOK regs m then none else some "mem-names"
    | .ref n =>
      if !nameOK n then some "ref-name"
      else if regs.contains n then some "ref-shadowed-by-reg"
      else if (tabFind tab n).isSome then none else some "ref-undeclared"
    | .str s => if strOK s then none else (if s.all (·.toNat < 256) then some "str-no-nul" else some "str-not-bytes")
    | .label l => if l ≥ 1 then none else some "label-zero"
    | .int _ => none

def opsBad (regs : List Str) (tab : List TabEnt) (code : Nat) : List Op → Nat → Option String
  | [], _ => none
  | o :: os, idx => (opBad regs tab code idx o).orElse fun _ => opsBad regs tab code os (idx + 1)

def fitemBad (regs : List Str) (tab : List TabEnt) : FItem → Option String
  | .insn c ops =>
    if !codeOK c then some "insn-code" else if !nopsOK c ops.length then some "insn-nops" else opsBad regs tab c ops 0
  | .label l => if l ≥ 1 then none else some "label-zero"

def funcBad (tab : List TabEnt) (f : Func) : Option String :=
  if !nameOK f.name then some "item-name"
  else if f.res.any Ty.isBlk then some "blk-result"
  else if !f.args.all (fun v => nameOK v.name) then some "var-name"
  else if !f.args.all varOK then some "blk-size-ge-2^63"
  else if f.vararg && f.args.isEmpty then some "vararg-no-args"
  else if !f.locals.all (fun v => okVarType v.1 && nameOK v.2) then some "var-name"
  else if !f.globals.all (fun v => okVarType v.1 && nameOK v.2.1 && nameOK v.2.2) then some "var-name"
  else if !f.regNames.all (fun n => !reservedName n) then some "reserved-reg-name"
  else if !distinct f.regNames then some "repeated-reg"
  else if !distinct (f.globals.map (·.2.2)) then some "shared-hard-reg"
  else match f.body.findSome? (fitemBad f.regNames tab) with
    | some b => some b
    | none =>
      if !(f.body.any isRetLike || lastIsJmp f.body) then some "func-not-finished"
      else none

def itemBad (w : WSt) (prev : List Item) (it : Item) : Option String :=
  if !optNameOK (itemName it) then some "item-name"
  else match declare w.tab it with
    | none => some "add-item"
    | some tab' =>
      match it with
      | .export _ | .import _ | .forward _ => none
      | .bss _ len => if len.toNat < 2 ^ 63 then none else some "bss-ge-2^63"
      | .data _ t els =>
        if t.isBlk then some "data-type-blk"
        else if dataOK t els then none else some "float-literal"
      | .ref _ r _ =>
        if !nameOK r then some "ref-name"
        else if !(tabFind w.tab r).isSome then some "ref-undeclared"
        else none
      | .lref _ l1 l2 _ => if l1 ≥ 1 && (match l2 with | some l => l ≥ 1 | none => true) then none else some "label-zero"
      | .expr _ fn =>
        if !nameOK fn then some "ref-name"
        else if itemOK w prev it then none else some "expr-func"
      | .proto _ res args _ =>
        if res.any Ty.isBlk then some "blk-result"
        else if !args.all (fun v => nameOK v.name) then some "var-name"
        else if !args.all varOK then some "blk-size-ge-2^63" else none
      | .func f => funcBad tab' f

def itemsBad : WSt → List Item → List Item → Option String
  | _, _, [] => none
  | w, prev, it :: rest => (itemBad w prev it).orElse fun _ => itemsBad (stepW w it) (prev ++ [it]) rest

def modulesBad : Nat → Nat → List Module → Option String
  | _, _, [] => none
  | k, li, m :: rest =>
    if !nameOK m.name then some "item-name"
    else match itemsBad { tab := [], lastInsn := li } [] m.items with
      | some b => some b
      | none =>
        if !noDup (m.items.flatMap itemDefs) then some "label-defined-twice"
        else match canonLabels k k (moduleLabels m) with
          | some k' => modulesBad k' (itemsLast { tab := [], lastInsn := li } m.items).lastInsn rest
          | none => some "label-numbering"

/-- `"ok"` or the name of the first failing conjunct of `WF` -/
def wfReport (ms : List Module) : String :=
  if WF ms then "ok" else (modulesBad 0 insnTable.length ms).getD "unclassified"

end TextIO
