/-!
# C06 — MIR functions as C-ABI callees on x86-64 System V: executable models

Everything here is a total function over `Nat`/`Int`/`List`; no Mathlib.

* `sysvStep` / `sysvIncoming` — the psABI's placement of incoming arguments, written from the
  psABI text (classification → registers or stack, `long double` in 16-byte aligned memory,
  aggregates entirely in registers or entirely in memory).  Independent of MIR.
* `machStep` / `calleePlace` — model of the incoming-argument loop of `target_machinize`
  (`mir-gen-x86_64.c:703-836`): same counters, same tests, stack arguments addressed from the frame
  pointer with displacement `mem_size + 8 + start_sp_from_bp_offset`, `mem_size` rounded up to 16
  before a `long double` (since fix 6f58eeff).
* `vaStartGen` — model of the `MIR_VA_START` expansion (`mir-gen-x86_64.c:862-872`).
* `vaArgStep`, `vaBlockArg` — models of `va_arg_builtin` / `va_block_arg_builtin`
  (`mir-x86_64.c:47-113`); `gccVaArg` — what `va_arg (va, T)` compiled by the C compiler does in
  `interp` (`mir-interp.c:2002-2037`); `shimStep` / `shimPlace` — the interpreter shim's view.
* `Frame` — the arithmetic of `target_make_prolog_epilog` (`mir-gen-x86_64.c:1157-1332`).
* `allocaRound` — `(n + 15) & -16` of `out_insn` / the `lea 15(r); and -16` pattern.
-/
namespace MirVerif.AbiCallee

/-- parameter types as far as placement is concerned (`int` = i8…u64 and p) -/
inductive PTy where
  | int | rblk | flt | dbl | ld
  | blk (k : Nat) (size : Nat)
  deriving DecidableEq, Repr, Inhabited

/-- where one eightbyte of an incoming argument lives, relative to the function's entry state:
`stk off` is the byte offset from the first stack-argument word (entry `rsp + 8`) -/
inductive Piece where
  | gpr (n : Nat)      -- n-th integer argument register: rdi rsi rdx rcx r8 r9
  | xmm (n : Nat)      -- low half of xmm n
  | xmmHi (n : Nat)    -- high half of xmm n (never an argument location: only a *wrong* read lands here)
  | stk (off : Nat)
  | junk               -- saved rbp/rbx or the return address (only a wrong read lands here)
  deriving DecidableEq, Repr, Inhabited

abbrev Place := List Piece

def words (sz : Nat) : Nat := (sz + 7) / 8

def stkRun (off : Nat) : Nat → Place
  | 0 => []
  | n + 1 => .stk off :: stkRun (off + 8) n

/-- the domain: block case ≤ 4, size ≥ 1, register cases fit two eightbytes, mixed cases have two -/
def PTy.wf : PTy → Bool
  | .blk k sz => decide (1 ≤ sz) && decide (k ≤ 4) && (k == 0 || decide (sz ≤ 16)) &&
                 (!(k == 3 || k == 4) || decide (8 < sz))
  | _ => true

/-! ## The psABI (specification) -/

structure SysV where
  ni : Nat   -- integer registers used so far
  nf : Nat   -- SSE registers used so far
  off : Nat  -- bytes of stack arguments so far
  deriving DecidableEq, Repr

def SysV.init : SysV := ⟨0, 0, 0⟩

def sysvStep (s : SysV) : PTy → Place × SysV
  | .int | .rblk =>
    if s.ni < 6 then ([.gpr s.ni], { s with ni := s.ni + 1 })
    else ([.stk s.off], { s with off := s.off + 8 })
  | .flt | .dbl =>
    if s.nf < 8 then ([.xmm s.nf], { s with nf := s.nf + 1 })
    else ([.stk s.off], { s with off := s.off + 8 })
  | .ld =>
    let o := (s.off + 15) / 16 * 16
    ([.stk o, .stk (o + 8)], { s with off := o + 16 })
  | .blk 1 sz =>
    if s.ni + words sz ≤ 6 then
      (if words sz = 2 then [.gpr s.ni, .gpr (s.ni + 1)] else [.gpr s.ni], { s with ni := s.ni + words sz })
    else (stkRun s.off (words sz), { s with off := s.off + 8 * words sz })
  | .blk 2 sz =>
    if s.nf + words sz ≤ 8 then
      (if words sz = 2 then [.xmm s.nf, .xmm (s.nf + 1)] else [.xmm s.nf], { s with nf := s.nf + words sz })
    else (stkRun s.off (words sz), { s with off := s.off + 8 * words sz })
  | .blk 3 sz =>
    if s.ni < 6 ∧ s.nf < 8 then ([.gpr s.ni, .xmm s.nf], { s with ni := s.ni + 1, nf := s.nf + 1 })
    else (stkRun s.off (words sz), { s with off := s.off + 8 * words sz })
  | .blk 4 sz =>
    if s.ni < 6 ∧ s.nf < 8 then ([.xmm s.nf, .gpr s.ni], { s with ni := s.ni + 1, nf := s.nf + 1 })
    else (stkRun s.off (words sz), { s with off := s.off + 8 * words sz })
  | .blk _ sz => (stkRun s.off (words sz), { s with off := s.off + 8 * words sz })

def sysvWalk (s : SysV) : List PTy → List Place × SysV
  | [] => ([], s)
  | p :: ps =>
    let r := sysvStep s p
    let rest := sysvWalk r.2 ps
    (r.1 :: rest.1, rest.2)

def sysvIncoming (ps : List PTy) : List Place := (sysvWalk .init ps).1

/-! ## `target_machinize`: incoming arguments of generated code -/

/-- location as the generated code addresses it -/
inductive MPiece where
  | gpr (n : Nat) | xmm (n : Nat)
  | fp (disp : Nat)    -- `disp(%rbp)`
  deriving DecidableEq, Repr, Inhabited

structure MachSt where
  intArgNum : Nat
  fpArgNum : Nat
  memSize : Nat
  deriving DecidableEq, Repr

def MachSt.init : MachSt := ⟨0, 0, 0⟩       -- mem_size = spill_space_size = 0

/-- `start_sp_from_bp_offset` -/
def startSpFromBp : Nat := 8
/-- `get_int_arg_reg (n) != MIR_NON_VAR` -/
def intArgRegP (n : Nat) : Bool := n < 6
/-- `get_fp_arg_reg (n) != MIR_NON_VAR` -/
def fpArgRegP (n : Nat) : Bool := n < 8
/-- `mem_size + 8 /* ret */ + start_sp_from_bp_offset` -/
def argDisp (memSize : Nat) : Nat := memSize + 8 + startSpFromBp

def fpRun (disp : Nat) : Nat → List MPiece
  | 0 => []
  | n + 1 => .fp disp :: fpRun (disp + 8) n

def machStep (s : MachSt) : PTy → List MPiece × MachSt
  | .blk k sz =>
    let blkSize := (sz + 7) / 8 * 8
    if k == 1 && intArgRegP s.intArgNum && (blkSize ≤ 8 || intArgRegP (s.intArgNum + 1)) then
      if blkSize > 8 then ([.gpr s.intArgNum, .gpr (s.intArgNum + 1)], { s with intArgNum := s.intArgNum + 2 })
      else ([.gpr s.intArgNum], { s with intArgNum := s.intArgNum + 1 })
    else if k == 2 && fpArgRegP s.fpArgNum && (blkSize ≤ 8 || fpArgRegP (s.fpArgNum + 1)) then
      if blkSize > 8 then ([.xmm s.fpArgNum, .xmm (s.fpArgNum + 1)], { s with fpArgNum := s.fpArgNum + 2 })
      else ([.xmm s.fpArgNum], { s with fpArgNum := s.fpArgNum + 1 })
    else if (k == 3 || k == 4) && intArgRegP s.intArgNum && fpArgRegP s.fpArgNum then
      (if k == 3 then [.gpr s.intArgNum, .xmm s.fpArgNum] else [.xmm s.fpArgNum, .gpr s.intArgNum],
       { s with intArgNum := s.intArgNum + 1, fpArgNum := s.fpArgNum + 1 })
    else
      (fpRun (argDisp s.memSize) (blkSize / 8), { s with memSize := s.memSize + blkSize })
  | .ld =>
    let ms := (s.memSize + 15) / 16 * 16      -- `if (type == MIR_T_LD) mem_size = (mem_size + 15) / 16 * 16`
    ([.fp (argDisp ms), .fp (argDisp ms + 8)], { s with memSize := ms + 16 })
  | .flt | .dbl =>
    if fpArgRegP s.fpArgNum then ([.xmm s.fpArgNum], { s with fpArgNum := s.fpArgNum + 1 })
    else ([.fp (argDisp s.memSize)], { s with fpArgNum := s.fpArgNum + 1, memSize := s.memSize + 8 })
  | .int | .rblk =>
    if intArgRegP s.intArgNum then ([.gpr s.intArgNum], { s with intArgNum := s.intArgNum + 1 })
    else ([.fp (argDisp s.memSize)], { s with intArgNum := s.intArgNum + 1, memSize := s.memSize + 8 })

def machWalk (s : MachSt) : List PTy → List (List MPiece) × MachSt
  | [] => ([], s)
  | p :: ps =>
    let r := machStep s p
    let rest := machWalk r.2 ps
    (r.1 :: rest.1, rest.2)

def calleePlace (ps : List PTy) : List (List MPiece) := (machWalk .init ps).1

/-- resolved location: register, or absolute address of the eightbyte -/
inductive Loc where
  | gpr (n : Nat) | xmm (n : Nat) | xmmHi (n : Nat) | mem (addr : Int) | junk
  deriving DecidableEq, Repr

/-- psABI: with `S` = `rsp` at function entry (return address at `S`), stack arguments start at `S + 8` -/
def Piece.resolve (S : Int) : Piece → Loc
  | .gpr n => .gpr n | .xmm n => .xmm n | .xmmHi n => .xmmHi n | .junk => .junk
  | .stk off => .mem (S + 8 + off)

def MPiece.resolve (rbp : Int) : MPiece → Loc
  | .gpr n => .gpr n | .xmm n => .xmm n
  | .fp d => .mem (rbp + d)

/-- the same location in `Piece` vocabulary (for printing and diffing): `disp(%rbp)` is `stk (disp-16)` -/
def MPiece.toPiece : MPiece → Piece
  | .gpr n => .gpr n | .xmm n => .xmm n
  | .fp d => if 16 ≤ d then .stk (d - 16) else .junk

/-! ## `va_start` expansion of generated code -/

/-- a `va_list` as far as argument fetching is concerned (declared before its first use below); `oaa` = overflow_arg_area as byte offset from
the first stack-argument word.  (`8 /*ret*/ + mem_offset + start_sp_from_bp_offset` from `rbp` is
`mem_offset` bytes above the first stack argument.) -/
structure VaList where
  gp : Nat
  fp : Nat
  oaa : Nat
  deriving DecidableEq, Repr

/-- what the psABI prescribes after the named parameters `ps` -/
def sysvVaStart (ps : List PTy) : VaList :=
  let s := (sysvWalk .init ps).2
  ⟨8 * s.ni, 48 + 16 * s.nf, s.off⟩

/-- the `MIR_VA_START` expansion (since fix de2f5d8a): the three fields come from the counters the
argument loop of `target_machinize` has left —
`gp_offset = min (int_arg_num, 6) * 8`, `fp_offset = 48 + min (fp_arg_num, 8) * 16`,
`mem_offset = mem_size` -/
def vaStartGen (ps : List PTy) : VaList :=
  let m := (machWalk .init ps).2
  ⟨min m.intArgNum 6 * 8, 48 + min m.fpArgNum 8 * 16, m.memSize⟩

/-- offsets at or beyond the limits all mean "registers exhausted" -/
def VaList.norm (v : VaList) : VaList := ⟨min v.gp 48, min v.fp 176, v.oaa⟩

/-! ## `va_arg_builtin` / `va_block_arg_builtin` -/

/-- source of a fetched eightbyte -/
inductive Src where
  | rsa (off : Nat)   -- reg_save_area + off
  | ovf (off : Nat)   -- first stack-argument word + off
  deriving DecidableEq, Repr

def ovfRun (off : Nat) : Nat → List Src
  | 0 => []
  | n + 1 => .ovf off :: ovfRun (off + 8) n

def vaBlockArg (v : VaList) (sz k : Nat) : List Src × VaList :=
  let size := (sz + 7) / 8 * 8
  let inMem : List Src × VaList := (ovfRun v.oaa (size / 8), { v with oaa := v.oaa + size / 8 * 8 })
  if k == 1 then
    if v.gp + size > 48 then inMem
    else if size > 8 then ([.rsa v.gp, .rsa (v.gp + 8)], { v with gp := v.gp + 16 })
    else ([.rsa v.gp], { v with gp := v.gp + 8 })
  else if k == 2 then
    if v.fp + size * 2 > 176 then inMem
    else if size > 8 then ([.rsa v.fp, .rsa (v.fp + 16)], { v with fp := v.fp + 32 })
    else ([.rsa v.fp], { v with fp := v.fp + 16 })
  else if k == 3 || k == 4 then
    if v.fp > 160 || v.gp > 40 then inMem
    else (if k == 3 then [.rsa v.gp, .rsa v.fp] else [.rsa v.fp, .rsa v.gp],
          { v with fp := v.fp + 16, gp := v.gp + 8 })
  else inMem

def vaArgStep (v : VaList) : PTy → List Src × VaList
  | .flt | .dbl =>
    if v.fp ≤ 160 then ([.rsa v.fp], { v with fp := v.fp + 16 })
    else ([.ovf v.oaa], { v with oaa := v.oaa + 8 })
  | .ld =>
    -- the builtin rounds the overflow *address* up to 16; the first stack-argument word is 16-byte
    -- aligned (entry rsp ≡ 8 mod 16), so this is the same rounding of the offset
    let o := (v.oaa + 15) / 16 * 16
    ([.ovf o, .ovf (o + 8)], { v with oaa := o + 16 })
  | .int | .rblk =>
    if v.gp ≤ 40 then ([.rsa v.gp], { v with gp := v.gp + 8 })
    else ([.ovf v.oaa], { v with oaa := v.oaa + 8 })
  | .blk k sz => vaBlockArg v sz k

def vaArgWalk (v : VaList) : List PTy → List (List Src) × VaList
  | [] => ([], v)
  | p :: ps =>
    let r := vaArgStep v p
    let rest := vaArgWalk r.2 ps
    (r.1 :: rest.1, rest.2)

/-- The register save area is followed by the saved frame register, the return address and the
stack arguments, both in the generated prologue (`reg_save_area = rbp - 176`, `rbp` → saved rbp,
`rbp+8` → return address, `rbp+16` → first stack argument) and in the interpreter shim
(`lea 32(%rsp)` … 176 bytes, saved rbx, return address, stack arguments). -/
def rsaPiece (off : Nat) : Piece :=
  if off < 48 then (if off % 8 = 0 then .gpr (off / 8) else .junk)
  else if off < 176 then
    (if (off - 48) % 16 = 0 then .xmm ((off - 48) / 16)
     else if (off - 48) % 16 = 8 then .xmmHi ((off - 48) / 16) else .junk)
  else if off < 192 then .junk
  else .stk (off - 192)

def Src.toPiece : Src → Piece
  | .rsa off => rsaPiece off
  | .ovf off => .stk off

/-! ## The interpreter shim (`_MIR_get_interp_shim` + `interp`) -/

/-- `va_arg (va, T)` as compiled by the C compiler for the non-block parameter types -/
def gccVaArg (v : VaList) : PTy → List Src × VaList
  | .flt | .dbl =>
    if v.fp < 176 then ([.rsa v.fp], { v with fp := v.fp + 16 })
    else ([.ovf v.oaa], { v with oaa := v.oaa + 8 })
  | .ld =>
    let o := (v.oaa + 15) / 16 * 16
    ([.ovf o, .ovf (o + 8)], { v with oaa := o + 16 })
  | .int | .rblk =>
    if v.gp < 48 then ([.rsa v.gp], { v with gp := v.gp + 8 })
    else ([.ovf v.oaa], { v with oaa := v.oaa + 8 })
  | .blk k sz => vaBlockArg v sz k      -- `interp` calls va_block_arg_builtin for block parameters

/-- the shim's `va_list`: `movl 0,(%rdx); movl 48,4(%rdx)`, overflow area = first stack argument -/
def VaList.shimInit : VaList := ⟨0, 48, 0⟩

def shimWalk (v : VaList) : List PTy → List (List Src) × VaList
  | [] => ([], v)
  | p :: ps =>
    let r := gccVaArg v p
    let rest := shimWalk r.2 ps
    (r.1 :: rest.1, rest.2)

def shimPlace (ps : List PTy) : List Place :=
  (shimWalk .shimInit ps).1.map (·.map Src.toPiece)

/-- `va_start` under the interpreter: `va_start_interp_builtin` copies the C `va_list` as `interp`
left it after fetching the named parameters -/
def vaStartShim (ps : List PTy) : VaList := (shimWalk .shimInit ps).2

/-! ## hypotheses of the partial theorems, as executable predicates -/

def isFp : PTy → Bool | .flt | .dbl => true | _ => false
def isIntClass : PTy → Bool | .int | .rblk => true | _ => false
def isBlk : PTy → Bool | .blk _ _ => true | _ => false
def isMixedBlk : PTy → Bool | .blk 3 _ | .blk 4 _ => true | _ => false

def allWf : List PTy → Bool
  | [] => true
  | p :: ps => p.wf && allWf ps

/-! ## Frame (`target_make_prolog_epilog`) -/

structure FrameIn where
  keepFp : Bool
  vararg : Bool
  jret : Bool
  nslots : Nat            -- stack_slots_num
  saved : List Nat        -- callee-saved hard registers that are used, ascending
  deriving Repr

def regSaveAreaSize : Nat := 176
def roundUp16 (n : Nat) : Nat := (n + 15) / 16 * 16

namespace FrameIn
variable (f : FrameIn)
def savedSize : Nat := 8 * f.saved.length
def serviceArea : Nat := (if f.vararg then regSaveAreaSize else 0) + (if f.jret then 0 else 8)
def slotsSize : Nat := if f.keepFp then 8 * f.nslots else roundUp16 (8 * f.nslots)
def blockSize : Nat := roundUp16 (f.slotsSize + f.savedSize)
/-- `sub rsp, block_size + service_area_size` -/
def spSub : Nat := f.blockSize + f.serviceArea
/-- `bp_saved_reg_offset` -/
def bpSavedRegOffset : Nat := f.blockSize + (if f.vararg then regSaveAreaSize else 0)

/-- address of the save slot of the `i`-th saved register, `S` = entry rsp.
keep-fp: `-(bp_saved_reg_offset) + 8 i (%rbp)` with `rbp = S - 8`; else `stack_slots_size + 8 i (%rsp)`
with `rsp = S - spSub`. -/
def saveAddr (S : Int) (i : Nat) : Int :=
  if f.keepFp then (S - 8) - f.bpSavedRegOffset + 8 * i
  else (S - f.spSub) + f.slotsSize + 8 * i
/-- the epilogue recomputes the same offsets in a second loop -/
def restoreAddr (S : Int) (i : Nat) : Int :=
  if f.keepFp then (S - 8) - f.bpSavedRegOffset + 8 * i
  else (S - f.spSub) + f.slotsSize + 8 * i
/-- `target_get_stack_slot_offset` for an 8-byte slot -/
def slotAddr (S : Int) (slot : Nat) : Int :=
  if f.keepFp then (S - 8) - ((slot + 1) * 8 + (if f.vararg then regSaveAreaSize else 0))
  else (S - f.spSub) + slot * 8
/-- rsp after the prologue -/
def spAfter (S : Int) : Int := S - f.spSub
/-- displacement printed in the prologue's save instruction and its base register (true = rbp) -/
def saveDisp (i : Nat) : Int × Bool :=
  if f.keepFp then (-(f.bpSavedRegOffset : Int) + 8 * i, true) else ((f.slotsSize : Int) + 8 * i, false)
/-- vararg prologue: `isave (offset + 8 i)` / `dsave (offset + 48 + 16 j)` with `offset = block_size`,
relative to the new rsp -/
def regSaveGprAddr (S : Int) (i : Nat) : Int := f.spAfter S + f.blockSize + 8 * i
def regSaveXmmAddr (S : Int) (j : Nat) : Int := f.spAfter S + f.blockSize + 48 + 16 * j
/-- `va_start`: `reg_save_area = rbp - reg_save_area_size` -/
def regSaveAreaAddr (S : Int) : Int := (S - 8) - regSaveAreaSize
end FrameIn

/-! ## alloca -/

/-- `(n + 15) & -16` on 64-bit values, as `out_insn` rounds a constant `alloca` size and as the
`lea 15(r); and $-16` pattern rounds a variable one -/
def allocaRoundBV (n : BitVec 64) : BitVec 64 := (n + 15#64) &&& (-16#64)
/-- arithmetic form used by the property -/
def allocaRound (n : Nat) : Nat := (n + 15) / 16 * 16

/-! ## Result registers (`MIR_RET` in `target_machinize`, result marshalling of the interpreter shim) -/

inductive RTy where
  | int | sse | x87
  deriving DecidableEq, Repr

inductive RetLoc where
  | rax | rdx | xmm0 | xmm1 | st0 | st1
  deriving DecidableEq, Repr

structure RetCnt where
  ni : Nat
  nx : Nat
  nf : Nat
  deriving DecidableEq, Repr

/-- specification (psABI return classes as MIR.md documents them for x86-64): the first and second
INTEGER result in rax, rdx; SSE in xmm0, xmm1; X87 in st0, st1; nothing else is defined -/
def retSpecStep (c : RetCnt) : RTy → Option (RetLoc × RetCnt)
  | .int => if c.ni = 0 then some (.rax, { c with ni := 1 }) else if c.ni = 1 then some (.rdx, { c with ni := 2 }) else none
  | .sse => if c.nx = 0 then some (.xmm0, { c with nx := 1 }) else if c.nx = 1 then some (.xmm1, { c with nx := 2 }) else none
  | .x87 => if c.nf = 0 then some (.st0, { c with nf := 1 }) else if c.nf = 1 then some (.st1, { c with nf := 2 }) else none

/-- `case MIR_RET` of `target_machinize`: the three tests in source order (a third SSE or x87 result
falls through to the integer branch) -/
def retGenStep (c : RetCnt) (t : RTy) : Option (RetLoc × RetCnt) :=
  if t == .sse && c.nx < 2 then some (if c.nx == 0 then .xmm0 else .xmm1, { c with nx := c.nx + 1 })
  else if t == .x87 && c.nf < 2 then some (if c.nf == 0 then .st0 else .st1, { c with nf := c.nf + 1 })
  else if c.ni < 2 then some (if c.ni == 0 then .rax else .rdx, { c with ni := c.ni + 1 })
  else none

/-- `_MIR_get_interp_shim`: `movss/movsd` into `xmm<n_xregs>` with `n_xregs++`, `fldt` (+`fxch` for the
second) with `n_fregs++`, `mov` into rax/rdx with `n_iregs++`, same order of tests -/
def retShimStep (c : RetCnt) (t : RTy) : Option (RetLoc × RetCnt) :=
  if t == .sse && c.nx < 2 then some (if c.nx == 0 then .xmm0 else .xmm1, { c with nx := c.nx + 1 })
  else if t == .x87 && c.nf < 2 then some (if c.nf == 0 then .st0 else .st1, { c with nf := c.nf + 1 })
  else if c.ni < 2 then some (if c.ni == 0 then .rax else .rdx, { c with ni := c.ni + 1 })
  else none

def retWalk (step : RetCnt → RTy → Option (RetLoc × RetCnt)) (c : RetCnt) : List RTy → Option (List RetLoc)
  | [] => some []
  | t :: ts =>
    match step c t with
    | none => none
    | some (l, c') => (retWalk step c' ts).map (l :: ·)

def RetLoc.toString : RetLoc → String
  | .rax => "rax" | .rdx => "rdx" | .xmm0 => "xmm0" | .xmm1 => "xmm1" | .st0 => "st0" | .st1 => "st1"

/-! ## parsing / printing for the driver -/

def PTy.ofString? (s : String) : Option PTy :=
  match s with
  | "i" => some .int | "r" => some .rblk | "f" => some .flt | "d" => some .dbl | "ld" => some .ld
  | _ =>
    if s.startsWith "b" then
      match (s.drop 1).toString.splitOn ":" with
      | [k, sz] => match String.toNat? k, String.toNat? sz with
        | some k, some sz => some (.blk k sz)
        | _, _ => none
      | _ => none
    else none

def Piece.toString : Piece → String
  | .gpr n => s!"g{n}" | .xmm n => s!"x{n}" | .xmmHi n => s!"xh{n}" | .stk o => s!"s{o}" | .junk => "?"

def placeToString (p : Place) : String := "+".intercalate (p.map Piece.toString)
def placesToString (ps : List Place) : String := " ".intercalate (ps.map placeToString)

end MirVerif.AbiCallee
