import MirVerif.Model.TextIOInsns
/-!
# C10 — abstract syntax of MIR modules as seen by the textual writer / scanner of `mir.c`

The types mirror the C structures that `MIR_output_*` walks (`MIR_op_t`, `MIR_insn_t`, `MIR_item_t`,
`MIR_module_t`).  Everything the writer prints by *name* (registers, items, aliases) is carried by
name; labels are carried by their number (`label->ops[0].u.i`, printed as `L<n>`); floating
immediates and data elements are carried as bit patterns.  Bytes are `Char`s with code < 256.
-/
namespace TextIO

abbrev Str := List Char

/-- `MIR_type_t` values that have a spelling (`type_str`, mir.c:941) and are parsed by `str2type`
(mir.c:6248).  `MIR_T_UNDEF`/`MIR_T_BOUND` are not part of the vocabulary. -/
inductive Ty
  | i8 | u8 | i16 | u16 | i32 | u32 | i64 | u64 | f | d | ld | p
  | blk0 | blk1 | blk2 | blk3 | blk4 | rblk
  deriving DecidableEq, Repr, Inhabited

/-- memory operand (`MIR_mem_t`); `none` for base/index is register 0, for alias/nonalias is alias 0 -/
structure Mem where
  ty : Ty
  disp : BitVec 64
  base : Option Str
  index : Option Str
  scale : BitVec 8
  alias : Option Str
  nonalias : Option Str
  deriving DecidableEq, Repr, Inhabited

/-- `MIR_op_t` for the modes an API user can create (no `MIR_OP_VAR`/`VAR_MEM`: generator-internal) -/
inductive Op
  | reg (n : Str)
  | int (v : BitVec 64)
  | uint (v : BitVec 64)
  | flt (b : BitVec 32)
  | dbl (b : BitVec 64)
  | ldbl (b : BitVec 80)
  | mem (m : Mem)
  | ref (n : Str)
  | str (s : Str)
  | label (l : Nat)
  deriving DecidableEq, Repr, Inhabited

/-- `MIR_var_t`: `size` is meaningful for block types only -/
structure Var where
  ty : Ty
  name : Str
  size : Nat := 0
  deriving DecidableEq, Repr, Inhabited

/-- element of a function body: an instruction (opcode = index into `insnTable`) or a label insn -/
inductive FItem
  | insn (code : Nat) (ops : List Op)
  | label (l : Nat)
  deriving DecidableEq, Repr, Inhabited

structure Func where
  name : Str
  res : List Ty
  args : List Var
  vararg : Bool
  /-- `func->vars` beyond the arguments, in creation order -/
  locals : List (Ty × Str)
  /-- `func->global_vars`: type, name, hard register name -/
  globals : List (Ty × Str × Str)
  body : List FItem
  deriving DecidableEq, Repr, Inhabited

inductive Item
  | export (n : Str)
  | import (n : Str)
  | forward (n : Str)
  | bss (name : Option Str) (len : BitVec 64)
  /-- `els`: bit patterns of the elements (little endian value of the element's bytes) -/
  | data (name : Option Str) (ty : Ty) (els : List Nat)
  | ref (name : Option Str) (item : Str) (disp : BitVec 64)
  | lref (name : Option Str) (l1 : Nat) (l2 : Option Nat) (disp : BitVec 64)
  | expr (name : Option Str) (func : Str)
  | proto (name : Str) (res : List Ty) (args : List Var) (vararg : Bool)
  | func (f : Func)
  deriving DecidableEq, Repr, Inhabited

structure Module where
  name : Str
  items : List Item
  deriving DecidableEq, Repr, Inhabited

/-! ## small shared helpers -/

def Ty.isBlk : Ty → Bool
  | .blk0 | .blk1 | .blk2 | .blk3 | .blk4 | .rblk => true
  | _ => false

/-- number of value bits of a data element of this type (`_MIR_type_size`, long double = x87 80 bit) -/
def Ty.bits : Ty → Nat
  | .i8 | .u8 => 8
  | .i16 | .u16 => 16
  | .i32 | .u32 | .f => 32
  | .i64 | .u64 | .d | .p => 64
  | .ld => 80
  | _ => 0

def insnName (code : Nat) : Str := (insnTable.getD code ([], 0)).1
def insnNops (code : Nat) : Nat := (insnTable.getD code ([], 0)).2

/-- `MIR_branch_code_p` (mir.h:456): `jmp` … `ubno` are contiguous in the enumeration -/
def isBranchCode (c : Nat) : Bool := opJMP ≤ c && c ≤ opUBNO
/-- `MIR_call_code_p` -/
def isCallCode (c : Nat) : Bool := c == opCALL || c == opINLINE || c == opJCALL
/-- codes whose operand count is not fixed by `insn_descs` (mir.c:2218) -/
def isVarNops (c : Nat) : Bool :=
  isCallCode c || c == opUNSPEC || c == opUSE || c == opPHI || c == opRET || c == opSWITCH

end TextIO
