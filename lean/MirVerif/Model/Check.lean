import MirVerif.Gen.C15_Tables
/-!
# C15 — executable model of MIR's IR well-formedness checker

Model of the code that exists in `mir.c`:

* `newInsnCheck`      — `MIR_new_insn_arr`  (arity, prototype/operand-count agreement, block
                         arguments, the positional checks of `va_arg`/`prset`/`prbeq`/`prbne`)
* `finishFuncCheck`   — `MIR_finish_func`   (insn-level rules: use/phi, va_start, ret/jret rules,
                         ret count, overflow-branch adjacency; then per operand: declaration of
                         registers, memory type/base/index checks, value mode against the expected
                         mode of `MIR_insn_op_mode`, output operands)
* `declReg`/`declArgs`— `MIR_new_func_reg` / argument registers of `MIR_new_func_arr`
                         (`create_func_reg`: reserved names, repeated declaration, register type)

All functions take the `insn_descs` table as a parameter; `MirVerif.Gen.C15.insnDescs` (regenerated
from /repo on every run) is what the theorems instantiate it with.  Enum values come from the
generated file too.  A verdict is `ok`, `err e` (the `MIR_error_type_t` value handed to the error
function) or `crash` (the C code indexes outside `op_modes[5]`; reachable only for tables
whose rows are shorter than their opcode needs).
-/
namespace MirVerif.Check
open MirVerif.Gen.C15

/-! ## verdicts -/

inductive Verdict where
  | ok
  | err (e : Nat)
  | crash
  deriving DecidableEq, Repr, Inhabited

/-- sequential composition: the error function does not return, so the first failure wins -/
def seq (a b : Verdict) : Verdict :=
  match a with
  | .ok => b
  | v => v

def firstErr : List Verdict → Verdict
  | [] => .ok
  | v :: vs => seq v (firstErr vs)

/-- a positional check applied to the elements of a list from index `i` on, first failure wins
(the shape of every operand loop of the checker) -/
def seqFrom {α} (f : Nat → α → Verdict) : Nat → List α → Verdict
  | _, [] => .ok
  | i, a :: as => seq (f i a) (seqFrom f (i + 1) as)

/-! ## types, registers, operands -/

/-- `MIR_type_t` values a memory operand / result / argument can carry (`type : 8` bit-field) -/
inductive Ty where
  | i8 | u8 | i16 | u16 | i32 | u32 | i64 | u64 | f | d | ld | p
  | blk0 | blk1 | blk2 | blk3 | blk4 | rblk | undef | bound
  deriving DecidableEq, Repr, Inhabited

def Ty.all : List Ty :=
  [.i8, .u8, .i16, .u16, .i32, .u32, .i64, .u64, .f, .d, .ld, .p,
   .blk0, .blk1, .blk2, .blk3, .blk4, .rblk, .undef, .bound]

/-- numeric value in the current `mir.h` -/
def Ty.code : Ty → Nat
  | .i8 => T_I8 | .u8 => T_U8 | .i16 => T_I16 | .u16 => T_U16 | .i32 => T_I32 | .u32 => T_U32
  | .i64 => T_I64 | .u64 => T_U64 | .f => T_F | .d => T_D | .ld => T_LD | .p => T_P
  | .blk0 => T_BLK | .blk1 => T_BLK + 1 | .blk2 => T_BLK + 2 | .blk3 => T_BLK + 3
  | .blk4 => T_BLK + 4 | .rblk => T_RBLK | .undef => T_UNDEF | .bound => T_BOUND

def Ty.ofCode (n : Nat) : Ty := (Ty.all.find? (fun t => t.code == n)).getD .bound

/-- the four types a register can be declared with -/
inductive RegTy where
  | i64 | f | d | ld
  deriving DecidableEq, Repr, Inhabited

def RegTy.ty : RegTy → Ty
  | .i64 => .i64 | .f => .f | .d => .d | .ld => .ld

/-- a register number used in an operand: declared with some type, or never declared -/
inductive RegRef where
  | decl (t : RegTy)
  | undecl
  deriving DecidableEq, Repr, Inhabited

/-- base / index of a memory operand (`0` = absent) -/
inductive MemReg where
  | none
  | r (x : RegRef)
  deriving DecidableEq, Repr, Inhabited

/-- kind of item a reference operand points to -/
inductive RefS where
  | proto | func | import_ | export_ | forward_ | data | bss
  deriving DecidableEq, Repr, Inhabited

structure MemS where
  ty : Ty
  dispNeg : Bool
  base : MemReg
  index : MemReg
  deriving DecidableEq, Repr, Inhabited

/-- operand *kinds*: everything the per-operand checks of `MIR_finish_func` can observe (finite) -/
inductive OpS where
  | reg (r : RegRef)
  | int | uint | float | double | ldouble
  | mem (m : MemS)
  | label
  | ref (k : RefS)
  | str
  deriving DecidableEq, Repr, Inhabited

/-- operands as constructed through the API (displacement and prototype identity kept) -/
inductive Operand where
  | reg (r : RegRef)
  | int | uint | float | double | ldouble
  | mem (ty : Ty) (disp : Int) (base index : MemReg)
  | label
  | ref (k : RefS) (idx : Nat)
  | str
  deriving DecidableEq, Repr, Inhabited

def Operand.s : Operand → OpS
  | .reg r => .reg r
  | .int => .int | .uint => .uint | .float => .float | .double => .double | .ldouble => .ldouble
  | .mem ty disp b x => .mem ⟨ty, decide (disp < 0), b, x⟩
  | .label => .label
  | .ref k _ => .ref k
  | .str => .str

/-- `op.mode` -/
def OpS.mode : OpS → Nat
  | .reg _ => OP_REG | .int => OP_INT | .uint => OP_UINT | .float => OP_FLOAT
  | .double => OP_DOUBLE | .ldouble => OP_LDOUBLE | .mem _ => OP_MEM | .label => OP_LABEL
  | .ref _ => OP_REF | .str => OP_STR

/-! ## small predicates of mir.c / mir.h -/

/-- `type2mode` -/
def type2mode (t : Ty) : Nat :=
  match t with
  | .undef => OP_UNDEF
  | .f => OP_FLOAT
  | .d => OP_DOUBLE
  | .ld => OP_LDOUBLE
  | _ => OP_INT

/-- `wrong_type_p`: `type < MIR_T_I8 || type >= MIR_T_BLK` -/
def wrongType (t : Ty) : Bool := t.code < T_I8 || t.code ≥ T_BLK

/-- `MIR_all_blk_type_p` -/
def allBlk (t : Ty) : Bool := T_BLK ≤ t.code && t.code ≤ T_RBLK

/-- `MIR_call_code_p` -/
def isCall (c : Nat) : Bool := c == C_CALL || c == C_INLINE || c == C_JCALL

/-- `MIR_overflow_insn_code_p` -/
def isOverflowInsn (c : Nat) : Bool :=
  c == C_ADDO || c == C_ADDOS || c == C_SUBO || c == C_SUBOS || c == C_MULO || c == C_MULOS
    || c == C_UMULO || c == C_UMULOS

def isOverflowBranch (c : Nat) : Bool := c == C_BO || c == C_UBO || c == C_BNO || c == C_UBNO

def isAddr (c : Nat) : Bool := c == C_ADDR || c == C_ADDR8 || c == C_ADDR16 || c == C_ADDR32

/-! ## the `insn_descs` table -/

abbrev Descs := List (Nat × String × List Nat)

/-- the five `op_modes` bytes of row `code` (the C code indexes the table by the insn code) -/
def rowModes (descs : Descs) (code : Nat) : List Nat :=
  match descs[code]? with
  | some r => r.2.2
  | none => []

/-- `insn_nops[code]` computed by `check_and_prepare_insn_descs`: index of the first `MIR_OP_BOUND` -/
def nopsOf (descs : Descs) (code : Nat) : Nat := ((rowModes descs code).takeWhile (· != OP_BOUND)).length

/-! ## expected operand modes (`MIR_insn_op_mode`) -/

/-- expected mode of a position: a fixed `MIR_op_mode_t`, or "whatever mode the operand has"
(the `MIR_ADDR*` case of `MIR_insn_op_mode` returns `insn->ops[nop].mode`) -/
inductive Exp where
  | fixed (m : Nat)
  | own
  deriving DecidableEq, Repr, Inhabited

/-- everything `MIR_finish_func` knows about a position when it checks the operand there -/
structure ImplPos where
  exp : Exp
  out : Bool
  /-- `MIR_call_code_p (code)`: block-typed memory is tolerated -/
  callp : Bool
  /-- position is one of the va_list positions: undef-typed memory is tolerated there -/
  vaSpecial : Bool
  deriving DecidableEq, Repr, Inhabited

/-- decode one `op_modes` byte: `(mode & OUT_FLAG) == 0 ? mode : mode ^ OUT_FLAG` -/
def decodeMode (m : Nat) : Nat × Bool :=
  if Nat.land m OUT_FLAG == 0 then (m, false) else (Nat.xor m OUT_FLAG, true)

/-- the `(code, i)` pairs where `MIR_finish_func` tolerates undef-typed memory (va_list operands);
the same set is written twice in the C code (type check, mode check) -/
def vaSpecialAt (code i : Nat) : Bool :=
  ((code == C_VA_START || code == C_VA_END) && i == 0)
    || ((code == C_VA_ARG || code == C_VA_BLOCK_ARG) && i == 1)

/-- `MIR_insn_op_mode` for the opcodes that take the `default:` branch or the `MIR_ADDR*` branch.
`none` = index outside `op_modes[5]` (undefined behaviour in C). -/
def rowPos (descs : Descs) (code i : Nat) : Option ImplPos :=
  if isAddr code then
    some ⟨if i == 0 then .fixed OP_INT else .own, i == 0, isCall code, vaSpecialAt code i⟩
  else
    match (rowModes descs code)[i]? with
    | some m => let (md, out) := decodeMode m; some ⟨.fixed md, out, isCall code, vaSpecialAt code i⟩
    | none => none

/-! ## per-operand checks of `MIR_finish_func`

The checks look at the base and index registers of a memory operand only through "declared?" and
"of integer type?" (first failure wins); `RV` is that three-valued summary and `OpA` the operand
kind with the two registers replaced by it.  All verdict functions are defined on `OpA`; the
finite grid of the theorems ranges over `OpA` (139 kinds) and lifts to `OpS` through `OpS.abs`. -/

/-- outcome of the base/index register checks of a memory operand -/
inductive RV where
  | ok | undecl | regty
  deriving DecidableEq, Repr, Inhabited

def RV.v : RV → Verdict
  | .ok => .ok
  | .undecl => .err E_undeclared_func_reg
  | .regty => .err E_reg_type

def RV.seq (a b : RV) : RV :=
  match a with
  | .ok => b
  | x => x

/-- base / index register of a memory operand: declared (`find_rd_by_reg`), and of integer type -/
def memRegSelf : MemReg → RV
  | .none => .ok
  | .r .undecl => .undecl
  | .r (.decl t) => if type2mode t.ty != OP_INT then .regty else .ok

/-- operand kinds as the checks see them -/
inductive OpA where
  | reg (r : RegRef)
  | int | uint | float | double | ldouble
  | mem (ty : Ty) (dispNeg : Bool) (rv : RV)
  | label
  | ref (k : RefS)
  | str
  deriving DecidableEq, Repr, Inhabited

/-- abstraction of an operand kind, given how base and index are judged -/
def OpS.absWith (regs : MemReg → RV) : OpS → OpA
  | .reg r => .reg r
  | .int => .int | .uint => .uint | .float => .float | .double => .double | .ldouble => .ldouble
  | .mem m => .mem m.ty m.dispNeg ((regs m.base).seq (regs m.index))
  | .label => .label
  | .ref k => .ref k
  | .str => .str

/-- the abstraction `MIR_finish_func` works with -/
def OpS.abs (o : OpS) : OpA := o.absWith memRegSelf

def OpA.mode : OpA → Nat
  | .reg _ => OP_REG | .int => OP_INT | .uint => OP_UINT | .float => OP_FLOAT
  | .double => OP_DOUBLE | .ldouble => OP_LDOUBLE | .mem _ _ _ => OP_MEM | .label => OP_LABEL
  | .ref _ => OP_REF | .str => OP_STR

def regSelf : RegRef → Verdict
  | .undecl => .err E_undeclared_func_reg
  | .decl _ => .ok

/-- the checks made on the operand itself inside `switch (insn->ops[i].mode)` -/
def selfErr (callp vaSpecial : Bool) (o : OpA) : Verdict :=
  match o with
  | .reg r => regSelf r
  | .mem ty dispNeg rv =>
    if wrongType ty && (!allBlk ty || !callp) && !(ty == .undef && vaSpecial) then .err E_wrong_type
    else if allBlk ty && dispNeg then .err E_wrong_type
    else rv.v
  | _ => .ok

/-- `mode` computed by the switch -/
def valueMode (o : OpA) : Nat :=
  match o with
  | .reg (.decl t) => type2mode t.ty
  | .reg .undecl => OP_INT
  | .mem ty _ _ => type2mode ty
  | .ref _ => OP_INT
  | .str => OP_INT
  | o => o.mode

def canBeOut (o : OpA) : Bool :=
  match o with
  | .reg _ => true
  | .mem _ _ _ => true
  | _ => false

/-- the mode / output tests after the switch -/
def modeCheck (ip : ImplPos) (o : OpA) : Verdict :=
  let mode := valueMode o
  let e := match ip.exp with
    | .fixed m => m
    | .own => o.mode
  let v :=
    if mode == OP_UNDEF && o.mode == OP_MEM && ip.vaSpecial then Verdict.ok
    else if e == OP_REG then (if o.mode != OP_REG then .err E_op_mode else .ok)
    else if e != OP_UNDEF && (if mode == OP_UINT then OP_INT else mode) != e then .err E_op_mode
    else .ok
  seq v (if ip.out && !canBeOut o then .err E_out_op else .ok)

/-- one operand at a position described by `ip` -/
def finishOperandA (ip : ImplPos) (o : OpA) : Verdict :=
  seq (selfErr ip.callp ip.vaSpecial o) (modeCheck ip o)

def finishOperandAt (ip : ImplPos) (o : OpS) : Verdict := finishOperandA ip o.abs

/-! ## prototypes, functions, instructions -/

structure Proto where
  vararg : Bool
  res : List Ty
  args : List (Ty × Nat)
  deriving Repr, Inhabited

structure Func where
  vararg : Bool
  res : List Ty
  deriving Repr, Inhabited

structure Insn where
  code : Nat
  ops : List Operand
  deriving Repr, Inhabited

/-- item kinds the asserts of `MIR_finish_func` allow as a referenced call target -/
def callableRef : RefS → Bool
  | .func | .import_ | .export_ | .forward_ => true
  | _ => false

/-- what `MIR_finish_func` does with operand `i` of a call-like insn -/
inductive CallK where
  | skip                  -- `continue`
  | fail (v : Verdict)    -- error raised before any operand check
  | oob
  | pos (ip : ImplPos)
  deriving Repr, Inhabited

/-- operand `i` of a call / inline / jcall whose prototype is `pr` -/
def callPos (pr : Proto) (i : Nat) (o : OpS) : CallK :=
  if i == 0 then .skip
  else if i == 1 && o.mode == OP_REF then
    (match o with
     | .ref k => if callableRef k then .skip else .fail (.err E_call_op)
     | _ => .skip)
  else
    let nres := pr.res.length
    let out := 2 ≤ i && i < nres + 2
    let m :=
      if pr.vararg && i ≥ nres + 2 + pr.args.length then OP_UNDEF
      else if i == 1 then OP_INT
      else if i < nres + 2 then type2mode (pr.res.getD (i - 2) .i64)
      else type2mode ((pr.args.getD (i - 2 - nres) (.i64, 0)).1)
    .pos ⟨.fixed m, out, true, false⟩

/-- the kinds of positional check `MIR_new_insn_arr` makes on single operands -/
inductive NewK where
  | none | mustMem | mustInt | mustRegMem
  deriving DecidableEq, Repr, Inhabited

/-- which positional check `MIR_new_insn_arr` applies at `(code, i)` -/
def newKind (code i : Nat) : NewK :=
  if code == C_VA_ARG && i == 2 then .mustMem
  else if code == C_PRSET && i == 1 then .mustInt
  else if code == C_PRSET && i == 0 then .mustRegMem
  else if (code == C_PRBEQ || code == C_PRBNE) && i == 2 then .mustInt
  else if (code == C_PRBEQ || code == C_PRBNE) && i == 1 then .mustRegMem
  else .none

def newKindCheck (k : NewK) (o : OpA) : Verdict :=
  match k with
  | .none => .ok
  | .mustMem => if o.mode != OP_MEM then .err E_op_mode else .ok
  | .mustInt => if o.mode != OP_INT && o.mode != OP_UINT then .err E_op_mode else .ok
  | .mustRegMem => if o.mode != OP_REG && o.mode != OP_MEM then .err E_op_mode else .ok

/-- positional checks made already by `MIR_new_insn_arr` -/
def newInsnPos (code i : Nat) (o : OpS) : Verdict := newKindCheck (newKind code i) o.abs

/-- what `MIR_finish_func` does at a position of a fixed-arity insn -/
inductive FinK where
  | skip                 -- `continue` (third operand of `va_arg`)
  | oob                  -- index outside `op_modes[5]`
  | pos (ip : ImplPos)
  deriving DecidableEq, Repr, Inhabited

def fixedPos (descs : Descs) (code i : Nat) : FinK :=
  if code == C_VA_ARG && i == 2 then .skip
  else match rowPos descs code i with
    | some ip =>
      -- `if (MIR_addr_code_p (code) && i == 1) expected_mode = MIR_OP_REG;`
      .pos (if isAddr code && i == 1 then { ip with exp := .fixed OP_REG } else ip)
    | none => .oob

def finKCheck (k : FinK) (o : OpA) : Verdict :=
  match k with
  | .skip => .ok
  | .oob => .crash
  | .pos ip => finishOperandA ip o

/-- `MIR_finish_func` on operand `i` of a fixed-arity (non call/ret/switch/unspec) insn -/
def finishPosFixed (descs : Descs) (code i : Nat) (o : OpS) : Verdict := finKCheck (fixedPos descs code i) o.abs

/-- verdict of one (opcode, position, operand kind) cell of a fixed-arity insn: the positional
check of `MIR_new_insn_arr`, then the operand check of `MIR_finish_func` -/
def cellVerdict (descs : Descs) (code i : Nat) (o : OpS) : Verdict :=
  seq (newInsnPos code i o) (finishPosFixed descs code i o)

def retPos (t : Ty) : ImplPos := ⟨.fixed (type2mode t), false, false, false⟩
def switchPos (i : Nat) : ImplPos := ⟨.fixed (if i == 0 then OP_INT else OP_LABEL), false, false, false⟩

/-- the prototype a call-like insn refers to (first operand) -/
def protoOf (protos : List Proto) (ops : List Operand) : Option Proto :=
  match ops.head? with
  | some (.ref .proto k) => protos[k]?
  | _ => none

/-- `MIR_finish_func` on operand `i` (`o`) of `insn` -/
def finishPos (asserts : Bool) (descs : Descs) (protos : List Proto) (fn : Func) (insn : Insn)
    (i : Nat) (o : OpS) : Verdict :=
  let code := insn.code
  if code == C_UNSPEC && i == 0 then .ok
  else if isCall code then
    match protoOf protos insn.ops with
    | none => .crash             -- cannot happen: MIR_new_insn_arr checked the first operand
    | some pr =>
      match callPos pr i o with
      | .skip => .ok
      | .fail v => v
      | .oob => .crash
      | .pos ip => finishOperandAt ip o
  else if code == C_SWITCH then finishOperandAt (switchPos i) o
  else if code == C_RET then finishOperandAt (retPos (fn.res.getD i .i64)) o
  else finishPosFixed descs code i o

/-! ## `MIR_new_insn_arr` -/

/-- agreement of block-typed arguments with the prototype (loop over `args_start..nops`) -/
def blkArgCheck (pr : Proto) (j : Nat) (op : Operand) : Verdict :=
  -- `j` = operand index minus `args_start`
  let nres := pr.res.length
  match op with
  | .mem ty disp _ _ =>
    if allBlk ty then
      if j < nres then .err E_wrong_type
      else if j - nres < pr.args.length then
        let a := pr.args.getD (j - nres) (.i64, 0)
        if a.1 != ty then .err E_wrong_type
        else if disp < 0 || a.2 != disp.toNat then .err E_wrong_type
        else .ok
      else if ty == .rblk then .err E_wrong_type
      else .ok
    else if j ≥ nres && j - nres < pr.args.length
        && allBlk (pr.args.getD (j - nres) (.i64, 0)).1 then .err E_wrong_type
    else .ok
  | _ =>
    if j ≥ nres && j - nres < pr.args.length
        && allBlk (pr.args.getD (j - nres) (.i64, 0)).1 then .err E_wrong_type
    else .ok

def blkArgsCheck (pr : Proto) (j : Nat) (ops : List Operand) : Verdict := seqFrom (blkArgCheck pr) j ops

/-- operand-count rule of a call against its prototype -/
def callCountOk (pr : Proto) (nops : Nat) : Bool :=
  let need := pr.res.length + pr.args.length + 2
  !(nops < need || (nops != need && !pr.vararg))

def newInsnPosAll (code : Nat) (i : Nat) (ops : List Operand) : Verdict :=
  seqFrom (fun i op => newInsnPos code i op.s) i ops

/-- opcodes whose operand count is fixed by `insn_descs` -/
def fixedArity (code : Nat) : Bool :=
  !isCall code && code != C_UNSPEC && code != C_USE && code != C_PHI && code != C_RET && code != C_SWITCH

/-- `MIR_new_insn_arr (ctx, code, nops, ops)`; no unspec insn is registered (internal API) -/
def newInsnCheck (descs : Descs) (protos : List Proto) (code : Nat) (ops : List Operand) : Verdict :=
  let nops := ops.length
  if fixedArity code && nops != nopsOf descs code then .err E_ops_num
  else if code == C_SWITCH then (if nops < 2 then .err E_ops_num else .ok)
  else if code == C_PHI then (if nops < 3 then .err E_ops_num else .ok)
  else if code == C_UNSPEC then
    (if nops < 1 then .err E_ops_num else .err E_unspec_op)
  else if isCall code then
    if nops < 2 then .err E_ops_num
    else match ops.head? with
      | some (.ref .proto k) =>
        (match protos[k]? with
         | none => .crash
         | some pr =>
           if !callCountOk pr nops then .err E_call_op
           else blkArgsCheck pr 0 (ops.drop 2))
      | _ => .err E_call_op
  else newInsnPosAll code 0 ops

/-! ## `MIR_finish_func` -/

/-- scan back over register moves / stores (`mov x, reg`) for the insn producing the flag -/
def overflowProducer : List Insn → Option Insn
  | [] => none
  | p :: ps =>
    if p.code == C_MOV && ((p.ops.getD 1 .int).s.mode == OP_REG) then overflowProducer ps else some p

/-- insn-level rules; `prevs` = earlier insns, nearest first; `retSeen`/`jretSeen` already include
this insn -/
def insnLevel (fn : Func) (prevs : List Insn) (retSeen jretSeen : Bool) (insn : Insn) : Verdict :=
  let code := insn.code
  if code == C_PHI || code == C_USE then .err E_vararg_func
  else if !fn.vararg && code == C_VA_START then .err E_vararg_func
  else if code == C_JRET && fn.res.length != 0 then .err E_vararg_func
  else if (code == C_JRET && retSeen) || (code == C_RET && jretSeen) then .err E_vararg_func
  else if code == C_RET && insn.ops.length != fn.res.length then .err E_vararg_func
  else if isCall code then .ok
  else if isOverflowBranch code then
    match overflowProducer prevs with
    | none => .err E_invalid_insn
    | some p =>
      if !isOverflowInsn p.code then .err E_invalid_insn
      else if (code == C_UBO || code == C_UBNO) && (p.code == C_MULO || p.code == C_MULOS) then
        .err E_invalid_insn
      else if (code == C_BO || code == C_BNO) && (p.code == C_UMULO || p.code == C_UMULOS) then
        .err E_invalid_insn
      else .ok
  else .ok

def finishOps (asserts : Bool) (descs : Descs) (protos : List Proto) (fn : Func) (insn : Insn)
    (i : Nat) (ops : List Operand) : Verdict :=
  seqFrom (fun i op => finishPos asserts descs protos fn insn i op.s) i ops

def finishInsn (asserts : Bool) (descs : Descs) (protos : List Proto) (fn : Func) (prevs : List Insn)
    (retSeen jretSeen : Bool) (insn : Insn) : Verdict :=
  seq (insnLevel fn prevs retSeen jretSeen insn) (finishOps asserts descs protos fn insn 0 insn.ops)

def finishLoop (asserts : Bool) (descs : Descs) (protos : List Proto) (fn : Func) :
    List Insn → Bool → Bool → List Insn → Verdict
  | _, _, _, [] => .ok
  | prevs, r, j, insn :: rest =>
    let r' := r || insn.code == C_RET
    let j' := j || insn.code == C_JRET
    seq (finishInsn asserts descs protos fn prevs r' j' insn)
      (finishLoop asserts descs protos fn (insn :: prevs) r' j' rest)

/-- `MIR_finish_func` over the insn list of the function (the implicit `ret` appended for a
function without ret/jret cannot fail: `MIR_new_insn_arr` makes no check for `MIR_RET`) -/
def finishFuncCheck (asserts : Bool) (descs : Descs) (protos : List Proto) (fn : Func)
    (insns : List Insn) : Verdict :=
  finishLoop asserts descs protos fn [] false false insns

/-! ## declarations -/

def isDigit (c : Char) : Bool := '0' ≤ c && c ≤ '9'

/-- `_MIR_reserved_name_p`: prefix `.lc`, or `hr` followed only by digits (possibly none) -/
def reservedName (s : List Char) : Bool :=
  match s with
  | '.' :: 'l' :: 'c' :: _ => true
  | 'h' :: 'r' :: rest => rest.all isDigit
  | _ => false

def regTyOfCode (t : Ty) : Option RegTy :=
  match t with
  | .i64 => some .i64 | .f => some .f | .d => some .d | .ld => some .ld | _ => none

/-- `create_func_reg` (non-global): reserved name, then repeated declaration -/
def createReg (decls : List (List Char)) (name : List Char) : Verdict :=
  if reservedName name then .err E_reserved_name
  else if decls.contains name then .err E_repeated_decl
  else .ok

/-- `MIR_new_func_reg (ctx, func, type, name)` given the names declared so far -/
def declReg (decls : List (List Char)) (t : Ty) (name : List Char) : Verdict :=
  match regTyOfCode t with
  | none => .err E_reg_type
  | some _ => createReg decls name

/-! ### global variables tied to hard registers (`MIR_new_global_func_reg`), x86-64 target

`create_func_reg` keeps, per function, a table from hard register name to the first variable tied to
it: a second variable tied to the same hard register must have the same type and then *shares* the
register number of the first (its own name is not entered); with a different type it is a repeated
declaration. -/

/-- `target_hard_reg_names` of mir-x86_64.h, index = hard register number -/
def hardRegNames : List String :=
  ["rax", "rcx", "rdx", "rbx", "rsp", "rbp", "rsi", "rdi", "r8", "r9", "r10", "r11", "r12", "r13", "r14",
   "r15", "xmm0", "xmm1", "xmm2", "xmm3", "xmm4", "xmm5", "xmm6", "xmm7", "xmm8", "xmm9", "xmm10",
   "xmm11", "xmm12", "xmm13", "xmm14", "xmm15", "st0", "st1"]

/-- `_MIR_get_hard_reg` -/
def hardRegIndex (h : List Char) : Option Nat :=
  let i := hardRegNames.findIdx (fun n => n.toList == h)
  if i < hardRegNames.length then some i else none

/-- `target_hard_reg_type_ok_p`: integer registers below xmm0, f/d from xmm0 up, never long double -/
def hardRegTypeOk (i : Nat) (t : RegTy) : Bool :=
  match t with
  | .ld => false
  | .i64 => i < 16
  | _ => i ≥ 16

/-- `target_fixed_hard_reg_p`: rsp, rbp, r10, r11, xmm8, xmm9, st0, st1 -/
def hardRegFixed (i : Nat) : Bool := [4, 5, 10, 11, 24, 25, 32, 33].contains i

/-- a declared register of the current function -/
structure RegD where
  name : List Char
  ty : RegTy
  reg : Nat
  hard : Option (List Char)
  deriving Repr, Inhabited

/-- outcome of a declaration: verdict, register number returned, new table -/
structure DeclRes where
  v : Verdict
  reg : Nat
  ds : List RegD
  deriving Repr, Inhabited

/-- `MIR_new_func_reg` / `MIR_new_global_func_reg` on the table `ds` of the current function
(`hard = none`: a local; register numbers are handed out consecutively from 1) -/
def declRegD (ds : List RegD) (t : Ty) (name : List Char) (hard : Option (List Char)) : DeclRes :=
  match regTyOfCode t with
  | none => ⟨.err E_reg_type, 0, ds⟩
  | some rt =>
    if reservedName name then ⟨.err E_reserved_name, 0, ds⟩
    else if ds.any (fun d => d.name == name) then ⟨.err E_repeated_decl, 0, ds⟩
    else
      let fresh : DeclRes := ⟨.ok, ds.length + 1, ds ++ [⟨name, rt, ds.length + 1, hard⟩]⟩
      match hard with
      | none => fresh
      | some h =>
        match hardRegIndex h with
        | none => ⟨.err E_hard_reg, 0, ds⟩
        | some i =>
          if !hardRegTypeOk i rt then ⟨.err E_hard_reg, 0, ds⟩
          else if hardRegFixed i then ⟨.err E_hard_reg, 0, ds⟩
          else
            match ds.find? (fun d => d.hard == some h) with
            | some d => if d.ty != rt then ⟨.err E_repeated_decl, 0, ds⟩ else ⟨.ok, d.reg, ds⟩
            | none => fresh

/-- argument registers created by `new_func_arr`, in order -/
def declArgs : List (List Char) → List (List Char) → Verdict
  | _, [] => .ok
  | decls, a :: as => seq (createReg decls a) (declArgs (a :: decls) as)

/-- `new_func_arr`: vararg function without fixed argument, wrong result types, argument registers -/
def newFuncCheck (vararg : Bool) (res : List Ty) (argNames : List (List Char)) : Verdict :=
  if argNames.isEmpty && vararg then .err E_vararg_func
  else if res.any wrongType then .err E_wrong_type
  else declArgs [] argNames

/-- `new_proto_arr` -/
def newProtoCheck (res : List Ty) : Verdict :=
  if res.any wrongType then .err E_wrong_type else .ok

end MirVerif.Check
