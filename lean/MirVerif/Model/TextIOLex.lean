import MirVerif.Model.TextIOPrint
/-!
# C10 — the token scanner: transcription of `scan_token`, `scan_number`, `scan_string`
(mir.c:5944-6182) over a list of bytes

Input conventions of `get_string_char`/`unget_string_char` (mir.c:6096-6110) are kept:
* the text is a C string: a NUL byte is end of input and is *not* consumed (every later read is EOF);
* a byte 0xFF read through `int ch = input_string[i]` (plain `char` is signed here) equals `EOF`, is
  consumed, and `unget_string_char (EOF)` is a no-op — such a byte ends a token and disappears.
-/
namespace TextIO

/-! ## character classes (`<ctype.h>` in the C locale) -/

def isDigit (c : Char) : Bool := 48 ≤ c.toNat && c.toNat ≤ 57
def isAlpha (c : Char) : Bool := (65 ≤ c.toNat && c.toNat ≤ 90) || (97 ≤ c.toNat && c.toNat ≤ 122)
def isHexAlpha (c : Char) : Bool := (65 ≤ c.toNat && c.toNat ≤ 70) || (97 ≤ c.toNat && c.toNat ≤ 102)
def isXDigit (c : Char) : Bool := isDigit c || isHexAlpha c
def isOct (c : Char) : Bool := 48 ≤ c.toNat && c.toNat ≤ 55
/-- `_MIR_name_char_p` (mir.c:5840) -/
def isNameChar (c : Char) (first : Bool) : Bool :=
  isAlpha c || c.toNat = 95 || c.toNat = 36 || c.toNat = 37 || c.toNat = 46 || (!first && isDigit c)

/-- `get_string_char`: `(none, _)` is `EOF` -/
def getc : List Char → Option Char × List Char
  | [] => (none, [])
  | c :: cs => if c.toNat = 0 then (none, c :: cs) else if c.toNat = 255 then (none, cs) else (some c, cs)

/-- `unget_string_char (ch)` after `ch` was read leaving `rest` -/
def ungetc (ch : Option Char) (rest : List Char) : List Char :=
  match ch with
  | some c => c :: rest
  | none => rest

/-- position after a `get_char`/`unget_char` pair on the list `l` -/
def ungetPeek (l : List Char) : List Char :=
  match l with
  | c :: cs => if c.toNat = 255 then cs else l
  | [] => []

/-! ## names -/

def spanName : List Char → Str × List Char
  | [] => ([], [])
  | c :: cs => if isNameChar c false then let r := spanName cs; (c :: r.1, r.2) else ([], c :: cs)

/-! ## strings (`scan_string`) -/

def errUnfinished : Err := .syntax "unfinished string"
def errHexEscape : Err := .syntax "wrong hexadecimal escape"

def pushC (c : Char) (r : Except Err (Str × List Char)) : Except Err (Str × List Char) :=
  r.map fun p => (c :: p.1, p.2)

def octVal (c : Char) : Nat := c.toNat - 48
def hexVal (c : Char) : Nat :=
  if isDigit c then c.toNat - 48 else if 97 ≤ c.toNat then c.toNat - 97 + 10 else c.toNat - 65 + 10
/-- `VARR_PUSH (char, temp_string, c)` of an `int` -/
def byteChar (n : Nat) : Char := Char.ofNat (n % 256)

/-- the loop of `scan_string` after the opening quote: the bytes of the string and the text after the
closing quote -/
def scanStrBody : List Char → Except Err (Str × List Char)
  | [] => .error errUnfinished
  | c :: cs =>
    if c.toNat = 0 || c.toNat = 255 || c = '\n' then .error errUnfinished
    else if c = '"' then .ok ([], cs)
    else if c = '\\' then
      match cs with
      | [] => .error errUnfinished
      | e :: cs1 =>
        if e.toNat = 0 then .error errUnfinished
        else if e = 'n' then pushC '\n' (scanStrBody cs1)
        else if e = 't' then pushC '\t' (scanStrBody cs1)
        else if e = 'v' then pushC (Char.ofNat 11) (scanStrBody cs1)
        else if e = 'a' then pushC (Char.ofNat 7) (scanStrBody cs1)
        else if e = 'b' then pushC (Char.ofNat 8) (scanStrBody cs1)
        else if e = 'r' then pushC '\r' (scanStrBody cs1)
        else if e = 'f' then pushC (Char.ofNat 12) (scanStrBody cs1)
        else if e = '\n' then scanStrBody cs1
        else if isOct e then
          match cs1 with
          | [] => .error errUnfinished
          | d2 :: cs2 =>
            if isOct d2 then
              match cs2 with
              | [] => .error errUnfinished
              | d3 :: cs3 =>
                if isOct d3 then
                  pushC (byteChar ((octVal e * 8 + octVal d2) * 8 + octVal d3)) (scanStrBody cs3)
                else if d3.toNat = 255 then pushC (byteChar (octVal e * 8 + octVal d2)) (scanStrBody cs3)
                else pushC (byteChar (octVal e * 8 + octVal d2)) (scanStrBody (d3 :: cs3))
            else if d2.toNat = 255 then pushC (byteChar (octVal e)) (scanStrBody cs2)
            else pushC (byteChar (octVal e)) (scanStrBody (d2 :: cs2))
        else if e = 'x' then
          match cs1 with
          | h1 :: h2 :: cs3 =>
            if h1.toNat ≠ 0 && isXDigit h1 && isXDigit h2 then
              pushC (byteChar (hexVal h1 * 16 + hexVal h2)) (scanStrBody cs3)
            else .error errHexEscape
          | _ => .error errHexEscape
        else pushC e (scanStrBody cs1)   -- `\\`, `\'`, `\"` and every other character stand for themselves
    else pushC c (scanStrBody cs)
termination_by cs => cs.length
decreasing_by all_goals (simp only [List.length_cons]; omega)

/-! ## numbers (`scan_number` and the conversion in `scan_token`) -/

def pushUnlessUnderscore (c : Char) : Str := if c = '_' then [] else [c]

/-- `for (;;) { if (ch != '_') push ch; ch = get_char (); … if (stop) break; }` and the two
`do … while (isdigit (ch) || ch == '_')` loops (with `hex = false`).  Returns the pushed characters,
`dec_p`, the stopping character and the input after it. -/
def numLoop (hex : Bool) (ch : Char) : List Char → Str × Bool × Option Char × List Char
  | [] => (pushUnlessUnderscore ch, false, none, [])
  | c :: cs =>
    if c.toNat = 0 then (pushUnlessUnderscore ch, false, none, c :: cs)
    else if c.toNat = 255 then (pushUnlessUnderscore ch, false, none, cs)
    else if c ≠ '_' && !isDigit c && !(hex && isHexAlpha c) then
      (pushUnlessUnderscore ch, false, some c, cs)
    else
      let r := numLoop hex c cs
      (pushUnlessUnderscore ch ++ r.1, (c = '8' || c = '9') || r.2.1, r.2.2.1, r.2.2.2)

structure NumLex where
  /-- `temp_string` without the final NUL -/
  repr : Str
  base : Nat
  isFloat : Bool
  isDouble : Bool
  isLdouble : Bool
  rest : List Char
  deriving Repr

/-- scanner state inside `scan_number`: `temp_string`, current character `ch`, input after it -/
structure NumSt where
  temp : Str
  ch : Option Char
  rest : List Char
  dbl : Bool
  deriving Repr

/-- input position (what `unget_char (ch)` would restore) -/
def NumSt.pos (s : NumSt) : List Char := ungetc s.ch s.rest

/-- `if (ch == '.') { double_p; do { push; get } while (digit or '_') }` -/
def stageFrac (s : NumSt) : NumSt :=
  if s.ch = some '.' then
    let r := numLoop false '.' s.rest
    ⟨s.temp ++ r.1, r.2.2.1, r.2.2.2, true⟩
  else s

/-- the exponent part (mir.c:5986-6003); the error code it sets is never looked at -/
def stageExp (s : NumSt) : NumSt :=
  if s.ch = some 'e' || s.ch = some 'E' then
    match getc s.rest with
    | (some sg, r) =>
      if sg = '+' || sg = '-' then
        match getc r with
        | (some d, r') =>
          if isDigit d then
            let l := numLoop false d r'
            ⟨s.temp ++ ['e', sg] ++ l.1, l.2.2.1, l.2.2.2, true⟩
          else ⟨s.temp ++ ['e', sg], some d, r', true⟩
        | (none, r') => ⟨s.temp ++ ['e', sg], none, r', true⟩
      else if isDigit sg then
        let l := numLoop false sg r
        ⟨s.temp ++ ['e'] ++ l.1, l.2.2.1, l.2.2.2, true⟩
      else ⟨s.temp, some sg, r, true⟩
    | (none, r) => ⟨s.temp, none, r, true⟩
  else s

/-- the suffix `f`/`F`/`l`/`L` and the final `unget_char` (mir.c:6004-6021) -/
def stageSuffix (base : Nat) (s : NumSt) : NumLex :=
  if s.dbl then
    if base == 16 then ⟨s.temp, base, false, true, false, s.pos⟩
    else if s.ch = some 'f' || s.ch = some 'F' then
      let g := getc s.rest
      ⟨s.temp, base, true, false, false, ungetc g.1 g.2⟩
    else if s.ch = some 'l' || s.ch = some 'L' then
      let g := getc s.rest
      ⟨s.temp, base, false, false, true, ungetc g.1 g.2⟩
    else ⟨s.temp, base, false, true, false, s.pos⟩
  else ⟨s.temp, base, false, false, false, s.pos⟩

/-- sign and base prefix (mir.c:5953-5968): sign characters, base, first digit, input after it -/
def stagePrefix (c : Char) (cs : List Char) : Except Err (Str × Nat × Char × List Char) :=
  let (sign, ch, cs) : Str × Char × List Char :=
    if c = '+' || c = '-' then
      match cs with
      | d :: r => ([c], d, r)
      | [] => ([c], '0', [])
    else ([], c, cs)
  if ch = '0' then
    match getc cs with
    | (some x, r) =>
      if x = 'x' || x = 'X' then
        match getc r with
        | (some h, r') =>
          if isXDigit h then .ok (sign, 16, h, r')
          else .error (.unmodelled "0x not followed by a hexadecimal digit")
        | (none, _) => .error (.unmodelled "0x at end of input")
      else .ok (sign, 8, '0', cs)
    | (none, r) => .ok (sign, 8, '0', r)
  else .ok (sign, 10, ch, cs)

/-- `scan_number`; `c` is the first character (a sign followed by a digit, or a digit) -/
def scanNumber (c : Char) (cs : List Char) : Except Err NumLex :=
  match stagePrefix c cs with
  | .error e => .error e
  | .ok (sign, base, ch, cs) =>
    let l := numLoop (base == 16) ch cs
    .ok (stageSuffix base (stageExp (stageFrac ⟨sign ++ l.1, l.2.2.1, l.2.2.2, false⟩)))

def digitValue (c : Char) : Nat :=
  if isDigit c then c.toNat - 48 else if 97 ≤ c.toNat then c.toNat - 97 + 10 else c.toNat - 65 + 10

def validDigit (base : Nat) (c : Char) : Bool := isXDigit c && digitValue c < base

def accDigits (base : Nat) : List Char → Nat → Nat
  | [], acc => acc
  | c :: cs, acc => accDigits base cs (acc * base + digitValue c)

/-- optional sign of a `strtoul` subject -/
def strtoulSign : Str → Bool × Str
  | '-' :: t => (true, t)
  | '+' :: t => (false, t)
  | s => (false, s)

/-- `strtoul (repr, &end, base)` on a 64-bit `long` (mir.c:6169): longest valid prefix, wrap-around
of a leading minus, saturation at `ULONG_MAX` (errno is ignored by the caller) -/
def strtoul (repr : Str) (base : Nat) : BitVec 64 :=
  let v := accDigits base ((strtoulSign repr).2.takeWhile (validDigit base)) 0
  if v ≥ 2 ^ 64 then BitVec.ofNat 64 (2 ^ 64 - 1)
  else if (strtoulSign repr).1 then BitVec.ofNat 64 (2 ^ 64 - v) else BitVec.ofNat 64 v

/-- the number branch of `scan_token` -/
def lexNumber (c : Char) (cs : List Char) : Except Err (Tok × List Char) :=
  match scanNumber c cs with
  | .error e => .error e
  | .ok n =>
    if n.isFloat then
      match parseSci fmtF n.repr with
      | some b => .ok (.flt (BitVec.ofNat 32 b), n.rest)
      | none => .error (.unmodelled "strtof stops inside the lexeme")
    else if n.isDouble then
      match parseSci fmtD n.repr with
      | some b => .ok (.dbl (BitVec.ofNat 64 b), n.rest)
      | none => .error (.unmodelled "strtod stops inside the lexeme")
    else if n.isLdouble then
      match parseSci fmtLD n.repr with
      | some b => .ok (.ldbl (BitVec.ofNat 80 b), n.rest)
      | none => .error (.unmodelled "strtold stops inside the lexeme")
    else .ok (.int (strtoul n.repr n.base), n.rest)

/-! ## `scan_token` -/

/-- rest of a `#` comment: up to and including the newline -/
def skipComment : List Char → List Char
  | [] => []
  | c :: cs =>
    if c = '\n' then cs else if c.toNat = 0 then c :: cs else if c.toNat = 255 then cs else skipComment cs

/-- the `switch (ch)` of `scan_token` (mir.c:6118-6180) as a classification of the character -/
inductive CClass
  | nul | ff | blank | hash | nl | lpar | rpar | comma | semi | col | quote | nameStart | sign | digit | other
  deriving DecidableEq, Repr

/-- first half of the punctuation cases, by character code (NUL, 0xFF, blank, `#`, newline) -/
def punctClass1 (n : Nat) : Option CClass :=
  if n = 0 then some .nul
  else if n = 255 then some .ff
  else if n = 32 ∨ n = 9 then some .blank
  else if n = 35 then some .hash
  else if n = 10 then some .nl
  else none

/-- second half: `(` `)` `,` `;` `:` `"` -/
def punctClass2 (n : Nat) : Option CClass :=
  if n = 40 then some .lpar
  else if n = 41 then some .rpar
  else if n = 44 then some .comma
  else if n = 59 then some .semi
  else if n = 58 then some .col
  else if n = 34 then some .quote
  else none

def charClass (c : Char) : CClass :=
  match punctClass1 c.toNat with
  | some k => k
  | none =>
    match punctClass2 c.toNat with
    | some k => k
    | none =>
      if isNameChar c true then .nameStart
      else if c.toNat = 43 ∨ c.toNat = 45 then .sign      -- '+' '-'
      else if isDigit c then .digit
      else .other

/-- one call of `scan_token`: the token and the remaining input -/
def lexOne : List Char → Except Err (Tok × List Char)
  | [] => .ok (.eof, [])
  | c :: cs =>
    match charClass c with
    | .nul => .ok (.eof, c :: cs)
    | .ff => .ok (.eof, cs)
    | .blank => lexOne cs
    | .hash => .ok (.nl, skipComment cs)
    | .nl => .ok (.nl, cs)
    | .lpar => .ok (.lpar, cs)
    | .rpar => .ok (.rpar, cs)
    | .comma => .ok (.comma, cs)
    | .semi => .ok (.semi, cs)
    | .col => .ok (.col, cs)
    | .quote =>
      (match scanStrBody cs with
       | .ok (s, rest) => .ok (.str (forceNul s), rest)
       | .error e => .error e)
    | .nameStart => .ok (.name (c :: (spanName cs).1), ungetPeek (spanName cs).2)
    | .sign =>
      (match getc cs with
       | (some d, _) => if isDigit d then lexNumber c cs else .error (.syntax "no number after a sign")
       | (none, _) => .error (.syntax "no number after a sign"))
    | .digit => lexNumber c cs
    | .other => .error (.syntax "wrong char")

/-- true end of input: nothing is ever read beyond this point -/
def atEnd : List Char → Bool
  | [] => true
  | c :: _ => c.toNat = 0

/-! ## progress: every successful `scan_token` call that is not at the end of the input consumes at
least one byte.  These lemmas make `lexAll` a total function without any run-time guard. -/

theorem getc_le (cs : List Char) : (getc cs).2.length ≤ cs.length := by
  cases cs with
  | nil => simp [getc]
  | cons c cs => simp only [getc]; split <;> (try split) <;> simp

theorem ungetc_getc_le (cs : List Char) : (ungetc (getc cs).1 (getc cs).2).length ≤ cs.length := by
  cases cs with
  | nil => simp [getc, ungetc]
  | cons c cs => simp only [getc]; split <;> (try split) <;> simp [ungetc]

theorem getc_some {cs : List Char} {c : Char} {r : List Char} (h : getc cs = (some c, r)) : cs = c :: r := by
  cases cs with
  | nil => simp [getc] at h
  | cons d cs =>
    simp only [getc] at h
    split at h
    · simp at h
    · split at h <;> simp at h
      obtain ⟨h1, h2⟩ := h; subst h1; subst h2; rfl

theorem numLoop_le (hex : Bool) (ch : Char) (cs : List Char) :
    (ungetc (numLoop hex ch cs).2.2.1 (numLoop hex ch cs).2.2.2).length ≤ cs.length := by
  induction cs generalizing ch with
  | nil => simp [numLoop, ungetc]
  | cons c cs ih =>
    simp only [numLoop]
    split
    · simp [ungetc]
    · split
      · simp [ungetc]
      · split
        · simp [ungetc]
        · have := ih c
          simp only [List.length_cons]
          omega

theorem ungetPeek_le (l : List Char) : (ungetPeek l).length ≤ l.length := by
  cases l with
  | nil => simp [ungetPeek]
  | cons c cs => simp only [ungetPeek]; split <;> simp

theorem spanName_le (cs : List Char) : (spanName cs).2.length ≤ cs.length := by
  induction cs with
  | nil => simp [spanName]
  | cons c cs ih =>
    simp only [spanName]
    split
    · simp only [List.length_cons]; omega
    · simp

theorem skipComment_le (cs : List Char) : (skipComment cs).length ≤ cs.length := by
  induction cs with
  | nil => simp [skipComment]
  | cons c cs ih =>
    simp only [skipComment]
    split
    · simp
    · split
      · simp
      · split
        · simp
        · simp only [List.length_cons]; omega

theorem stageFrac_le (s : NumSt) : (stageFrac s).pos.length ≤ s.pos.length := by
  unfold stageFrac
  split
  · rename_i h
    have := numLoop_le false '.' s.rest
    simp only [NumSt.pos, h, ungetc, List.length_cons] at *
    omega
  · exact Nat.le_refl _


theorem stageExp_le (s : NumSt) : (stageExp s).pos.length ≤ s.pos.length := by
  unfold stageExp
  split
  · rename_i h
    have hs : s.pos.length = s.rest.length + 1 := by
      simp only [NumSt.pos]
      cases hc : s.ch with
      | none => simp [hc] at h
      | some c => simp [ungetc]
    rw [hs]
    split
    · rename_i sg r hg
      have hr := getc_some hg
      split
      · split
        · rename_i d r' hg'
          have hr' := getc_some hg'
          split
          · have := numLoop_le false d r'
            simp only [NumSt.pos, hr, hr', List.length_cons] at *
            omega
          · simp only [NumSt.pos, ungetc, hr, hr', List.length_cons]; omega
        · rename_i r' hg'
          have := getc_le r
          simp only [hg'] at this
          simp only [NumSt.pos, ungetc, hr, List.length_cons] at *
          omega
      · split
        · have := numLoop_le false sg r
          simp only [NumSt.pos, hr, List.length_cons] at *
          omega
        · simp only [NumSt.pos, ungetc, hr, List.length_cons]; omega
    · rename_i r hg
      have := getc_le s.rest
      simp only [hg] at this
      simp only [NumSt.pos, ungetc]
      omega
  · exact Nat.le_refl _

theorem stageSuffix_le (base : Nat) (s : NumSt) : (stageSuffix base s).rest.length ≤ s.pos.length := by
  unfold stageSuffix
  have hg := ungetc_getc_le s.rest
  have hp : s.ch ≠ none → s.pos.length = s.rest.length + 1 := by
    intro h
    cases hc : s.ch with
    | none => exact absurd hc h
    | some c => simp [NumSt.pos, hc, ungetc]
  split
  · split
    · exact Nat.le_refl _
    · split
      · rename_i h
        have : s.ch ≠ none := by intro hn; simp [hn] at h
        have := hp this
        simp only; omega
      · split
        · rename_i h
          have : s.ch ≠ none := by intro hn; simp [hn] at h
          have := hp this
          simp only; omega
        · exact Nat.le_refl _
  · exact Nat.le_refl _

theorem scanNumber_le {c : Char} {cs : List Char} {n : NumLex} (h : scanNumber c cs = .ok n) :
    n.rest.length ≤ cs.length := by
  unfold scanNumber at h
  split at h
  · simp at h
  · rename_i sign base ch cs' hp
    simp only [Except.ok.injEq] at h
    subst h
    have h1 := stageSuffix_le base (stageExp (stageFrac ⟨sign ++ (numLoop (base == 16) ch cs').1, (numLoop (base == 16) ch cs').2.2.1, (numLoop (base == 16) ch cs').2.2.2, false⟩))
    have h2 := stageExp_le (stageFrac ⟨sign ++ (numLoop (base == 16) ch cs').1, (numLoop (base == 16) ch cs').2.2.1, (numLoop (base == 16) ch cs').2.2.2, false⟩)
    have h3 := stageFrac_le ⟨sign ++ (numLoop (base == 16) ch cs').1, (numLoop (base == 16) ch cs').2.2.1, (numLoop (base == 16) ch cs').2.2.2, false⟩
    have h4 := numLoop_le (base == 16) ch cs'
    have h5 : cs'.length ≤ cs.length := by
      unfold stagePrefix at hp
      split at hp
      rename_i sign0 ch0 cs0 hsg
      have h0 : cs0.length ≤ cs.length := by
        split at hsg
        · split at hsg
          · simp only [Prod.mk.injEq] at hsg
            obtain ⟨_, _, h⟩ := hsg
            subst h
            simp
          · simp only [Prod.mk.injEq] at hsg
            obtain ⟨_, _, h⟩ := hsg
            subst h
            simp
        · simp only [Prod.mk.injEq] at hsg
          obtain ⟨_, _, h⟩ := hsg
          subst h
          exact Nat.le_refl _
      split at hp
      · split at hp
        · rename_i x r hg
          have hr := getc_some hg
          split at hp
          · split at hp
            · rename_i hh r' hg'
              have hr' := getc_some hg'
              split at hp
              · simp only [Except.ok.injEq, Prod.mk.injEq] at hp
                obtain ⟨_, _, _, h⟩ := hp
                subst h
                simp only [hr, hr', List.length_cons] at h0
                omega
              · simp at hp
            · simp at hp
          · simp only [Except.ok.injEq, Prod.mk.injEq] at hp
            obtain ⟨_, _, _, h⟩ := hp
            subst h
            exact h0
        · rename_i r hg
          have := getc_le cs0
          simp only [hg] at this
          simp only [Except.ok.injEq, Prod.mk.injEq] at hp
          obtain ⟨_, _, _, h⟩ := hp
          subst h
          omega
      · simp only [Except.ok.injEq, Prod.mk.injEq] at hp
        obtain ⟨_, _, _, h⟩ := hp
        subst h
        exact h0
    simp only [NumSt.pos] at h1 h2 h3
    omega


theorem pushC_eq_ok {c : Char} {r : Except Err (Str × List Char)} {s : Str} {rest : List Char} :
    pushC c r = .ok (s, rest) ↔ ∃ s', r = .ok (s', rest) ∧ s = c :: s' := by
  cases r with
  | error e => simp [pushC, Except.map]
  | ok p =>
    obtain ⟨p1, p2⟩ := p
    simp only [pushC, Except.map, Except.ok.injEq, Prod.mk.injEq]
    constructor
    · rintro ⟨h1, h2⟩; exact ⟨p1, ⟨rfl, h2⟩, h1.symm⟩
    · rintro ⟨s', ⟨h1, h2⟩, h3⟩; subst h1; exact ⟨h3.symm, h2⟩

theorem scanStrBody_le (cs : List Char) : ∀ s rest, scanStrBody cs = .ok (s, rest) → rest.length < cs.length + 1 := by
  fun_induction scanStrBody cs <;> intro s rest h
  all_goals try (simp at h; done)
  any_goals
    (simp only [Except.ok.injEq, Prod.mk.injEq] at h
     obtain ⟨_, h2⟩ := h
     subst h2
     simp only [List.length_cons]
     omega)
  any_goals
    (simp only [pushC_eq_ok] at h
     obtain ⟨s', h', -⟩ := h
     rename_i ih
     have := ih s' rest h'
     simp only [List.length_cons] at *
     omega)
  all_goals
    (rename_i ih
     have := ih s rest h
     simp only [List.length_cons] at *
     omega)


theorem lexNumber_le {c : Char} {cs : List Char} {t : Tok} {rest : List Char}
    (h : lexNumber c cs = .ok (t, rest)) : rest.length ≤ cs.length := by
  unfold lexNumber at h
  split at h
  · simp at h
  · rename_i n hn
    have := scanNumber_le hn
    repeat' split at h
    all_goals first
      | (simp at h; done)
      | (simp only [Except.ok.injEq, Prod.mk.injEq] at h; obtain ⟨_, h2⟩ := h; subst h2; exact this)

theorem punctClass1_nul {n : Nat} (h : punctClass1 n = some .nul) : n = 0 := by
  unfold punctClass1 at h
  repeat' split at h
  all_goals first | assumption | cases h

theorem punctClass2_nul {n : Nat} : punctClass2 n ≠ some .nul := by
  intro h
  unfold punctClass2 at h
  repeat' split at h
  all_goals cases h

theorem charClass_nul {c : Char} : charClass c = .nul ↔ c.toNat = 0 := by
  constructor
  · intro h
    unfold charClass at h
    split at h
    · rename_i k hk; subst h; exact punctClass1_nul hk
    · split at h
      · rename_i k hk; subst h; exact absurd hk punctClass2_nul
      · repeat' split at h
        all_goals cases h
  · intro h; simp [charClass, punctClass1, h]

theorem lexOne_shorter : ∀ (cs : List Char) (t : Tok) (rest : List Char),
    lexOne cs = .ok (t, rest) → atEnd cs = false → rest.length < cs.length := by
  intro cs
  induction cs with
  | nil => intro t rest _ h; simp [atEnd] at h
  | cons c cs ih =>
    intro t rest h hend
    simp only [atEnd, decide_eq_false_iff_not] at hend
    unfold lexOne at h
    cases hc : charClass c <;> simp only [hc] at h
    case nul => exact absurd (charClass_nul.mp hc) hend
    case blank =>
      by_cases he : atEnd cs = true
      · cases cs with
        | nil => simp [lexOne] at h; obtain ⟨_, h2⟩ := h; subst h2; simp
        | cons d ds =>
          simp only [atEnd, decide_eq_true_eq] at he
          have hd : charClass d = .nul := charClass_nul.mpr he
          simp only [lexOne, hd, Except.ok.injEq, Prod.mk.injEq] at h
          obtain ⟨_, h2⟩ := h; subst h2; simp
      · have := ih t rest h (by simpa using he)
        simp only [List.length_cons]; omega
    case hash =>
      have := skipComment_le cs
      simp only [Except.ok.injEq, Prod.mk.injEq] at h; obtain ⟨_, h2⟩ := h; subst h2
      simp only [List.length_cons]; omega
    case quote =>
      split at h
      · rename_i s r hs
        have := scanStrBody_le cs s r hs
        simp only [Except.ok.injEq, Prod.mk.injEq] at h; obtain ⟨_, h2⟩ := h; subst h2
        simp only [List.length_cons]; omega
      · simp at h
    case nameStart =>
      have h1 := spanName_le cs
      have h2 := ungetPeek_le (spanName cs).2
      simp only [Except.ok.injEq, Prod.mk.injEq] at h; obtain ⟨_, h3⟩ := h; subst h3
      simp only [List.length_cons]; omega
    case sign =>
      split at h
      · split at h
        · have := lexNumber_le h
          simp only [List.length_cons]; omega
        · simp at h
      · simp at h
    case digit =>
      have := lexNumber_le h
      simp only [List.length_cons]; omega
    case other => simp at h
    all_goals
      (simp only [Except.ok.injEq, Prod.mk.injEq] at h; obtain ⟨_, h2⟩ := h; subst h2; simp)


/-- the whole token stream.  `eof` tokens inside the list come from 0xFF bytes; the list ends at the
real end of the input (where `scan_token` would return `TC_EOFILE` for ever). -/
def lexAll (cs : List Char) : Except Err (List Tok) :=
  if hend : atEnd cs then .ok []
  else
    match h : lexOne cs with
    | .error e => .error e
    | .ok (t, rest) => (lexAll rest).map (t :: ·)
termination_by cs.length
decreasing_by exact lexOne_shorter cs t rest h (by simpa using hend)

end TextIO
