import MirVerif.Model.MirCore
import MirVerif.Model.GenTable
/-! # Executable model of `simplify_func` (mir.c) on the MirCore instruction set

`simplifyFunc` follows `simplify_func`/`simplify_insn`/`simplify_op`/`make_one_ret`/
`remove_unused_and_enumerate_labels` statement by statement for the operand kinds MirCore has
(register, integer immediate, memory): extension of narrow parameters, splitting of mem-to-mem
moves, consolidation of adjacent constant `alloca`s, the algebraic shortcuts, `bt/bf` of constants,
the four branch rewrites (jump to next, branch over jump, reversed branch, jump threading), label
canonicalisation, lowering of immediates and memory operands through value-numbered temporaries,
merging of returns with extension of narrow results, removal of unused labels.

Registers of the simplified code are `R.user name` (registers of the program as written) and
`R.temp k` (the `k`-th temporary `new_temp_reg` creates); the driver prints `temp k` with the
spelling `t<n>` the library would pick.  The correspondence check compares the printed result
with `MIR_output_item` after `MIR_link (ctx, NULL, NULL)`. -/
namespace MirVerif.Simplify
open MirVerif.MirCore

inductive R
  | user (s : String)
  | temp (k : Nat)
deriving DecidableEq, Repr

abbrev SInsn := Insn R

/-! ## small pure functions (bridged to the C text by translate/c04_cfun.py) -/

/-- `natural_alignment` -/
def naturalAlignment (s : Int) : Int := if s ≤ 2 then s else if s ≤ 4 then 4 else if s ≤ 8 then 8 else 16

/-- `get_alloca_size_align`: (rounded size, alignment) -/
def allocaSizeAlign (size : Int) : Int × Int :=
  let size := if size ≤ 0 then 1 else size
  let align := naturalAlignment size
  ((size + align - 1) / align * align, align)

/-- the consolidation loop of `simplify_func` over the sizes that follow the first `alloca`:
state `(overall_size, max_align)`, result = offsets of the following blocks and the final size.
`always` = round before every block (candidate fix); `false` = the code as it is: round only when
the alignment grows. -/
def consolidateLoop (always : Bool) : Int → Int → List Int → List Int × Int
  | overall, _, [] => ([], overall)
  | overall, maxAlign, s :: tl =>
    let (size, align) := allocaSizeAlign s
    let grow := decide (maxAlign < align)
    let maxAlign' := if grow then align else maxAlign
    let overall' := if grow || always then (overall + align - 1) / align * align else overall
    let (offs, fin) := consolidateLoop always (overall' + size) maxAlign' tl
    (overall' :: offs, fin)

/-- offsets (relative to the first block) and overall size for the `alloca` sizes `s0 :: rest` -/
def consolidate (always : Bool) (s0 : Int) (rest : List Int) : List Int × Int :=
  let (size, align) := allocaSizeAlign s0
  consolidateLoop always size align rest

/-! ## value numbering of temporaries -/

inductive Key
  | const (v : W64)
  | memv (ty : Ty) (addr : R)
  | mul (a b : R)
  | add (a b : R)
deriving DecidableEq, Repr

/-- variants of the code the translator recognises in mir.c (the code as it is = the defaults;
the other values are the candidate fixes in /verif/fixes) -/
structure Opts where
  /-- round the running size before every consolidated alloca (see `consolidateLoop`) -/
  always : Bool := false
  /-- `MULO`/`MULOS x, 1` are rows of the algebraic shortcut -/
  muloRow : Bool := true
  /-- `make_one_ret` collects the values of several `ret`s in fresh temporaries -/
  freshRets : Bool := false
  /-- the address of a memory destination of an overflow instruction is computed in front of it -/
  ovfAddrBefore : Bool := false
deriving Repr, DecidableEq

structure St where
  vn : List (Key × Nat) := []
  next : Nat := 0
  /-- next fresh label -/
  lab : Nat := 0
  opts : Opts := {}

def vnFind (vn : List (Key × Nat)) (k : Key) : Option Nat :=
  match vn with
  | [] => none
  | (k', t) :: tl => if k' = k then some t else vnFind tl k

/-- `vn_add_val` -/
def vnAdd (st : St) (k : Key) : R × St :=
  match vnFind st.vn k with
  | some t => (.temp t, st)
  | none => (.temp st.next, { st with vn := (k, st.next) :: st.vn, next := st.next + 1 })

/-- `new_temp_reg` -/
def newTemp (st : St) : R × St := (.temp st.next, { st with next := st.next + 1 })

/-! ## lowering of one memory operand (`simplify_op`, case `MIR_OP_MEM`, mir.c:3433-3497) -/

def immI (v : Int) : Opd R := .imm (BitVec.ofInt 64 v)

/-- the address computation: emitted instructions and the register that finally holds the address -/
def lowerAddr (st : St) (m : MemOp R) : List SInsn × R × St :=
  match m.base, m.index with
  | some b, none =>
    if m.disp = 0 then ([], b, st) else
      let (td, st) := vnAdd st (.const m.disp)
      let (ta, st) := vnAdd st (.add b td)
      ([.mov (.reg td) (.imm m.disp), .bin .add false (.reg ta) (.reg b) (.reg td)], ta, st)
  | none, none =>
    -- no base, no index: the displacement alone (also for displacement 0: `mir_assert (disp_reg != 0)`
    -- is the only case the code cannot handle; the scanner never produces it with disp = 0 … it does:
    -- `i64:0` — the code then dereferences register 0; the model emits the `mov` of the constant)
    let (td, st) := vnAdd st (.const m.disp)
    ([.mov (.reg td) (.imm m.disp)], td, st)
  | b?, some i =>
    if b?.isSome ∧ m.disp = 0 ∧ m.scale = 0 then ([], b?.getD i, st)
    else if b?.isNone ∧ m.scale = 1 ∧ m.disp = 0 then ([], i, st)
    else
      -- disp
      let (is1, td?, st) :=
        if m.disp = 0 then (([] : List SInsn), (none : Option R), st) else
          let (td, st) := vnAdd st (.const m.disp)
          ([.mov (.reg td) (.imm m.disp)], some td, st)
      -- index * scale
      let (is2, si, st) :=
        if m.scale > 1 then
          let sc : W64 := BitVec.ofNat 64 m.scale
          let (ts, st) := vnAdd st (.const sc)
          let (tm, st) := vnAdd st (.mul i ts)
          ([Insn.mov (.reg ts) (.imm sc), .bin .mul false (.reg tm) (.reg i) (.reg ts)], tm, st)
        else (([] : List SInsn), i, st)
      -- base + index*scale
      let (is3, bi, st) :=
        match b? with
        | some b =>
          let (tb, st) := vnAdd st (.add b si)
          ([Insn.bin .add false (.reg tb) (.reg b) (.reg si)], tb, st)
        | none => (([] : List SInsn), si, st)
      -- + disp
      match td? with
      | none => (is1 ++ is2 ++ is3, bi, st)
      | some td =>
        let (ta, st) := vnAdd st (.add bi td)
        (is1 ++ is2 ++ is3 ++ [.bin .add false (.reg ta) (.reg bi) (.reg td)], ta, st)

def simpleMem (ty : Ty) (a : R) : MemOp R := { ty := ty, disp := 0, base := some a, index := none, scale := 0 }

/-- result of lowering one operand: instructions to put before / after the instruction, new operand -/
structure OpRes where
  before : List SInsn := []
  after : List SInsn := []
  op : Opd R

/-- `simplify_op` for register / integer / memory operands.
`moveP`: the instruction is `mov`; `keepMem`: `move_p && (nop == 1 || insn->ops[1].mode == MIR_OP_REG)` -/
def simplifyOp (st : St) (moveP outP keepMem : Bool) (op : Opd R) (isOvf : Bool := false) : OpRes × St :=
  match op with
  | .reg _ => ({ op := op }, st)
  | .imm v =>
    if moveP then ({ op := op }, st) else
      let (t, st) := vnAdd st (.const v)
      ({ before := [.mov (.reg t) (.imm v)], op := .reg t }, st)
  | .mem m =>
    if m.ty.isBlk then ({ op := op }, st) else   -- block argument of a call: left as it is
    let afterP := !moveP && outP && !(isOvf && st.opts.ovfAddrBefore)
    let (ais, a, st) := lowerAddr st m
    let m' := simpleMem m.ty a
    if keepMem then
      (if afterP then { after := ais, op := .mem m' } else { before := ais, op := .mem m' }, st)
    else
      let (t, st) := vnAdd st (.memv m.ty a)
      if outP then
        (if afterP then { after := ais ++ [.mov (.mem m') (.reg t)], op := .reg t }
         else { before := ais, after := [.mov (.mem m') (.reg t)], op := .reg t }, st)
      else
        ({ before := ais ++ [.mov (.reg t) (.mem m')], op := .reg t }, st)

def isReg : Opd R → Bool
  | .reg _ => true
  | _ => false

/-- operands in `simplify_insn` order with their `out_p`; labels/prototype/callee are not operands here -/
def simplifyOps (st : St) (moveP : Bool) (src1IsReg : Bool) (ops : List (Opd R × Bool)) (nop : Nat)
    (isOvf : Bool := false) : List SInsn × List SInsn × List (Opd R) × St :=
  match ops with
  | [] => ([], [], [], st)
  | (o, outP) :: tl =>
    let keep := moveP && (nop == 1 || src1IsReg)
    let (r, st) := simplifyOp st moveP outP keep o isOvf
    let (bs, as, os, st) := simplifyOps st moveP src1IsReg tl (nop + 1) isOvf
    -- later "after" groups are inserted directly behind the instruction, i.e. in front of earlier ones
    (r.before ++ bs, as ++ r.after, r.op :: os, st)

/-- `simplify_insn`: before ++ [insn'] ++ after -/
def simplifyInsn (st : St) (i : SInsn) : List SInsn × St :=
  match i with
  | .bin a s d x y =>
    let (bs, as, os, st) := simplifyOps st false false [(d, true), (x, false), (y, false)] 0
    match os with
    | [d', x', y'] => (bs ++ [.bin a s d' x' y'] ++ as, st)
    | _ => ([i], st)
  | .mov d s =>
    let (bs, as, os, st) := simplifyOps st true (isReg s) [(d, true), (s, false)] 0
    match os with
    | [d', s'] => (bs ++ [.mov d' s'] ++ as, st)
    | _ => ([i], st)
  | .ext k sg d s =>
    let (bs, as, os, st) := simplifyOps st false false [(d, true), (s, false)] 0
    match os with
    | [d', s'] => (bs ++ [.ext k sg d' s'] ++ as, st)
    | _ => ([i], st)
  | .neg sh d s =>
    let (bs, as, os, st) := simplifyOps st false false [(d, true), (s, false)] 0
    match os with
    | [d', s'] => (bs ++ [.neg sh d' s'] ++ as, st)
    | _ => ([i], st)
  | .ovf o sh d x y =>
    let (bs, as, os, st) := simplifyOps st false false [(d, true), (x, false), (y, false)] 0 true
    match os with
    | [d', x', y'] => (bs ++ [.ovf o sh d' x' y'] ++ as, st)
    | _ => ([i], st)
  | .bcmp a s l x y =>
    let (bs, as, os, st) := simplifyOps st false false [(x, false), (y, false)] 1
    match os with
    | [x', y'] => (bs ++ [.bcmp a s l x' y'] ++ as, st)
    | _ => ([i], st)
  | .bt s t l x =>
    let (bs, as, os, st) := simplifyOps st false false [(x, false)] 1
    match os with
    | [x'] => (bs ++ [.bt s t l x'] ++ as, st)
    | _ => ([i], st)
  | .switch x ls =>
    let (bs, as, os, st) := simplifyOps st false false [(x, false)] 0
    match os with
    | [x'] => (bs ++ [.switch x' ls] ++ as, st)
    | _ => ([i], st)
  | .alloca d n =>
    let (bs, as, os, st) := simplifyOps st false false [(d, true), (n, false)] 0
    match os with
    | [d', n'] => (bs ++ [.alloca d' n'] ++ as, st)
    | _ => ([i], st)
  | .call inl f res args =>
    let (bs, as, os, st) :=
      simplifyOps st false false (res.map (·, true) ++ args.map (·, false)) 2
    (bs ++ [.call inl f (os.take res.length) (os.drop res.length)] ++ as, st)
  | .ret vs =>
    let (bs, as, os, st) := simplifyOps st false false (vs.map (·, false)) 0
    (bs ++ [.ret os] ++ as, st)
  | i => ([i], st)

/-! ## queries on the instruction list (labels are unique) -/

def isLabel : SInsn → Bool
  | .label _ => true
  | _ => false

/-- suffix of `l` starting at `label lab` (inclusive) -/
def fromLabel (l : List SInsn) (lab : Lab) : List SInsn :=
  match l with
  | [] => []
  | .label x :: tl => if x = lab then .label x :: tl else fromLabel tl lab
  | _ :: tl => fromLabel tl lab

/-- `skip_labels (start, stop)`: first instruction that is not a label or is the label `stop` -/
def skipLabels (l : List SInsn) (stop : Option Lab) : Option SInsn :=
  match l with
  | [] => none
  | .label x :: tl => if stop = some x then some (.label x) else skipLabels tl stop
  | i :: _ => some i

/-- does walking over labels from `l` reach `label lab`? -/
def reaches (l : List SInsn) (lab : Lab) : Bool :=
  match skipLabels l (some lab) with
  | some (.label x) => x == lab
  | _ => false

/-- `last_label`: the last label of the run of labels that starts at `lab` -/
def lastLabelRun (l : List SInsn) (cur : Lab) : Lab :=
  match l with
  | .label x :: tl => lastLabelRun tl x
  | _ => cur

def lastLabel (full : List SInsn) (lab : Lab) : Lab :=
  match fromLabel full lab with
  | .label x :: tl => lastLabelRun tl x
  | _ => lab

/-! ## tables of the rewrite conditions -/

/-- `MIR_reverse_branch_code` on MirCore's branch forms (`none` = `MIR_INSN_BOUND`) -/
def reverseBranch : SInsn → Option (Lab → SInsn)
  | .bt s t _ x => some fun l => .bt s (!t) l x
  | .bcmp a s _ x y => (AOp.neg a).map fun a' => fun l => .bcmp a' s l x y
  | .bo u t _ => some fun l => .bo u (!t) l
  | _ => none

/-- `MIR_int_branch_code_p` -/
def intBranchTarget : SInsn → Option Lab
  | .bt _ _ l _ | .bcmp _ _ l _ _ | .bo _ _ l => some l
  | _ => none

/-- label operand of `MIR_branch_code_p` instructions (`jmp` and the conditional branches) -/
def branchTarget : SInsn → Option Lab
  | .jmp l => some l
  | i => intBranchTarget i

def setTarget (i : SInsn) (l : Lab) : SInsn :=
  match i with
  | .jmp _ => .jmp l
  | .bt s t _ x => .bt s t l x
  | .bcmp a s _ x y => .bcmp a s l x y
  | .bo u t _ => .bo u t l
  | i => i

/-- the rows of the algebraic shortcut (mir.c:3761-3768): the constant second source operand for
which `a x c` is replaced by `mov` (`x*1, x/1, x+0, x-0, x|0, x^0, x<<0, x>>0`) -/
def aopShortcut : AOp → Option Int
  | .mul | .div => some 1
  | .add | .sub | .or | .xor | .lsh | .rsh | .ursh => some 0
  | _ => none

/-- (destination, first source, the row's constant, second source) when the opcode is a row;
`MULO`/`MULOS` are rows too -/
def shortcutConst (muloRow : Bool) : SInsn → Option (Opd R × Opd R × Int × Opd R)
  | .bin a _ d x y => (aopShortcut a).map fun c => (d, x, c, y)
  | .ovf .mul _ d x y => if muloRow then some (d, x, 1, y) else none
  | _ => none

def shortcutApplies (muloRow : Bool) (i : SInsn) : Option (Opd R × Opd R) :=
  match shortcutConst muloRow i with
  | some (d, x, c, .imm v) => if v = BitVec.ofInt 64 c then some (d, x) else none
  | _ => none

/-- `BT|BF L, 0|1`: `some true` = becomes `jmp L`, `some false` = removed (mir.c:3782-3791) -/
def btConst : SInsn → Option Bool
  | .bt _ t _ (.imm v) => if v = 0 then some (t == false) else if v = 1 then some (t == true) else none
  | _ => none

/-- `MIR_op_eq_p` on MirCore operands (scale is ignored without index) -/
def opEq (a b : Opd R) : Bool :=
  match a, b with
  | .reg r, .reg r' => r == r'
  | .imm v, .imm v' => v == v'
  | .mem m, .mem m' =>
    m.ty == m'.ty && m.disp == m'.disp && m.base == m'.base && m.index == m'.index
      && (m.index.isNone || m.scale == m'.scale)
  | _, _ => false

def extOfTy (t : Ty) : Option (Nat × Bool) :=
  match t with
  | .i8 => some (8, true) | .u8 => some (8, false) | .i16 => some (16, true) | .u16 => some (16, false)
  | .i32 => some (32, true) | .u32 => some (32, false) | _ => none

/-! ## the main loop -/

structure Loop where
  out : List SInsn := []      -- processed instructions, reversed
  used : List Lab := []       -- `used_label_p`
  rets : Nat := 0
  jmps : Nat := 0
  st : St

def markAll (full : List SInsn) (ls : List Lab) (used : List Lab) : List Lab × List Lab :=
  match ls with
  | [] => ([], used)
  | l :: tl =>
    let l' := lastLabel full l
    let (r, u) := markAll full tl (if used.contains l' then used else l' :: used)
    (l' :: r, u)

/-- label canonicalisation of the `else` branch (mir.c:3811-3827) -/
def canonLabels (full : List SInsn) (i : SInsn) (used : List Lab) : SInsn × List Lab :=
  match i with
  | .switch x ls => let (ls', u) := markAll full ls used; (.switch x ls', u)
  | i =>
    match branchTarget i with
    | some l => let (ls', u) := markAll full [l] used; (setTarget i (ls'.headD l), u)
    | none => (i, used)

/-- consolidate the constant allocas that directly follow `alloca d0, s0` in `rest`; returns the
new size and the rewritten rest -/
def consolidateAllocas (always : Bool) (d0 : Opd R) (overall maxAlign : Int) :
    List SInsn → Int × List SInsn
  | .alloca d (.imm v) :: tl =>
    if opEq d0 d then (overall, .alloca d (.imm v) :: tl) else
      let (size, align) := allocaSizeAlign v.toInt
      let grow := decide (maxAlign < align)
      let maxAlign' := if grow then align else maxAlign
      let overall' := if grow || always then (overall + align - 1) / align * align else overall
      let (fin, tl') := consolidateAllocas always d0 (overall' + size) maxAlign' tl
      (fin, .bin .add false d d0 (immI overall') :: tl')
  | l => (overall, l)

def MAX_JUMP_CHAIN_LEN : Nat := 32

/-- one round of the `for` loop of `simplify_func` over `cur :: rest` -/
def loopStep (L : Loop) (cur : SInsn) (rest : List SInsn) : Loop × List SInsn :=
  let st := L.st
  -- (0) mem-to-mem move
  let (cur, rest, st) :=
    match cur with
    | .mov (.mem md) (.mem ms) =>
      let (t, st) := newTemp st
      (Insn.mov (.reg t) (.mem ms), Insn.mov (.mem md) (.reg t) :: rest, st)
    | c => (c, rest, st)
  let rets := match cur with | .ret _ => L.rets + 1 | _ => L.rets
  -- (2) consolidation of adjacent allocas
  let (cur, rest) :=
    match cur with
    | .alloca d (.imm v) =>
      let (size, align) := allocaSizeAlign v.toInt
      let (fin, rest') := consolidateAllocas st.opts.always d size align rest
      (Insn.alloca d (immI fin), rest')
    | c => (c, rest)
  let full := L.out.reverse ++ cur :: rest
  let L := { L with st := st, rets := rets }
  let done (L : Loop) (rest : List SInsn) : Loop × List SInsn := ({ L with jmps := 0 }, rest)
  -- (a) BR L|JMP L; <labels>L:
  match branchTarget cur with
  | some l =>
    if reaches rest l then done L rest else
    -- (c) BR L1; JMP L2 with L1, L2 the same place
    let caseC : Bool :=
      match intBranchTarget cur, rest with
      | some l1, .jmp l2 :: _ =>
        reaches (fromLabel full l2) l1 || reaches (fromLabel full l1) l2
      | _, _ => false
    if caseC then done L rest else
    -- (d) bt/bf of the constants 0 and 1
    match btConst cur with
    | some true => done L (.jmp l :: rest)
    | some false => done L rest
    | none =>
    -- (e) BCond L; JMP L2; <labels>L:  =>  BNCond L2
    let caseE : Option (SInsn × List SInsn) :=
      match reverseBranch cur, rest with
      | some mk, .jmp l2 :: .label x :: tl =>
        if reaches (.label x :: tl) l then some (mk l2, .label x :: tl) else none
      | _, _ => none
    match caseE with
    | some (cur', rest') => done L (cur' :: rest')
    | none =>
    -- (f) jump threading
    let caseF : Option Lab :=
      match skipLabels (fromLabel full l) none with
      | some (.jmp l2) => if L.jmps + 1 < MAX_JUMP_CHAIN_LEN then some l2 else none
      | _ => none
    match caseF with
    | some l2 => ({ L with jmps := L.jmps + 1 }, setTarget cur l2 :: rest)
    | none =>
      let (cur, used) := canonLabels full cur L.used
      let (is, st) := simplifyInsn L.st cur
      done { L with out := is.reverse ++ L.out, used := used, st := st } rest
  | none =>
    -- (b) algebraic shortcuts
    match shortcutApplies L.st.opts.muloRow cur with
    | some (d, x) => if opEq d x then done L rest else done L (.mov d x :: rest)
    | none =>
      let (cur, used) := canonLabels full cur L.used
      let (is, st) := simplifyInsn L.st cur
      done { L with out := is.reverse ++ L.out, used := used, st := st } rest

def loopRun : Nat → Loop → List SInsn → Loop
  | 0, L, _ => L
  | _, L, [] => L
  | n + 1, L, cur :: rest =>
    let (L', rest') := loopStep L cur rest
    loopRun n L' rest'

/-! ## `make_one_ret` -/

/-- split at the last `ret`: (before, operands of the last ret, after) -/
def splitLastRet (l : List SInsn) : Option (List SInsn × List (Opd R) × List SInsn) :=
  match l with
  | [] => none
  | i :: tl =>
    match splitLastRet tl with
    | some (b, vs, a) => some (i :: b, vs, a)
    | none => match i with
              | .ret vs => some ([], vs, tl)
              | _ => none

/-- extension instructions before the last `ret` and its new operands -/
def extResults (st : St) : List Ty → List (Opd R) → List SInsn × List (Opd R) × St
  | t :: ts, v :: vs =>
    match extOfTy t with
    | some (k, sg) =>
      let (r, st) := newTemp st
      let (is, os, st) := extResults st ts vs
      (.ext k sg (.reg r) v :: is, .reg r :: os, st)
    | none =>
      let (is, os, st) := extResults st ts vs
      (is, v :: os, st)
  | _, vs => ([], vs, st)

def zipMov : List (Opd R) → List (Opd R) → List SInsn
  | d :: ds, s :: ss => .mov d s :: zipMov ds ss
  | _, _ => []

/-- replace every other `ret` by moves into the last `ret`'s operands and a jump -/
def replaceRets (retOps : List (Opd R)) (lab : Lab) : List SInsn → List SInsn
  | [] => []
  | .ret vs :: tl => zipMov retOps vs ++ .jmp lab :: replaceRets retOps lab tl
  | i :: tl => i :: replaceRets retOps lab tl

/-- candidate fix: every result first goes to a fresh temporary (moves in front of the label), the
extension reads that temporary; temporaries are created result by result (fresh, then extension) -/
def extResultsFresh (st : St) : List Ty → List (Opd R) → List SInsn × List SInsn × List (Opd R) × List (Opd R) × St
  | t :: ts, v :: vs =>
    let (f, st) := newTemp st
    match extOfTy t with
    | some (k, sg) =>
      let (r, st) := newTemp st
      let (ms, is, fs, os, st) := extResultsFresh st ts vs
      (.mov (.reg f) v :: ms, .ext k sg (.reg r) (.reg f) :: is, .reg f :: fs, .reg r :: os, st)
    | none =>
      let (ms, is, fs, os, st) := extResultsFresh st ts vs
      (.mov (.reg f) v :: ms, is, .reg f :: fs, .reg f :: os, st)
  | _, vs => ([], [], vs, vs, st)

def makeOneRet (st : St) (resTys : List Ty) (nrets : Nat) (l : List SInsn) : List SInsn × St :=
  match splitLastRet l with
  | none => (l, st)
  | some (before, vs, after) =>
    let (lab?, st) := if nrets > 1 then (some st.lab, { st with lab := st.lab + 1 }) else (none, st)
    match lab? with
    | some x =>
      if st.opts.freshRets then
        let (movs, exts, fresh, vs', st) := extResultsFresh st resTys vs
        (replaceRets fresh x before ++ movs ++ [Insn.label x] ++ exts ++ [.ret vs'] ++ after, st)
      else
        let (exts, vs', st) := extResults st resTys vs
        (replaceRets vs x before ++ [Insn.label x] ++ exts ++ [.ret vs'] ++ after, st)
    | none =>
      let (exts, vs', st) := extResults st resTys vs
      (before ++ exts ++ [.ret vs'] ++ after, st)

/-! ## whole function -/

def maxLabel : List SInsn → Nat
  | [] => 0
  | .label l :: tl => max (l + 1) (maxLabel tl)
  | _ :: tl => maxLabel tl

def liftOpd : Opd String → Opd R
  | .reg r => .reg (.user r)
  | .imm v => .imm v
  | .mem m => .mem { ty := m.ty, disp := m.disp, base := m.base.map .user, index := m.index.map .user, scale := m.scale }

def liftInsn : Insn String → SInsn
  | .bin a s d x y => .bin a s (liftOpd d) (liftOpd x) (liftOpd y)
  | .mov d s => .mov (liftOpd d) (liftOpd s)
  | .ext k sg d s => .ext k sg (liftOpd d) (liftOpd s)
  | .neg sh d s => .neg sh (liftOpd d) (liftOpd s)
  | .ovf o sh d x y => .ovf o sh (liftOpd d) (liftOpd x) (liftOpd y)
  | .label l => .label l
  | .jmp l => .jmp l
  | .bcmp a s l x y => .bcmp a s l (liftOpd x) (liftOpd y)
  | .bt s t l x => .bt s t l (liftOpd x)
  | .bo u t l => .bo u t l
  | .switch x ls => .switch (liftOpd x) ls
  | .alloca d n => .alloca (liftOpd d) (liftOpd n)
  | .call inl f res args => .call inl f (res.map liftOpd) (args.map liftOpd)
  | .ret vs => .ret (vs.map liftOpd)

/-- extension of narrow parameters: `MIR_prepend_insn` in parameter order, so the last one comes first -/
def argExts : List (String × Ty) → List SInsn → List SInsn
  | [], acc => acc
  | (r, t) :: tl, acc =>
    match extOfTy t with
    | some (k, sg) => argExts tl (.ext k sg (.reg (.user r)) (.reg (.user r)) :: acc)
    | none => argExts tl acc

def simplifyFunc (opts : Opts) (f : Func String) : Func R :=
  let body0 := argExts f.params [] ++ f.body.map liftInsn
  let st : St := { lab := maxLabel body0, opts := opts }
  let L := loopRun (64 * body0.length + 1024) { st := st } body0
  let body1 := L.out.reverse
  let (body2, _) := makeOneRet L.st f.res L.rets body1
  let origLabels := body0.filterMap fun i => match i with | .label l => some l | _ => none
  let body3 := body2.filter fun i =>
    match i with
    | .label l => !(origLabels.contains l) || L.used.contains l
    | _ => true
  { name := f.name, params := f.params.map fun (r, t) => (R.user r, t), res := f.res, body := body3 }

end MirVerif.Simplify

/-! ## `func_alloca_features` (mir.c): what `process_inlines` learns about the allocas of a
simplified function, and the stack bracket it must put around an inlined body -/
namespace MirVerif.Simplify
open MirVerif.MirCore

def insnOpds : SInsn → List (Opd R)
  | .bin _ _ d x y | .ovf _ _ d x y => [d, x, y]
  | .mov d s | .ext _ _ d s | .neg _ d s => [d, s]
  | .bcmp _ _ _ x y => [x, y]
  | .bt _ _ _ x | .switch x _ => [x]
  | .alloca d n => [d, n]
  | .call _ _ res args => res ++ args
  | .ret vs => vs
  | .label _ | .jmp _ | .bo _ _ _ => []

def opdMentions (r : R) : Opd R → Bool
  | .reg x => x == r
  | .imm _ => false
  | .mem m => m.base == some r || m.index == some r

structure AllocaFeat where
  /-- result operand and constant size of the "top alloca": the first alloca, in front of every label
  and call, whose size is an integer constant (`alloca r, c` or `mov t, c; alloca r, t`) -/
  top : Option (Opd R × W64) := none
  /-- some later instruction mentions the top alloca's result register (or the result is not a register) -/
  topUsed : Bool := false
  /-- there is an alloca that is not the top one (variable size, or after a label / call / the top one):
  an inlined copy of the function must be bracketed by `bstart`/`bend` -/
  nonTop : Bool := false
deriving Repr

/-- the scan, instruction by instruction; `prev` is the instruction in front of the current one -/
def allocaScan (setTop : Bool) (prev : Option SInsn) (acc : AllocaFeat) : List SInsn → AllocaFeat
  | [] => acc
  | i :: tl =>
    let setTop := if (isLabel i || (match i with | .call .. => true | _ => false)) then false else setTop
    match i with
    | .alloca d n =>
      let sizeOp : Opd R :=
        match n, prev with
        | .reg r, some (.mov (.reg r') s) => if r == r' then s else n
        | _, _ => n
      match sizeOp, setTop with
      | .imm c, true =>
        allocaScan false (some i) { acc with top := some (d, c), topUsed := acc.topUsed || !(isReg d) } tl
      | _, _ =>
        if acc.top.isNone then { acc with nonTop := true }      -- `return NULL` in the middle of the scan
        else allocaScan setTop (some i) { acc with nonTop := true } tl
    | _ =>
      let used := match acc.top with
        | some (.reg r, _) => acc.topUsed || (insnOpds i).any (opdMentions r)
        | _ => acc.topUsed
      allocaScan setTop (some i) { acc with topUsed := used } tl

def allocaFeatures (body : List SInsn) : AllocaFeat := allocaScan true none {} body

/-- the stack bracket of `process_inlines`: `bstart t; <inlined body>; bend t` exactly when the callee
has an alloca that is not its top one (the number of `bstart`s the link must add for one inlined call) -/
def inlineBrackets (callee : List SInsn) : Nat := if (allocaFeatures callee).nonTop then 1 else 0

end MirVerif.Simplify
